#!/bin/sh
# Run once after a fresh restore, offline: parses every specification module and builds the harness.
set -e
cd "$(dirname "$0")"
export GOFLAGS=-mod=mod GOPROXY=off GOSUMDB=off GOTOOLCHAIN=local
mkdir -p .work evidence
S=$(mktemp -d -p .work setup-XXXXXX)
cp spec/*.tla spec/mc/*.tla "$S"/ 2>/dev/null || true
[ -d spec/trace ] && cp spec/trace/*.tla "$S"/ 2>/dev/null || true
( cd "$S" && for m in *.tla; do
    timeout 120 tla-sany "$m" > sany.out 2>&1 || { echo "SANY failed on $m"; cat sany.out; exit 2; }
  done )
rm -rf "$S"
cp /repo/go.sum harness/go.sum 2>/dev/null || true
( cd harness && go build -tags verif -o /dev/null ./jh )
echo "setup ok"
