module verifharness

go 1.23

require github.com/blues/jsonata-go v0.0.0

replace github.com/blues/jsonata-go => /repo
