package main

// Schedule replay (C06, C12, C05; DESIGN.md 5.2): forces the interleavings that TLC enumerated on
// the call-protocol model JCall onto the real code through the blocking gate hook, and records the
// protocol steps and the per-goroutine outcomes.

import (
	"bufio"
	"bytes"
	"encoding/json"
	"flag"
	"fmt"
	"os"
	"runtime"
	"strconv"
	"sync"
	"time"

	jsonata "github.com/blues/jsonata-go"
)

type callTree struct {
	Fn   string     `json:"fn"`
	Ctx  int        `json:"ctx"`
	Args []callTree `json:"args"`
}

var fnNames = map[string]string{"f": "substringBefore", "h": "substringAfter"}

// build returns the program text for the tree, fills doc with the context strings and ids with
// the context id of every context string, and returns what the call evaluates to.
func (t *callTree) build(n *int, doc map[string]interface{}, ids map[string]int) (prog string, result string) {
	key := "k" + strconv.Itoa(*n)
	*n++
	sep := "|"
	arg := `"|"`
	if len(t.Args) > 0 {
		p, r := t.Args[0].build(n, doc, ids)
		arg, sep = p, r
	}
	before, after := fmt.Sprintf("L%d", t.Ctx), fmt.Sprintf("R%d", t.Ctx)
	s := before + sep + after
	doc[key] = s
	ids[s] = t.Ctx
	prog = "$$." + key + ".$" + fnNames[t.Fn] + "(" + arg + ")"
	if t.Fn == "f" {
		return prog, before
	}
	return prog, after
}

func goid() int {
	var buf [64]byte
	n := runtime.Stack(buf[:], false)
	f := bytes.Fields(buf[:n])
	id, _ := strconv.Atoi(string(f[1]))
	return id
}

type gate struct {
	mu      sync.Mutex
	cond    *sync.Cond
	order   [][2]interface{} // [g, "SetCtx"|"Invoke"]
	k       int
	holder  int // goroutine (model id) holding the token, 0 if free
	byGoid  map[int]int
	seq     int
	events  []M
	ids     map[string]int
	failed  string
	pending map[int]interface{} // last ctx-use of a goroutine, attached to its Invoke event
}

func (gt *gate) at(point, fn string, ctx interface{}) {
	gt.mu.Lock()
	defer gt.mu.Unlock()
	g, ok := gt.byGoid[goid()]
	if !ok {
		return
	}
	if point == "ctx-use" {
		used := -1
		if s, ok := ctx.(string); ok {
			if id, ok := gt.ids[s]; ok {
				used = id
			}
		}
		gt.events[len(gt.events)-1]["used"] = used // the Invoke event of this goroutine is the last one logged by it
		return
	}
	kind := map[string]string{"set-ctx": "SetCtx", "invoke": "Invoke"}[point]
	if gt.holder == g {
		gt.holder = 0
		gt.cond.Broadcast()
	}
	deadline := time.Now().Add(3 * time.Second)
	for !(gt.holder == 0 && gt.k < len(gt.order) && toInt(gt.order[gt.k][0]) == g && gt.order[gt.k][1] == kind) {
		if gt.failed != "" {
			return
		}
		if time.Now().After(deadline) {
			gt.failed = fmt.Sprintf("goroutine %d waiting at %s while the schedule wants %v (step %d)", g, kind, gt.order[min(gt.k, len(gt.order)-1)], gt.k)
			gt.cond.Broadcast()
			return
		}
		waitWithTimeout(gt.cond, 50*time.Millisecond)
	}
	gt.holder = g
	gt.k++
	gt.seq++
	gt.events = append(gt.events, M{"ev": kind, "g": g, "seq": gt.seq, "fn": fn})
}

func waitWithTimeout(c *sync.Cond, d time.Duration) {
	t := time.AfterFunc(d, c.Broadcast)
	c.Wait()
	t.Stop()
}

func (gt *gate) finished(g int) {
	gt.mu.Lock()
	if gt.holder == g {
		gt.holder = 0
	}
	gt.cond.Broadcast()
	gt.mu.Unlock()
}

func schedMain(args []string) {
	fs := flag.NewFlagSet("sched", flag.ExitOnError)
	in := fs.String("in", "", "schedules (ndjson)")
	out := fs.String("out", "", "trace of protocol events (ndjson)")
	outEval := fs.String("evals", "", "trace of Eval outcomes (ndjson)")
	fs.Parse(args)
	f, err := os.Open(*in)
	if err != nil {
		fmt.Fprintln(os.Stderr, err)
		os.Exit(2)
	}
	defer f.Close()
	o, _ := os.Create(*out)
	defer o.Close()
	oe, _ := os.Create(*outEval)
	defer oe.Close()
	w, we := bufio.NewWriter(o), bufio.NewWriter(oe)
	defer w.Flush()
	defer we.Flush()
	sc := bufio.NewScanner(f)
	sc.Buffer(make([]byte, 1<<20), 1<<24)
	id, eid := 0, 0
	emit := func(wr *bufio.Writer, n *int, ev M) {
		*n++
		ev["id"] = *n
		b, _ := json.Marshal(ev)
		wr.Write(b)
		wr.WriteByte('\n')
	}
	for sc.Scan() {
		var raw struct {
			Trees  []callTree       `json:"trees"`
			Order  [][2]interface{} `json:"order"`
			Shared bool             `json:"shared_expr"`
		}
		if err := json.Unmarshal(sc.Bytes(), &raw); err != nil {
			fmt.Fprintln(os.Stderr, "bad schedule line:", err)
			os.Exit(2)
		}
		var s struct {
			Trees  map[string]callTree
			Order  [][2]interface{}
			Shared bool
		}
		s.Trees = map[string]callTree{}
		for i, t := range raw.Trees {
			s.Trees[strconv.Itoa(i+1)] = t
		}
		s.Order, s.Shared = raw.Order, raw.Shared
		gt := &gate{order: s.Order, byGoid: map[int]int{}, ids: map[string]int{}}
		gt.cond = sync.NewCond(&gt.mu)
		type job struct {
			g    int
			expr *jsonata.Expr
			src  string
			doc  map[string]interface{}
			out  M
		}
		var jobs []*job
		exprs := map[string]*jsonata.Expr{}
		for gs, t := range s.Trees {
			g, _ := strconv.Atoi(gs)
			doc := map[string]interface{}{}
			n := 0
			tt := t
			prog, _ := tt.build(&n, doc, gt.ids)
			e := exprs[prog]
			if e == nil || !s.Shared {
				e, err = jsonata.Compile(prog)
				if err != nil {
					fmt.Fprintln(os.Stderr, "cannot compile", prog, err)
					os.Exit(2)
				}
				exprs[prog] = e
			}
			jobs = append(jobs, &job{g: g, expr: e, src: prog, doc: doc})
		}
		emit(w, &id, M{"ev": "Reset", "trees": raw.Trees})
		jsonata.VerifGate = gt.at
		var wg sync.WaitGroup
		for _, j := range jobs {
			wg.Add(1)
			go func(j *job) {
				defer wg.Done()
				gt.mu.Lock()
				gt.byGoid[goid()] = j.g
				gt.mu.Unlock()
				j.out = safeEval(j.expr, j.doc)
				gt.finished(j.g)
			}(j)
		}
		wg.Wait()
		jsonata.VerifGate = nil
		for _, ev := range gt.events {
			emit(w, &id, ev)
		}
		if gt.failed != "" || gt.k != len(gt.order) {
			emit(w, &id, M{"ev": "NotFollowed", "why": gt.failed, "consumed": gt.k, "of": len(gt.order)})
		}
		for _, j := range jobs {
			pd, _ := project(j.doc)
			emit(we, &eid, M{"ev": "Eval", "fam": "C06", "src": cps(j.src), "ast": astOf(verifNode(j.expr)), "inp": pd, "binds": []interface{}{}, "out": j.out, "g": j.g})
		}
	}
}
