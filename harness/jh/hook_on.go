//go:build verif

package main

import (
	jsonata "github.com/blues/jsonata-go"
	"github.com/blues/jsonata-go/jparse"
)

func verifNode(e *jsonata.Expr) jparse.Node { return jsonata.VerifNode(e) }
