package main

// Compile-mode cases (C08, C04, C11): the input is a byte string; the event records the tokens
// the real lexer produced (verif hook), the outcome of Compile, and the totality side conditions.

import (
	"encoding/json"
	"errors"
	"strings"

	jsonata "github.com/blues/jsonata-go"
	"github.com/blues/jsonata-go/jparse"
)

func bytesOf(v interface{}) []byte {
	a, _ := v.([]interface{})
	out := make([]byte, len(a))
	for i, x := range a {
		out[i] = byte(toInt(x))
	}
	return out
}

func bytesJSON(b []byte) []interface{} {
	out := make([]interface{}, len(b))
	for i, x := range b {
		out[i] = int(x)
	}
	return out
}

func safeMustCompile(src string) (panicked bool) {
	defer func() {
		if r := recover(); r != nil {
			panicked = true
		}
	}()
	jsonata.MustCompile(src)
	return false
}

// runDenoteCase (C11): the bytes are a candidate JSON text; it is compiled as an expression and
// evaluated with EvalBytes, and - independently - decoded by encoding/json.
func runDenoteCase(rq *request) M {
	src := string(bytesOf(rq.Bytes))
	ev := M{"id": rq.ID, "ev": "Denote", "fam": rq.Fam, "bytes": bytesJSON([]byte(src))}
	var ref interface{}
	if err := json.Unmarshal([]byte(src), &ref); err == nil {
		if pr, perr := project(ref); perr == nil {
			ev["ref"] = pr
		}
	}
	e, cerr, cp := safeCompile(src)
	switch {
	case cp != nil:
		ev["out"] = M{"o": "panic", "site": cp.site, "msg": cp.msg}
		return ev
	case cerr != nil:
		ev["out"] = classifyErr(cerr)
		return ev
	}
	func() {
		defer func() {
			if r := recover(); r != nil {
				p := capturePanic(r)
				ev["out"] = M{"o": "panic", "site": p.site, "msg": p.msg}
			}
		}()
		// "on any input": the input rotates with the text
		inputs := []string{`{"a": 1, "b": [2]}`, `[]`, `{}`, `[1, 2]`, `"s"`, `null`, `[[]]`, `0`}
		h := 0
		for _, c := range []byte(src) {
			h = (h*31 + int(c)) % 1000003
		}
		in := inputs[h%len(inputs)]
		var inv interface{}
		json.Unmarshal([]byte(in), &inv)
		pin, _ := project(inv)
		ev["inp"] = pin
		b, err := e.EvalBytes([]byte(in))
		if err != nil {
			ev["out"] = classifyErr(err)
			return
		}
		var back interface{}
		if err := json.Unmarshal(b, &back); err != nil {
			ev["out"] = M{"o": "bad", "why": "EvalBytes returned invalid JSON"}
			return
		}
		pb, perr := project(back)
		if perr != nil {
			ev["out"] = M{"o": "unproj", "gotype": perr.Error()}
			return
		}
		ev["out"] = M{"o": "val", "r": pb}
	}()
	return ev
}

func runCompileCase(rq *request) M {
	if rq.Mode == "denote" {
		return runDenoteCase(rq)
	}
	src := string(bytesOf(rq.Bytes))
	ev := M{"id": rq.ID, "ev": "Lex", "fam": rq.Fam, "bytes": bytesJSON([]byte(src))}
	var toks []interface{}
	jparse.VerifToken = func(typ int, start, end, current int, allowRegex bool) {
		if len(toks) < 4000 {
			toks = append(toks, M{"ty": typ, "s": start, "e": end, "cur": current, "ar": allowRegex})
		}
	}
	e, cerr, cp := safeCompile(src)
	jparse.VerifToken = nil
	if toks == nil {
		toks = []interface{}{}
	}
	ev["toks"] = toks
	switch {
	case cp != nil:
		ev["out"] = M{"o": "panic", "site": cp.site, "msg": cp.msg}
		return ev
	case cerr != nil:
		out := M{"o": "err", "k": "other"}
		var pe *jparse.Error
		if errors.As(cerr, &pe) {
			out = M{"o": "err", "k": "Parse", "ptype": int(pe.Type), "pos": pe.Position, "msg_ok": pe.Error() != "", "nil_expr": e == nil}
		}
		ev["out"] = out
		ev["must_ok"] = safeMustCompile(src) // must panic
		return ev
	}
	ev["out"] = M{"o": "ok", "nil_expr": e == nil}
	ev["must_ok"] = !safeMustCompile(src) // must not panic
	if e != nil {
		ev["ast"] = astCps(astOf(verifNode(e)))
		_, sok := safeString(e)
		ev["str_ok"] = sok
		if strings.Contains(src, "function") || strings.Contains(src, "λ") {
			// user-defined functions may recurse without bound (outside C08/C09's quantifier)
			return ev
		}
		o := safeEval(e, map[string]interface{}{"a": float64(1), "b": []interface{}{"x"}})
		ev["eval"] = o["o"]
		if o["o"] == "panic" {
			ev["eval_site"] = o["site"]
		}
	}
	return ev
}
