package main

// Conversion of the exported jparse AST to the specification's AST records
// (DESIGN.md 4.4) and printing of specification ASTs as program text.

import (
	"fmt"
	"strconv"
	"strings"
	"unicode"

	"github.com/blues/jsonata-go/jparse"
)

func astList(ns []jparse.Node) []interface{} {
	out := make([]interface{}, len(ns))
	for i, n := range ns {
		out[i] = astOf(n)
	}
	return out
}

func paramsOf(ps []jparse.Param) []interface{} {
	out := make([]interface{}, len(ps))
	for i, p := range ps {
		out[i] = M{"ty": int(p.Type), "opt": int(p.Option), "sub": paramsOf(p.SubParams)}
	}
	return out
}

func strList(ss []string) []interface{} {
	out := make([]interface{}, len(ss))
	for i, s := range ss {
		out[i] = s
	}
	return out
}

func pairsOf(ps [][2]jparse.Node) []interface{} {
	out := make([]interface{}, len(ps))
	for i, p := range ps {
		out[i] = []interface{}{astOf(p[0]), astOf(p[1])}
	}
	return out
}

var none = M{"k": "None"}

func astOf(n jparse.Node) M {
	switch n := n.(type) {
	case nil:
		return none
	case *jparse.StringNode:
		return M{"k": "String", "s": cps(n.Value)}
	case *jparse.NumberNode:
		if n.Value == 0 {
			// the sign of a zero literal (-0, --0) is outside the model: trees are compared with every zero written 0/1
			return M{"k": "Number", "num": M{"t": "num", "n": 0, "d": 1}}
		}
		return M{"k": "Number", "num": projNum(n.Value)}
	case *jparse.BooleanNode:
		return M{"k": "Boolean", "b": n.Value}
	case *jparse.NullNode:
		return M{"k": "Null"}
	case *jparse.RegexNode:
		return M{"k": "Regex", "s": cps(n.Value.String())}
	case *jparse.VariableNode:
		return M{"k": "Variable", "nm": n.Name}
	case *jparse.NameNode:
		return M{"k": "Name", "s": cps(n.Value), "esc": n.Escaped()}
	case *jparse.PathNode:
		return M{"k": "Path", "steps": astList(n.Steps), "keep": n.KeepArrays}
	case *jparse.NegationNode:
		return M{"k": "Negation", "e": astOf(n.RHS)}
	case *jparse.RangeNode:
		return M{"k": "Range", "l": astOf(n.LHS), "r": astOf(n.RHS)}
	case *jparse.ArrayNode:
		return M{"k": "Array", "items": astList(n.Items)}
	case *jparse.ObjectNode:
		return M{"k": "Object", "pairs": pairsOf(n.Pairs)}
	case *jparse.BlockNode:
		return M{"k": "Block", "exprs": astList(n.Exprs)}
	case *jparse.WildcardNode:
		return M{"k": "Wildcard"}
	case *jparse.DescendentNode:
		return M{"k": "Descendent"}
	case *jparse.ObjectTransformationNode:
		return M{"k": "Transform", "pat": astOf(n.Pattern), "upd": astOf(n.Updates), "del": astOfOpt(n.Deletes)}
	case *jparse.LambdaNode:
		return M{"k": "Lambda", "params": strList(n.ParamNames), "body": astOf(n.Body), "short": n.Shorthand()}
	case *jparse.TypedLambdaNode:
		return M{"k": "TypedLambda", "params": strList(n.ParamNames), "body": astOf(n.Body), "short": n.Shorthand(),
			"sig": paramsOf(n.In), "sigout": paramsOf(n.Out)}
	case *jparse.PartialNode:
		return M{"k": "Partial", "fn": astOf(n.Func), "args": astList(n.Args)}
	case *jparse.PlaceholderNode:
		return M{"k": "Placeholder"}
	case *jparse.FunctionCallNode:
		return M{"k": "Call", "fn": astOf(n.Func), "args": astList(n.Args)}
	case *jparse.PredicateNode:
		return M{"k": "Predicate", "e": astOf(n.Expr), "filters": astList(n.Filters)}
	case *jparse.GroupNode:
		return M{"k": "Group", "e": astOf(n.Expr), "pairs": pairsOf(n.ObjectNode.Pairs)}
	case *jparse.ConditionalNode:
		return M{"k": "Cond", "c": astOf(n.If), "th": astOf(n.Then), "el": astOfOpt(n.Else)}
	case *jparse.AssignmentNode:
		return M{"k": "Assign", "nm": n.Name, "e": astOf(n.Value)}
	case *jparse.NumericOperatorNode:
		return M{"k": "NumOp", "op": n.Type.String(), "l": astOf(n.LHS), "r": astOf(n.RHS)}
	case *jparse.ComparisonOperatorNode:
		return M{"k": "CmpOp", "op": n.Type.String(), "l": astOf(n.LHS), "r": astOf(n.RHS)}
	case *jparse.BooleanOperatorNode:
		return M{"k": "BoolOp", "op": n.Type.String(), "l": astOf(n.LHS), "r": astOf(n.RHS)}
	case *jparse.StringConcatenationNode:
		return M{"k": "Concat", "l": astOf(n.LHS), "r": astOf(n.RHS)}
	case *jparse.SortNode:
		ts := make([]interface{}, len(n.Terms))
		for i, t := range n.Terms {
			d := ""
			switch t.Dir {
			case jparse.SortAscending:
				d = "<"
			case jparse.SortDescending:
				d = ">"
			}
			ts[i] = M{"dir": d, "e": astOf(t.Expr)}
		}
		return M{"k": "Sort", "e": astOf(n.Expr), "terms": ts}
	case *jparse.FunctionApplicationNode:
		return M{"k": "Apply", "l": astOf(n.LHS), "r": astOf(n.RHS)}
	}
	return M{"k": "Unknown", "gotype": fmt.Sprintf("%T", n)}
}

// astCps is the tree in the form the grammar specification (JSyntax) builds it: variable and
// parameter names as code-point sequences.
func astCps(m interface{}) interface{} {
	switch x := m.(type) {
	case []interface{}:
		out := make([]interface{}, len(x))
		for i := range x {
			out[i] = astCps(x[i])
		}
		return out
	case map[string]interface{}:
		return astCpsMap(x)
	}
	return m
}

func astCpsMap(x map[string]interface{}) interface{} {
	out := M{}
	for k, v := range x {
		out[k] = astCps(v)
	}
	switch x["k"] {
	case "Variable":
		return M{"k": "Variable", "s": cps(x["nm"].(string))}
	case "Assign":
		return M{"k": "Assign", "s": cps(x["nm"].(string)), "e": out["e"]}
	case "Lambda":
		ps := x["params"].([]interface{})
		cp := make([]interface{}, len(ps))
		for i, p := range ps {
			cp[i] = cps(p.(string))
		}
		return M{"k": "Lambda", "ps": cp, "body": out["body"], "short": x["short"]}
	}
	return out
}

func astOfOpt(n jparse.Node) M {
	return astOf(n)
}

func astOfOptOld(n jparse.Node) M {
	if n == nil || isNilNode(n) {
		return none
	}
	return astOf(n)
}

func isNilNode(n jparse.Node) bool {
	defer func() { recover() }()
	return n == nil || fmt.Sprintf("%p", n) == "%!p(<nil>)"
}

// ---------------------------------------------------------------------------
// printing

var keywords = map[string]bool{"and": true, "or": true, "in": true, "true": true, "false": true, "null": true, "function": true}

func plainName(s string) bool {
	if s == "" || keywords[s] {
		return false
	}
	for i, r := range s {
		if !(r == '_' || unicode.IsLetter(r) || (i > 0 && unicode.IsDigit(r))) || r > 127 {
			return false
		}
	}
	return true
}

func quoteStr(s string) string {
	var b strings.Builder
	b.WriteByte('"')
	for _, r := range s {
		switch {
		case r == '"':
			b.WriteString(`\"`)
		case r == '\\':
			b.WriteString(`\\`)
		case r == '\n':
			b.WriteString(`\n`)
		case r == '\r':
			b.WriteString(`\r`)
		case r == '\t':
			b.WriteString(`\t`)
		case r < 32:
			fmt.Fprintf(&b, `\u%04x`, r)
		default:
			b.WriteRune(r)
		}
	}
	b.WriteByte('"')
	return b.String()
}

func numText(m M) string {
	n, d := toInt(m["n"]), toInt(m["d"])
	if d == 1 {
		return strconv.Itoa(n)
	}
	return strconv.FormatFloat(float64(n)/float64(d), 'f', -1, 64)
}

func g(m M, k string) M {
	x, _ := m[k].(map[string]interface{})
	return x
}
func gl(m M, k string) []interface{} {
	x, _ := m[k].([]interface{})
	return x
}
func gs(m M, k string) string {
	x, _ := m[k].(string)
	return x
}
func gb(m M, k string) bool {
	x, _ := m[k].(bool)
	return x
}

func joinAst(ns []interface{}, sep string) string {
	ss := make([]string, len(ns))
	for i, n := range ns {
		ss[i] = unparse(n.(map[string]interface{}))
	}
	return strings.Join(ss, sep)
}

func sigText(ps []interface{}) string {
	letters := []struct {
		bit int
		c   string
	}{{1, "n"}, {2, "s"}, {4, "b"}, {8, "l"}, {16, "a"}, {32, "o"}, {64, "f"}, {128, "j"}, {256, "x"}}
	var b strings.Builder
	for _, p := range ps {
		pm := p.(map[string]interface{})
		ty := toInt(pm["ty"])
		var ls []string
		for _, l := range letters {
			if ty&l.bit != 0 {
				ls = append(ls, l.c)
			}
		}
		if len(ls) == 1 {
			b.WriteString(ls[0])
		} else {
			b.WriteString("(" + strings.Join(ls, "") + ")")
		}
		if sub := gl(pm, "sub"); len(sub) > 0 {
			b.WriteString("<" + sigText(sub) + ">")
		}
		switch toInt(pm["opt"]) {
		case 1:
			b.WriteString("?")
		case 2:
			b.WriteString("+")
		case 3:
			b.WriteString("-")
		}
	}
	return b.String()
}

func pairsText(ps []interface{}) string {
	ss := make([]string, len(ps))
	for i, p := range ps {
		pp := p.([]interface{})
		ss[i] = unparse(pp[0].(map[string]interface{})) + ": " + unparse(pp[1].(map[string]interface{}))
	}
	return "{" + strings.Join(ss, ", ") + "}"
}

// unparse prints a specification AST as program text.  It never adds
// parentheses: in this port a parenthesis is a Block node and may change the
// meaning, so generators only build trees that print unambiguously; the
// replayer checks that the text parses back to the same tree.
func unparse(m M) string {
	switch gs(m, "k") {
	case "String":
		return quoteStr(cpsToString(m["s"]))
	case "Number":
		return numText(g(m, "num"))
	case "Boolean":
		if gb(m, "b") {
			return "true"
		}
		return "false"
	case "Null":
		return "null"
	case "Regex":
		return "/" + strings.ReplaceAll(cpsToString(m["s"]), "/", `\/`) + "/"
	case "Variable":
		return "$" + gs(m, "nm")
	case "Name":
		s := cpsToString(m["s"])
		if gb(m, "esc") || !plainName(s) {
			return "`" + s + "`"
		}
		return s
	case "Path":
		s := joinAst(gl(m, "steps"), ".")
		if gb(m, "keep") {
			s += "[]"
		}
		return s
	case "Negation":
		return "-" + unparse(g(m, "e"))
	case "Range":
		return unparse(g(m, "l")) + ".." + unparse(g(m, "r"))
	case "Array":
		return "[" + joinAst(gl(m, "items"), ", ") + "]"
	case "Object":
		return pairsText(gl(m, "pairs"))
	case "Group":
		return unparse(g(m, "e")) + pairsText(gl(m, "pairs"))
	case "Block":
		return "(" + joinAst(gl(m, "exprs"), "; ") + ")"
	case "Wildcard":
		return "*"
	case "Descendent":
		return "**"
	case "Transform":
		s := "|" + unparse(g(m, "pat")) + "|" + unparse(g(m, "upd"))
		if d := g(m, "del"); gs(d, "k") != "None" {
			s += ", " + unparse(d)
		}
		return s + "|"
	case "Lambda", "TypedLambda":
		ps := gl(m, "params")
		ss := make([]string, len(ps))
		for i, p := range ps {
			ss[i] = "$" + p.(string)
		}
		sig := ""
		if gs(m, "k") == "TypedLambda" {
			sig = "<" + sigText(gl(m, "sig")) + ">"
		}
		kw := "function"
		if gb(m, "short") {
			kw = "λ"
		}
		return kw + "(" + strings.Join(ss, ", ") + ")" + sig + "{" + unparse(g(m, "body")) + "}"
	case "Partial", "Call":
		return unparse(g(m, "fn")) + "(" + joinAst(gl(m, "args"), ", ") + ")"
	case "Placeholder":
		return "?"
	case "Predicate":
		s := unparse(g(m, "e"))
		for _, f := range gl(m, "filters") {
			s += "[" + unparse(f.(map[string]interface{})) + "]"
		}
		return s
	case "Cond":
		s := unparse(g(m, "c")) + " ? " + unparse(g(m, "th"))
		if e := g(m, "el"); gs(e, "k") != "None" {
			s += " : " + unparse(e)
		}
		return s
	case "Assign":
		return "$" + gs(m, "nm") + " := " + unparse(g(m, "e"))
	case "NumOp", "CmpOp", "BoolOp":
		return unparse(g(m, "l")) + " " + gs(m, "op") + " " + unparse(g(m, "r"))
	case "Concat":
		return unparse(g(m, "l")) + " & " + unparse(g(m, "r"))
	case "Sort":
		ts := gl(m, "terms")
		ss := make([]string, len(ts))
		for i, t := range ts {
			tm := t.(map[string]interface{})
			ss[i] = gs(tm, "dir") + unparse(g(tm, "e"))
		}
		return unparse(g(m, "e")) + "^(" + strings.Join(ss, ", ") + ")"
	case "Apply":
		return unparse(g(m, "l")) + " ~> " + unparse(g(m, "r"))
	}
	panic("unparse: unknown node " + gs(m, "k"))
}
