package main

// The isolation worker: executes one case at a time against the real code
// and reports what happened as one trace event (DESIGN.md 5.5, A.3).

import (
	"bufio"
	"bytes"
	"encoding/json"
	"errors"
	"fmt"
	"os"
	"reflect"
	"regexp"
	"runtime"
	"strings"

	jsonata "github.com/blues/jsonata-go"
	"github.com/blues/jsonata-go/jparse"
)

type panicInfo struct {
	site string
	msg  string
}

var reDigits = regexp.MustCompile(`[0-9]+`)
var reHex = regexp.MustCompile(`0x[0-9a-f]+`)

func capturePanic(r interface{}) *panicInfo {
	pcs := make([]uintptr, 64)
	n := runtime.Callers(3, pcs)
	frames := runtime.CallersFrames(pcs[:n])
	site := "?"
	for {
		f, more := frames.Next()
		if strings.Contains(f.Function, "github.com/blues/jsonata-go") {
			site = strings.TrimPrefix(f.Function, "github.com/blues/jsonata-go")
			site = strings.TrimPrefix(site, "/")
			break
		}
		if !more {
			break
		}
	}
	msg := fmt.Sprint(r)
	msg = reHex.ReplaceAllString(msg, "H")
	msg = reDigits.ReplaceAllString(msg, "N")
	if len(msg) > 120 {
		msg = msg[:120]
	}
	return &panicInfo{site: site, msg: msg}
}

func classifyErr(err error) M {
	var ee *jsonata.EvalError
	var ac *jsonata.ArgCountError
	var at *jsonata.ArgTypeError
	var pe *jparse.Error
	switch {
	case errors.Is(err, jsonata.ErrUndefined):
		return M{"o": "undef"}
	case errors.As(err, &ee):
		return M{"o": "err", "k": errTypeName(ee.Type)}
	case errors.As(err, &ac):
		return M{"o": "err", "k": "ArgCount", "fname": ac.Func, "i": ac.Received}
	case errors.As(err, &at):
		return M{"o": "err", "k": "ArgType", "fname": at.Func, "i": at.Which}
	case errors.As(err, &pe):
		return M{"o": "err", "k": "Parse", "i": pe.Position}
	}
	return M{"o": "err", "k": "Lib"}
}

var errTypeNames = map[jsonata.ErrType]string{
	jsonata.ErrNonIntegerLHS: "NonIntegerLHS", jsonata.ErrNonIntegerRHS: "NonIntegerRHS",
	jsonata.ErrNonNumberLHS: "NonNumberLHS", jsonata.ErrNonNumberRHS: "NonNumberRHS",
	jsonata.ErrNonComparableLHS: "NonComparableLHS", jsonata.ErrNonComparableRHS: "NonComparableRHS",
	jsonata.ErrTypeMismatch: "TypeMismatch", jsonata.ErrNonCallable: "NonCallable",
	jsonata.ErrNonCallableApply: "NonCallableApply", jsonata.ErrNonCallablePartial: "NonCallablePartial",
	jsonata.ErrNumberInf: "NumberInf", jsonata.ErrNumberNaN: "NumberNaN", jsonata.ErrMaxRangeItems: "MaxRangeItems",
	jsonata.ErrIllegalKey: "IllegalKey", jsonata.ErrDuplicateKey: "DuplicateKey", jsonata.ErrClone: "Clone",
	jsonata.ErrIllegalUpdate: "IllegalUpdate", jsonata.ErrIllegalDelete: "IllegalDelete",
	jsonata.ErrNonSortable: "NonSortable", jsonata.ErrSortMismatch: "SortMismatch",
}

func errTypeName(t jsonata.ErrType) string {
	if s, ok := errTypeNames[t]; ok {
		return s
	}
	return fmt.Sprintf("ErrType%d", t)
}

// outcomeOf projects what Eval returned.
func outcomeOf(res interface{}, err error) M {
	if err != nil {
		if res != nil {
			return M{"o": "bad", "why": "non-nil result with non-nil error"}
		}
		return classifyErr(err)
	}
	v, perr := project(res)
	if perr != nil {
		return M{"o": "unproj", "gotype": perr.Error()}
	}
	return M{"o": "val", "r": v}
}

func safeCompile(src string) (e *jsonata.Expr, err error, p *panicInfo) {
	defer func() {
		if r := recover(); r != nil {
			p = capturePanic(r)
		}
	}()
	e, err = jsonata.Compile(src)
	return
}

func safeEvalRaw(e *jsonata.Expr, input interface{}) (out M, res interface{}) {
	defer func() {
		if r := recover(); r != nil {
			p := capturePanic(r)
			out = M{"o": "panic", "site": p.site, "msg": p.msg}
		}
	}()
	res, err := e.Eval(input)
	return outcomeOf(res, err), res
}

func safeEval(e *jsonata.Expr, input interface{}) M {
	out, _ := safeEvalRaw(e, input)
	return out
}

func safeString(e *jsonata.Expr) (s string, ok bool) {
	defer func() {
		if r := recover(); r != nil {
			ok = false
		}
	}()
	return e.String(), true
}

// replaceFn maps function markers to empty strings: what marshalling turns them into (C10).
func replaceFn(m interface{}) interface{} {
	mm, ok := m.(map[string]interface{})
	if !ok {
		return m
	}
	switch mm["t"] {
	case "fn":
		return M{"t": "str", "s": []interface{}{}}
	case "arr":
		a, _ := mm["v"].([]interface{})
		out := make([]interface{}, len(a))
		for i := range a {
			out[i] = replaceFn(a[i])
		}
		return M{"t": "arr", "v": out}
	case "obj":
		ps, _ := mm["m"].([]interface{})
		out := make([]interface{}, len(ps))
		for i, p := range ps {
			pp := p.([]interface{})
			out[i] = []interface{}{pp[0], replaceFn(pp[1])}
		}
		return M{"t": "obj", "m": out, "id": 0}
	}
	return m
}

func canon(v interface{}) string {
	b, _ := json.Marshal(v)
	return string(b)
}

// marshalView is the value as json.Marshal sees it: function values stand for empty strings and
// nil slices/maps for null (C10: "the JSON encoding of that same value").
func marshalView(v interface{}) (M, error) {
	b, err := json.Marshal(v)
	if err != nil {
		return nil, err
	}
	var back interface{}
	if err := json.Unmarshal(b, &back); err != nil {
		return nil, err
	}
	return project(back)
}

// nilsAsEmpty maps the projection of a result to what marshalling may turn it into when
// the Go value holds nil slices: an empty array may appear as null.
func sameUpToNilSlices(a, b interface{}) bool {
	am, aok := a.(map[string]interface{})
	bm, bok := b.(map[string]interface{})
	if !aok || !bok {
		return canon(a) == canon(b)
	}
	if am["t"] == "arr" && bm["t"] == "null" {
		v, _ := am["v"].([]interface{})
		return len(v) == 0
	}
	if am["t"] != bm["t"] {
		return false
	}
	switch am["t"] {
	case "arr":
		av, _ := am["v"].([]interface{})
		bv, _ := bm["v"].([]interface{})
		if len(av) != len(bv) {
			return false
		}
		for i := range av {
			if !sameUpToNilSlices(av[i], bv[i]) {
				return false
			}
		}
		return true
	case "obj":
		ap, _ := am["m"].([]interface{})
		bp, _ := bm["m"].([]interface{})
		if len(ap) != len(bp) {
			return false
		}
		for i := range ap {
			x, y := ap[i].([]interface{}), bp[i].([]interface{})
			if canon(x[0]) != canon(y[0]) || !sameUpToNilSlices(x[1], y[1]) {
				return false
			}
		}
		return true
	}
	return canon(a) == canon(b)
}

// marshalCheck: the result must marshal, and re-reading the text must give the same value (C10).
func marshalCheck(res interface{}, proj M) string {
	pb, err := marshalView(res)
	if err != nil {
		return "fail"
	}
	if strings.Contains(canon(proj), `"strx"`) {
		// a string that is not UTF-8 is outside the model (it marshals with U+FFFD in place of the bad bytes)
		return "ok"
	}
	if !sameUpToNilSlices(replaceFn(proj), pb) {
		return "diff"
	}
	return "ok"
}

// evalBytesCheck: EvalBytes must succeed exactly when Eval does and return the encoding of the same value.
func evalBytesCheck(e *jsonata.Expr, input interface{}, out M, rawRes interface{}) (res string) {
	defer func() {
		if r := recover(); r != nil {
			res = "panic"
		}
	}()
	in, err := json.Marshal(input)
	if err != nil {
		return "skip"
	}
	b, err := e.EvalBytes(in)
	if err != nil {
		o := classifyErr(err)
		if out["o"] == "val" {
			return "failed-where-eval-succeeded"
		}
		if o["o"] != out["o"] || (o["o"] == "err" && o["k"] != out["k"]) {
			return "different-error"
		}
		return "ok"
	}
	if out["o"] != "val" {
		return "succeeded-where-eval-failed"
	}
	var back interface{}
	if err := json.Unmarshal(b, &back); err != nil {
		return "invalid-json"
	}
	pb, perr := project(back)
	if perr != nil {
		return "invalid-json"
	}
	want, err := marshalView(rawRes)
	if err != nil {
		return "failed-to-marshal-eval-result"
	}
	if r, ok := out["r"].(M); ok && strings.Contains(canon(r), `"strx"`) {
		return "ok"
	}
	if canon(pb) != canon(want) {
		return "different-value"
	}
	return "ok"
}

type request struct {
	ID    int                    `json:"id"`
	Fam   string                 `json:"fam"`
	Src   string                 `json:"src"`
	Ast   map[string]interface{} `json:"ast"`
	Inp   map[string]interface{} `json:"inp"`
	Binds []interface{}          `json:"binds"`
	Flags map[string]interface{} `json:"flags"`
	Bytes []interface{}          `json:"bytes"`
	Mode  string                 `json:"mode"`
}

func runCase(rq *request) M {
	if rq.Mode == "date" {
		return runDateCase(rq)
	}
	if rq.Mode == "num" {
		return runNumCase(rq)
	}
	if rq.Mode == "evalbytes" {
		return runBytesCase(rq)
	}
	if rq.Mode == "compile" || rq.Mode == "denote" {
		return runCompileCase(rq)
	}
	ev := M{"id": rq.ID, "ev": "Eval", "fam": rq.Fam}
	src := rq.Src
	if src == "" && rq.Ast != nil {
		src = unparse(rq.Ast)
	}
	if _, ok := rq.Flags["rxp"]; ok {
		// a regular-expression literal written out from its pattern text and flags (MC_C17R); whether the
		// engine accepts the pattern is recorded as part of the environment
		pat := strings.ReplaceAll(cpsToString(rq.Flags["rxp"]), "/", `\/`)
		fl := cpsToString(rq.Flags["rxf"])
		lit := "/" + pat + "/" + fl
		full := pat
		if fl != "" {
			full = "(?" + fl + ")" + pat
		}
		_, rerr := regexp.Compile(full)
		ev["rx_invalid"] = pat == "" || rerr != nil
		ev["flags"] = rq.Flags
		switch rq.Flags["rxuse"] {
		case "match":
			src = "$match($, " + lit + ")"
		case "contains":
			src = "$contains($, " + lit + ")"
		case "split":
			src = "$split($, " + lit + ")"
		case "replace":
			src = "$replace($, " + lit + `, "<$0>")`
		case "call":
			src = "(" + lit + ")($).match"
		case "assign":
			src = "($r := " + lit + "; $r($).start)"
		case "map":
			src = "$map([$, \"b\"], " + lit + ").end"
		case "arg":
			src = "$count([" + lit + "])"
		default:
			src = "$type(" + lit + ")"
		}
	}
	ev["src"] = cps(src)
	ev["inp"] = rq.Inp
	if len(rq.Binds) > 0 {
		ev["binds"] = rq.Binds
	} else {
		ev["binds"] = []interface{}{}
	}

	e, cerr, cp := safeCompile(src)
	if cp != nil {
		ev["ev"] = "Compile"
		ev["out"] = M{"o": "panic", "site": cp.site, "msg": cp.msg}
		return ev
	}
	if cerr != nil {
		ev["ev"] = "Compile"
		ev["out"] = classifyErr(cerr)
		var pe *jparse.Error
		if errors.As(cerr, &pe) {
			ev["out"].(M)["ptype"] = int(pe.Type)
		}
		return ev
	}
	ast0 := astOf(verifNode(e))
	ev["ast"] = ast0
	if rq.Ast != nil {
		// the text was printed from a tree TLC enumerated; when the real parser builds another
		// tree the outcome is judged against the enumerated one
		ev["parse_same"] = canon(ast0) == canon(rq.Ast)
		if canon(ast0) != canon(rq.Ast) {
			ev["want_ast"] = rq.Ast
		}
	}
	str0, _ := safeString(e)

	vars := map[string]interface{}{}
	exts := map[string]jsonata.Extension{}
	for _, b := range rq.Binds {
		bp := b.([]interface{})
		if bm, ok := bp[1].(map[string]interface{}); ok && bm["t"] == "fn" {
			// an extension function described by the specification (C20)
			ext, err := makeExtension(bm)
			if err != nil {
				ev["out"] = M{"o": "bad", "why": err.Error()}
				return ev
			}
			exts[bp[0].(string)] = ext
			continue
		}
		vars[bp[0].(string)] = unproject(bp[1])
	}
	if len(exts) > 0 {
		if err := e.RegisterExts(exts); err != nil {
			ev["out"] = M{"o": "bad", "why": "RegisterExts: " + err.Error()}
			return ev
		}
	}
	if len(vars) > 0 {
		if err := e.RegisterVars(vars); err != nil {
			ev["out"] = M{"o": "bad", "why": "RegisterVars: " + err.Error()}
			return ev
		}
	}

	var input interface{}
	if gb(rq.Flags, "share") {
		input = unprojectShared(rq.Inp, map[string]interface{}{})
	} else {
		input = unproject(rq.Inp)
	}
	if gb(rq.Flags, "bindinput") {
		// variables bound to nodes of the caller's document itself (C07)
		vars["v"] = input
		binds := []interface{}{[]interface{}{"v", rq.Inp}}
		if m, ok := input.(map[string]interface{}); ok {
			if a, ok := m["a"]; ok {
				vars["w"] = a
				pa, _ := project(a)
				binds = append(binds, []interface{}{"w", pa})
			}
		}
		rq.Binds = append(rq.Binds, binds...)
		ev["binds"] = rq.Binds
		if err := e.RegisterVars(map[string]interface{}{"v": vars["v"]}); err != nil {
			ev["out"] = M{"o": "bad", "why": "RegisterVars: " + err.Error()}
			return ev
		}
		if w, ok := vars["w"]; ok {
			e.RegisterVars(map[string]interface{}{"w": w})
		}
	}
	if eng := engineObservations(ast0, input, vars); eng != nil {
		ev["eng"] = eng
	}
	out, rawRes := safeEvalRaw(e, input)
	ev["out"] = out

	// frame conditions (C05, C07): the caller's document, the registered variables and the
	// compiled expression after the call
	// (the after-images are recorded in full only when their encoding differs from the before-image)
	after, perr := project(input)
	if perr != nil {
		ev["inp_after"] = M{"t": "bad", "gotype": perr.Error()}
		ev["inp_same"] = false
	} else if canon(after) != canon(rq.Inp) {
		ev["inp_after"] = after
		ev["inp_same"] = false
	} else {
		ev["inp_same"] = true
	}
	ba := make([]interface{}, 0, len(rq.Binds))
	for _, b := range rq.Binds {
		bp := b.([]interface{})
		if bm, ok := bp[1].(map[string]interface{}); ok && bm["t"] == "fn" {
			ba = append(ba, b)
			continue
		}
		pv, perr := project(vars[bp[0].(string)])
		if perr != nil {
			pv = M{"t": "bad", "gotype": perr.Error()}
		}
		ba = append(ba, []interface{}{bp[0], pv})
	}
	if canon(ba) != canon(ev["binds"]) {
		ev["binds_after"] = ba
		ev["binds_same"] = false
	} else {
		ev["binds_same"] = true
	}
	ast1 := astOf(verifNode(e))
	if canon(ast1) != canon(ast0) {
		ev["ast_after"] = ast1
		ev["ast_same"] = false
	} else {
		ev["ast_same"] = true
	}
	str1, sok := safeString(e)
	ev["str_same"] = sok && str0 == str1

	if out["o"] == "panic" {
		return ev
	}

	// C10 ride-along
	if out["o"] == "val" {
		ev["mar"] = marshalCheck(rawRes, out["r"].(M))
	}
	ev["eb"] = evalBytesCheck(e, input, out, rawRes)

	// C05 ride-along: a second evaluation of the same expression on the same input
	out2 := safeEval(e, input)
	ev["same2"] = canon(out2) == canon(out)
	if canon(out2) != canon(out) {
		ev["out2"] = out2
	}
	// ... and a third one after the same expression has evaluated another document in between:
	// the outcome for an input must not depend on which inputs were evaluated before (C05)
	outWarm := safeEval(e, warmDoc())
	out3 := safeEval(e, input)
	if canon(out3) == canon(out) {
		// ... and on a second compilation of the same text whose first evaluation saw another document
		if e2, err2, p2 := safeCompile(src); err2 == nil && p2 == nil {
			if len(vars) > 0 {
				e2.RegisterVars(vars)
			}
			if len(exts) > 0 {
				e2.RegisterExts(exts)
			}
			safeEval(e2, warmDoc())
			out3 = safeEval(e2, input)
		}
	}
	if canon(out3) == canon(out) && out["o"] != "panic" {
		// ... and what this (used) expression yields for the other document is what a fresh compilation yields for it
		if e3, err3, p3 := safeCompile(src); err3 == nil && p3 == nil {
			if len(vars) > 0 {
				e3.RegisterVars(vars)
			}
			if len(exts) > 0 {
				e3.RegisterExts(exts)
			}
			if fresh := safeEval(e3, warmDoc()); canon(fresh) != canon(outWarm) {
				out3 = M{"o": "differs-on-other-document", "used": outWarm, "fresh": fresh}
			}
		}
	}
	ev["same3"] = canon(out3) == canon(out)
	if canon(out3) != canon(out) {
		ev["out3"] = out3
	}
	return ev
}

func warmDoc() interface{} {
	return map[string]interface{}{"a": []interface{}{map[string]interface{}{"b": float64(7), "k": float64(3), "s": "w"}, float64(9)},
		"b": "wzw", "c": map[string]interface{}{"a": "warm"}, "k": float64(4), "id": float64(99), "flag": true, "v": float64(42), "value": float64(7)}
}

// unprojectShared builds the document so that structurally equal sub-values are the same Go
// object (shared sub-structures, C07).
func unprojectShared(m interface{}, memo map[string]interface{}) interface{} {
	mm, _ := m.(map[string]interface{})
	switch mm["t"] {
	case "arr", "obj":
		key := canon(mm)
		if v, ok := memo[key]; ok {
			return v
		}
		var v interface{}
		if mm["t"] == "arr" {
			a, _ := mm["v"].([]interface{})
			out := make([]interface{}, len(a))
			for i := range a {
				out[i] = unprojectShared(a[i], memo)
			}
			v = out
		} else {
			ps, _ := mm["m"].([]interface{})
			out := make(map[string]interface{}, len(ps))
			for _, p := range ps {
				pp := p.([]interface{})
				out[cpsToString(pp[0])] = unprojectShared(pp[1], memo)
			}
			v = out
		}
		memo[key] = v
		return v
	}
	return unproject(m)
}

var _ = reflect.TypeOf
var _ = bytes.NewReader

func workerMain() {
	in := bufio.NewReaderSize(os.Stdin, 1<<20)
	w := bufio.NewWriterSize(os.Stdout, 1<<20)
	dec := json.NewDecoder(in)
	for {
		var rq request
		if err := dec.Decode(&rq); err != nil {
			break
		}
		ev := runCase(&rq)
		b, err := json.Marshal(ev)
		if err != nil {
			b, _ = json.Marshal(M{"id": rq.ID, "ev": "Eval", "out": M{"o": "bad", "why": "encode: " + err.Error()}})
		}
		w.Write(b)
		w.WriteByte('\n')
		w.Flush()
	}
}
