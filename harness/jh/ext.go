package main

// Extension functions for C20: Go functions built by reflection from a signature description
// that record ("echo") what they received, so that argument conversion is observable.

import (
	"errors"
	"fmt"
	"reflect"

	jsonata "github.com/blues/jsonata-go"
	"github.com/blues/jsonata-go/jtypes"
)

var paramTypes = map[string]reflect.Type{
	"float64":         reflect.TypeOf(float64(0)),
	"int":             reflect.TypeOf(int(0)),
	"uint8":           reflect.TypeOf(uint8(0)),
	"string":          reflect.TypeOf(""),
	"bool":            reflect.TypeOf(false),
	"bytes":           reflect.TypeOf([]byte(nil)),
	"interface":       reflect.TypeOf((*interface{})(nil)).Elem(),
	"value":           reflect.TypeOf(reflect.Value{}),
	"slice":           reflect.TypeOf([]interface{}(nil)),
	"map":             reflect.TypeOf(map[string]interface{}(nil)),
	"callable":        reflect.TypeOf((*jtypes.Callable)(nil)).Elem(),
	"OptionalFloat64": reflect.TypeOf(jtypes.OptionalFloat64{}),
	"OptionalInt":     reflect.TypeOf(jtypes.OptionalInt{}),
	"OptionalString":  reflect.TypeOf(jtypes.OptionalString{}),
	"OptionalBool":    reflect.TypeOf(jtypes.OptionalBool{}),
	"OptionalValue":   reflect.TypeOf(jtypes.OptionalValue{}),
}

func echoValue(v reflect.Value) interface{} {
	if !v.IsValid() {
		return "invalid"
	}
	if v.CanInterface() {
		if _, ok := v.Interface().(jtypes.Callable); ok {
			return "fn"
		}
	}
	switch v.Type() {
	case paramTypes["value"]:
		inner := v.Interface().(reflect.Value)
		if !inner.IsValid() {
			return "invalid"
		}
		if jtypes.IsCallable(inner) {
			return "fn"
		}
		if !inner.CanInterface() {
			return "opaque"
		}
		return echoValue(reflect.ValueOf(inner.Interface()))
	case paramTypes["bytes"]:
		return "bytes:" + string(v.Bytes())
	}
	if v.Kind() == reflect.Struct && reflect.PtrTo(v.Type()).Implements(jtypes.TypeOptional) {
		p := reflect.New(v.Type())
		p.Elem().Set(v)
		opt := p.Interface().(jtypes.Optional)
		if !opt.IsSet() {
			return []interface{}{false}
		}
		return []interface{}{true, echoValue(v.Field(1))}
	}
	switch v.Kind() {
	case reflect.Float64:
		return v.Float()
	case reflect.Int:
		return float64(v.Int())
	case reflect.Uint8:
		return float64(v.Uint())
	case reflect.Interface:
		if v.IsNil() {
			return "nil"
		}
		return echoValue(v.Elem())
	case reflect.Ptr:
		if v.IsNil() {
			return nil
		}
	}
	if v.CanInterface() {
		return v.Interface()
	}
	return "opaque"
}

// makeExtension builds the extension described by a specification value
// {"t":"fn","k":"ext","ps":[...],"variadic":bool,"uh":..,"ch":..,"res":..}.
func makeExtension(spec map[string]interface{}) (jsonata.Extension, error) {
	ps, _ := spec["ps"].([]interface{})
	variadic, _ := spec["variadic"].(bool)
	in := make([]reflect.Type, len(ps))
	for i, p := range ps {
		t, ok := paramTypes[p.(string)]
		if !ok {
			return jsonata.Extension{}, fmt.Errorf("unknown parameter type %v", p)
		}
		in[i] = t
	}
	if variadic && len(in) > 0 {
		in[len(in)-1] = reflect.SliceOf(in[len(in)-1])
	}
	res, _ := spec["res"].(string)
	typeIface := paramTypes["interface"]
	typeErr := reflect.TypeOf((*error)(nil)).Elem()
	out := []reflect.Type{typeIface}
	if res != "echo" && res != "const" {
		out = append(out, typeErr)
	}
	ft := reflect.FuncOf(in, out, variadic && len(in) > 0)
	fn := reflect.MakeFunc(ft, func(args []reflect.Value) []reflect.Value {
		echo := make([]interface{}, 0, len(args))
		for i, a := range args {
			if variadic && i == len(args)-1 {
				tail := make([]interface{}, a.Len())
				for j := 0; j < a.Len(); j++ {
					tail[j] = echoValue(a.Index(j))
				}
				echo = append(echo, tail)
			} else {
				echo = append(echo, echoValue(a))
			}
		}
		r := reflect.New(typeIface).Elem()
		if res == "const" {
			if c := unproject(spec["ret"]); c != nil {
				r.Set(reflect.ValueOf(c))
			}
			return []reflect.Value{r}
		}
		r.Set(reflect.ValueOf(echo))
		if res == "echo" {
			return []reflect.Value{r}
		}
		e := reflect.New(typeErr).Elem()
		switch res {
		case "err":
			e.Set(reflect.ValueOf(errors.New("boom")))
		case "undef":
			e.Set(reflect.ValueOf(jtypes.ErrUndefined))
		}
		return []reflect.Value{r, e}
	})
	ext := jsonata.Extension{Func: fn.Interface()}
	switch spec["uh"] {
	case "undef0":
		ext.UndefinedHandler = jtypes.ArgUndefined(0)
	}
	switch spec["ch"] {
	case "count0":
		ext.EvalContextHandler = jtypes.ArgCountEquals(0)
	case "count1":
		ext.EvalContextHandler = jtypes.ArgCountEquals(1)
	}
	return ext, nil
}
