package main

// Encoding of values between Go (what the real code consumes and returns)
// and the specification's value domain (DESIGN.md A.1).  No semantics here:
// only representation changes, each of them round-trip tested (selftest.go).

import (
	"encoding/json"
	"fmt"
	"math"
	"math/big"
	"reflect"
	"sort"
	"sync/atomic"
	"unicode/utf8"

	"github.com/blues/jsonata-go/jtypes"
)

type M = map[string]interface{}

const numLim = 1000000000

func cps(s string) []interface{} {
	out := make([]interface{}, 0, len(s))
	for _, r := range s {
		out = append(out, int(r))
	}
	return out
}

func cpsToString(v interface{}) string {
	a, _ := v.([]interface{})
	rs := make([]rune, 0, len(a))
	for _, x := range a {
		rs = append(rs, rune(toInt(x)))
	}
	return string(rs)
}

func toInt(x interface{}) int {
	switch v := x.(type) {
	case float64:
		return int(v)
	case int:
		return v
	case json.Number:
		i, _ := v.Int64()
		return int(i)
	}
	return 0
}

// projNum maps a finite float64 onto the unique small rational whose nearest
// double it is (exactly that rational when the double is a small dyadic).
func projNum(x float64) M {
	if math.IsNaN(x) || math.IsInf(x, 0) {
		return M{"t": "bad", "gotype": fmt.Sprintf("float64(%v)", x)}
	}
	if x == 0 {
		if math.Signbit(x) {
			return M{"t": "num", "n": 0, "d": 2} // a zero whose sign the model does not track (JV!ZeroU)
		}
		return M{"t": "num", "n": 0, "d": 1}
	}
	r := new(big.Rat).SetFloat64(x)
	lim := big.NewInt(numLim)
	if r.Denom().Cmp(lim) <= 0 && new(big.Int).Abs(r.Num()).Cmp(lim) <= 0 {
		return M{"t": "num", "n": int(r.Num().Int64()), "d": int(r.Denom().Int64())}
	}
	// continued-fraction convergents of |x|
	neg := x < 0
	ax := new(big.Rat).Abs(r)
	p0, q0 := big.NewInt(0), big.NewInt(1)
	p1, q1 := big.NewInt(1), big.NewInt(0)
	rem := new(big.Rat).Set(ax)
	for i := 0; i < 64; i++ {
		a := new(big.Int).Quo(rem.Num(), rem.Denom())
		p2 := new(big.Int).Add(new(big.Int).Mul(a, p1), p0)
		q2 := new(big.Int).Add(new(big.Int).Mul(a, q1), q0)
		if q2.Cmp(big.NewInt(1000000)) > 0 || p2.Cmp(lim) > 0 {
			break
		}
		cand := new(big.Rat).SetFrac(p2, q2)
		f, _ := cand.Float64()
		if f == math.Abs(x) {
			n := int(p2.Int64())
			if neg {
				n = -n
			}
			return M{"t": "num", "n": n, "d": int(q2.Int64())}
		}
		p0, q0, p1, q1 = p1, q1, p2, q2
		frac := new(big.Rat).Sub(rem, new(big.Rat).SetInt(a))
		if frac.Sign() == 0 {
			break
		}
		rem = new(big.Rat).Inv(frac)
	}
	return M{"t": "numx"}
}

type projErr struct{ gotype string }

func (e *projErr) Error() string { return "unprojectable " + e.gotype }

var typeCallable = reflect.TypeOf((*jtypes.Callable)(nil)).Elem()

// project maps a value returned by Eval (or held by the caller) to the spec domain.
// Anything that is not JSON-representable is an error (C10).
// projDepth guards the projection against values that contain themselves (a result that is not a
// finite JSON value is reported as such instead of never finishing)
var projDepth int32

func project(v interface{}) (M, error) {
	atomic.AddInt32(&projDepth, 1)
	defer atomic.AddInt32(&projDepth, -1)
	if atomic.LoadInt32(&projDepth) > 400 {
		return nil, &projErr{"cyclic or deeper than 400 levels"}
	}
	if v == nil {
		return M{"t": "null"}, nil
	}
	if _, ok := v.(jtypes.Callable); ok {
		return M{"t": "fn"}, nil
	}
	switch x := v.(type) {
	case bool:
		return M{"t": "bool", "b": x}, nil
	case string:
		if !utf8.ValidString(x) {
			// a Go string that is not UTF-8 (e.g. $base64decode of arbitrary bytes): a string the model
			// does not represent; the specification abstains on it
			return M{"t": "strx"}, nil
		}
		return M{"t": "str", "s": cps(x)}, nil
	case float64:
		m := projNum(x)
		if m["t"] == "bad" {
			return nil, &projErr{m["gotype"].(string)}
		}
		return m, nil
	case map[string]interface{}:
		return projMap(reflect.ValueOf(x))
	case []interface{}:
		return projSlice(reflect.ValueOf(x))
	}
	rv := reflect.ValueOf(v)
	if rv.Kind() == reflect.Struct && reflect.PtrTo(rv.Type()).Implements(typeCallable) {
		// a function value held by value rather than by pointer (jtypes.IsCallable accepts both)
		return M{"t": "fn"}, nil
	}
	switch rv.Kind() {
	case reflect.Bool:
		return M{"t": "bool", "b": rv.Bool()}, nil
	case reflect.Int, reflect.Int8, reflect.Int16, reflect.Int32, reflect.Int64:
		return project(float64(rv.Int()))
	case reflect.Uint, reflect.Uint8, reflect.Uint16, reflect.Uint32, reflect.Uint64:
		return project(float64(rv.Uint()))
	case reflect.Float32, reflect.Float64:
		return project(rv.Float())
	case reflect.String:
		return project(rv.String())
	case reflect.Slice, reflect.Array:
		if rv.Type().Elem().Kind() == reflect.Uint8 && rv.Kind() == reflect.Slice {
			return project(string(rv.Bytes()))
		}
		return projSlice(rv)
	case reflect.Map:
		if rv.Type().Key().Kind() != reflect.String {
			return nil, &projErr{rv.Type().String()}
		}
		return projMap(rv)
	case reflect.Interface, reflect.Ptr:
		if rv.IsNil() {
			return M{"t": "null"}, nil
		}
		if rv.Kind() == reflect.Interface {
			return project(rv.Elem().Interface())
		}
	}
	return nil, &projErr{fmt.Sprintf("%T", v)}
}

func projSlice(rv reflect.Value) (M, error) {
	out := make([]interface{}, 0, rv.Len())
	for i := 0; i < rv.Len(); i++ {
		e := rv.Index(i)
		if !e.CanInterface() {
			return nil, &projErr{"unexported"}
		}
		m, err := project(e.Interface())
		if err != nil {
			return nil, err
		}
		out = append(out, m)
	}
	return M{"t": "arr", "v": out}, nil
}

func lessCps(a, b string) bool {
	ra, rb := []rune(a), []rune(b)
	for i := 0; i < len(ra) && i < len(rb); i++ {
		if ra[i] != rb[i] {
			return ra[i] < rb[i]
		}
	}
	return len(ra) < len(rb)
}

func projMap(rv reflect.Value) (M, error) {
	keys := make([]string, 0, rv.Len())
	for _, k := range rv.MapKeys() {
		keys = append(keys, k.String())
	}
	sort.Slice(keys, func(i, j int) bool { return lessCps(keys[i], keys[j]) })
	out := make([]interface{}, 0, len(keys))
	for _, k := range keys {
		if !utf8.ValidString(k) {
			return nil, &projErr{"key(invalid utf-8)"}
		}
		e := rv.MapIndex(reflect.ValueOf(k).Convert(rv.Type().Key()))
		m, err := project(e.Interface())
		if err != nil {
			return nil, err
		}
		out = append(out, []interface{}{cps(k), m})
	}
	return M{"t": "obj", "m": out, "id": 0}, nil
}

// unproject builds the Go document a caller would pass to Eval.
func unproject(m interface{}) interface{} {
	mm, _ := m.(map[string]interface{})
	switch mm["t"] {
	case "null":
		return nil
	case "bool":
		return mm["b"].(bool)
	case "num":
		if toInt(mm["n"]) == 0 {
			return float64(0)
		}
		return float64(toInt(mm["n"])) / float64(toInt(mm["d"]))
	case "str":
		return cpsToString(mm["s"])
	case "arr":
		a, _ := mm["v"].([]interface{})
		// spare capacity, as arrays decoded by encoding/json and arrays grown by append have: whatever writes
		// behind the end of a caller's array, or shifts its members in place, is then visible in the caller's value
		out := make([]interface{}, len(a), len(a)+3)
		for i := range a {
			out[i] = unproject(a[i])
		}
		return out
	case "obj":
		ps, _ := mm["m"].([]interface{})
		out := make(map[string]interface{}, len(ps))
		for _, p := range ps {
			pp := p.([]interface{})
			out[cpsToString(pp[0])] = unproject(pp[1])
		}
		return out
	}
	panic(fmt.Sprintf("unproject: bad value %v", m))
}

// fromJSONText decodes ordinary JSON text into a spec value (for generators/testdata).
func fromJSONText(text string) (M, error) {
	var v interface{}
	if err := json.Unmarshal([]byte(text), &v); err != nil {
		return nil, err
	}
	return project(v)
}

func mustJSON(v interface{}) string {
	b, err := json.Marshal(v)
	if err != nil {
		panic(err)
	}
	return string(b)
}
