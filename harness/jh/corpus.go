package main

// corpus: turns recorded (program, input) pairs - collected from the package's own tests through the
// Eval hook - into replayer cases (the input projected onto the specification's value domain).

import (
	"bufio"
	"encoding/json"
	"fmt"
	"os"
	"strings"
)

func corpusMain(args []string) {
	if len(args) != 2 {
		fmt.Fprintln(os.Stderr, "usage: jh corpus in.ndjson out.ndjson")
		os.Exit(2)
	}
	in, err := os.Open(args[0])
	if err != nil {
		fmt.Fprintln(os.Stderr, err)
		os.Exit(2)
	}
	defer in.Close()
	out, err := os.Create(args[1])
	if err != nil {
		fmt.Fprintln(os.Stderr, err)
		os.Exit(2)
	}
	defer out.Close()
	w := bufio.NewWriter(out)
	defer w.Flush()
	sc := bufio.NewScanner(in)
	sc.Buffer(make([]byte, 1<<20), 1<<26)
	n := 0
	for sc.Scan() {
		var rec struct {
			Src   string      `json:"src"`
			Input interface{} `json:"input"`
		}
		if json.Unmarshal(sc.Bytes(), &rec) != nil {
			continue
		}
		inp := M{"t": "obj", "m": []interface{}{}, "id": 0}
		if rec.Input != nil {
			p, err := project(rec.Input)
			if err != nil {
				continue
			}
			inp = p
		}
		if c := canon(inp); strings.Contains(c, `"numx"`) || strings.Contains(c, `"strx"`) {
			continue // an input the harness cannot rebuild exactly
		}
		b, _ := json.Marshal(M{"src": rec.Src, "inp": inp, "binds": []interface{}{}})
		w.Write(b)
		w.WriteByte('\n')
		n++
	}
	fmt.Fprintf(os.Stderr, "%d cases\n", n)
}
