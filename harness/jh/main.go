package main

import (
	"bufio"
	"encoding/json"
	"flag"
	"fmt"
	"io"
	"os"
	"os/exec"
	"runtime"
	"sync"
	"time"
)

func usage() {
	fmt.Fprintln(os.Stderr, "usage: jh worker | replay -in cases.ndjson -out trace.ndjson [-timeout 2s] [-j N] | one | gen ... | selftest")
	os.Exit(2)
}

func main() {
	if len(os.Args) < 2 {
		usage()
	}
	switch os.Args[1] {
	case "worker":
		workerMain()
	case "replay":
		replayMain(os.Args[2:])
	case "gen":
		genMain(os.Args[2:])
	case "conc":
		concMain(os.Args[2:])
	case "sched":
		schedMain(os.Args[2:])
	case "hist":
		histMain(os.Args[2:])
	case "selftest":
		selftestMain()
	case "corpus":
		corpusMain(os.Args[2:])
	default:
		usage()
	}
}

type wproc struct {
	cmd *exec.Cmd
	in  io.WriteCloser
	out *bufio.Reader
}

func startWorker() (*wproc, error) {
	cmd := exec.Command(os.Args[0], "worker")
	in, err := cmd.StdinPipe()
	if err != nil {
		return nil, err
	}
	out, err := cmd.StdoutPipe()
	if err != nil {
		return nil, err
	}
	cmd.Stderr = nil
	if err := cmd.Start(); err != nil {
		return nil, err
	}
	return &wproc{cmd: cmd, in: in, out: bufio.NewReaderSize(out, 1<<20)}, nil
}

func (w *wproc) kill() {
	w.in.Close()
	w.cmd.Process.Kill()
	w.cmd.Wait()
}

// ask sends one case and waits for the answer with a wall-clock limit.
func (w *wproc) ask(line []byte, limit time.Duration) ([]byte, string) {
	if _, err := w.in.Write(append(line, '\n')); err != nil {
		return nil, "crash"
	}
	type res struct {
		b   []byte
		err error
	}
	ch := make(chan res, 1)
	go func() {
		b, err := w.out.ReadBytes('\n')
		ch <- res{b, err}
	}()
	select {
	case r := <-ch:
		if r.err != nil {
			return nil, "crash"
		}
		return r.b, ""
	case <-time.After(limit):
		return nil, "timeout"
	}
}

func replayMain(args []string) {
	fs := flag.NewFlagSet("replay", flag.ExitOnError)
	inPath := fs.String("in", "", "cases (ndjson)")
	outPath := fs.String("out", "", "trace (ndjson)")
	limit := fs.Duration("timeout", 3*time.Second, "per-case wall-clock limit")
	nw := fs.Int("j", runtime.NumCPU(), "workers")
	fs.Parse(args)

	inF, err := os.Open(*inPath)
	if err != nil {
		fmt.Fprintln(os.Stderr, err)
		os.Exit(2)
	}
	defer inF.Close()
	outF, err := os.Create(*outPath)
	if err != nil {
		fmt.Fprintln(os.Stderr, err)
		os.Exit(2)
	}
	defer outF.Close()
	outW := bufio.NewWriterSize(outF, 1<<20)
	defer outW.Flush()

	lines := make(chan []byte, 1024)
	results := make(chan []byte, 1024)
	var wg sync.WaitGroup
	for i := 0; i < *nw; i++ {
		wg.Add(1)
		go func() {
			defer wg.Done()
			var w *wproc
			for line := range lines {
				if w == nil {
					var err error
					if w, err = startWorker(); err != nil {
						fmt.Fprintln(os.Stderr, "cannot start worker:", err)
						os.Exit(2)
					}
				}
				b, fail := w.ask(line, *limit)
				if fail != "" {
					w.kill()
					w = nil
					var rq struct {
						ID    int                    `json:"id"`
						Fam   string                 `json:"fam"`
						Src   string                 `json:"src"`
						Ast   map[string]interface{} `json:"ast"`
						Inp   map[string]interface{} `json:"inp"`
						Mode  string                 `json:"mode"`
						Bytes []interface{}          `json:"bytes"`
					}
					json.Unmarshal(line, &rq)
					if rq.Mode == "date" {
						var raw map[string]interface{}
						json.Unmarshal(line, &raw)
						ev := M{"id": rq.ID, "ev": "Date", "fam": rq.Fam, "fn": "from", "day": 0, "msod": 0, "out": M{"o": fail}}
						if fl, ok := raw["flags"].(map[string]interface{}); ok {
							for k, v := range fl {
								ev[k] = v
							}
						}
						b, _ = json.Marshal(ev)
						b = append(b, '\n')
						results <- b
						continue
					}
					if rq.Mode == "num" {
						// the whole sequence of calls did not come back within the limit
						b, _ = json.Marshal(M{"id": rq.ID, "ev": "Num", "fam": rq.Fam, "src": []interface{}{}, "out": M{"o": fail}, "steps": []interface{}{M{"fn": "lost", "out": M{"o": fail}}}})
						b = append(b, '\n')
						results <- b
						continue
					}
					if rq.Mode == "evalbytes" {
						b, _ = json.Marshal(M{"id": rq.ID, "ev": "EvalBytes", "fam": rq.Fam, "bytes": rq.Bytes, "src": []interface{}{}, "out": M{"o": fail}})
						b = append(b, '\n')
						results <- b
						continue
					}
					if rq.Mode == "compile" || rq.Mode == "denote" {
						ev := M{"id": rq.ID, "ev": map[string]string{"compile": "Lex", "denote": "Denote"}[rq.Mode], "fam": rq.Fam, "bytes": rq.Bytes, "toks": []interface{}{}, "out": M{"o": fail}}
						b, _ = json.Marshal(ev)
						b = append(b, '\n')
						results <- b
						continue
					}
					src := rq.Src
					if src == "" && rq.Ast != nil {
						src = unparse(rq.Ast)
					}
					ev := M{"id": rq.ID, "ev": "Eval", "fam": rq.Fam, "src": cps(src), "inp": rq.Inp, "out": M{"o": fail}, "binds": []interface{}{}}
					if rq.Ast != nil {
						ev["ast"] = rq.Ast
					} else {
						ev["ast"] = M{"k": "None"}
					}
					b, _ = json.Marshal(ev)
					b = append(b, '\n')
				}
				results <- b
			}
			if w != nil {
				w.kill()
			}
		}()
	}
	done := make(chan struct{})
	go func() {
		for b := range results {
			outW.Write(b)
		}
		close(done)
	}()
	sc := bufio.NewScanner(inF)
	sc.Buffer(make([]byte, 1<<20), 1<<26)
	n := 0
	for sc.Scan() {
		b := append([]byte(nil), sc.Bytes()...)
		if len(b) == 0 {
			continue
		}
		lines <- b
		n++
	}
	close(lines)
	wg.Wait()
	close(results)
	<-done
	fmt.Fprintf(os.Stderr, "replayed %d cases\n", n)
}
