package main

// API histories (DESIGN.md 5.4, A.3): seeded sequences of RegisterGlobal / Compile /
// RegisterExpr / Eval / SetDoc calls on the real code, recorded with arguments, outcome and
// cheap projected state, for validation against the system specification JApi (TraceApi).

import (
	"bufio"
	"encoding/json"
	"flag"
	"fmt"
	"math/rand"
	"os"

	jsonata "github.com/blues/jsonata-go"
	"github.com/blues/jsonata-go/jtypes"
)

// programs whose outcome is sensitive to state carried between calls if anything leaks
var historyPrograms = []string{
	`a ~> $sum()`, `4 ~> $power(2)`, `b ~> $substringBefore("z")`, `$pad(?, "2")(1)`, `$substringBefore(?, "z")(b)`,
	`a.$string()`, `c.$substringBefore("z")`, `c.$substringBefore($$.b)`, `$$.b & c[0]`, `$$`, `$$.a`, `$.a`,
	`$ ~> |$$|{"z":1}|`, `$ ~> |$|{"z":1}|`, `$ ~> |a|{"z":1}|`, `(flag ? $cfg := v : $cfg)`, `($cfg := a; $cfg)`, `$cfg`,
	`flag ? $cfg := v : $cfg`, `$cfg := a`, `$n := $count(a); $n`, `[$cfg, $cfg := b]`,
	`$uppercase()`, `$string()`, `$length()`, `$trim()`, `$number()`, `$keys()`, `$exists($)`, `[$string(), $$]`, `b.$uppercase()`, `$count(a) & "/" & $count($$.a)`,
	`a[0] ~> $string() ~> $length()`, `($f := $sum ~> $string; $f(a))`, `a ~> $map(function($v){$v + 1})`,
	`a^(>$)`, `c^($)`, `a{$string($): $}`, `$keys($)`, `[a, $$.a]`, `a ~> $reverse() ~> $join("-")`, `$join(c, ",")`,
}

type ptrErr struct{}

func (*ptrErr) Error() string { return "boom" }

type structErr struct{}

func (structErr) Error() string { return "boom" }

func histMain(args []string) {
	fs := flag.NewFlagSet("hist", flag.ExitOnError)
	seed := fs.Int64("seed", 1, "seed")
	n := fs.Int("n", 100, "histories")
	out := fs.String("out", "", "trace file")
	tag := fs.String("tag", "h", "name-space tag (the real package-level registry cannot be reset)")
	fs.Parse(args)
	f, err := os.Create(*out)
	if err != nil {
		fmt.Fprintln(os.Stderr, err)
		os.Exit(2)
	}
	defer f.Close()
	w := bufio.NewWriterSize(f, 1<<20)
	defer w.Flush()
	id := 0
	emit := func(ev M) {
		id++
		ev["id"] = id
		b, err := json.Marshal(ev)
		if err != nil {
			panic(err)
		}
		w.Write(b)
		w.WriteByte('\n')
	}
	r := rand.New(rand.NewSource(*seed))
	g := &gen{r: r, prof: "mix"}
	for h := 0; h < *n; h++ {
		emit(M{"ev": "Reset"})
		sfx := fmt.Sprintf("_%s%d_%d", *tag, *seed, h)
		names := []string{"x" + sfx, "y" + sfx}
		fname := "f" + sfx
		extSpec := func() (M, jsonata.Extension) {
			v := g.pick("one", "two", "three")
			pv, _ := project(v)
			spec := M{"t": "fn", "k": "ext", "ps": []interface{}{}, "variadic": false, "uh": "none", "ch": "none", "res": "const", "ret": pv}
			ext, _ := makeExtension(spec)
			if r.Intn(6) == 0 {
				// a value that is not a function of an accepted shape (one result, or a result and an error)
				shape := g.pick("noresult", "three", "second_int", "second_iface", "second_string", "nonfunc_int", "nonfunc_nil", "nonfunc_string", "ok2", "nonfunc_nilfunc", "ok2_ptrerr", "ok2_structerr", "ok2_ptrerr_err",
					"opt_before_variadic", "opt_before_required", "opt_variadic", "req_opt_before_variadic")
				spec["shape"] = shape
				switch shape {
				case "noresult":
					ext = jsonata.Extension{Func: func() {}}
				case "three":
					ext = jsonata.Extension{Func: func() (interface{}, interface{}, error) { return v, nil, nil }}
				case "second_int":
					ext = jsonata.Extension{Func: func() (interface{}, int) { return v, 0 }}
				case "second_iface":
					ext = jsonata.Extension{Func: func() (interface{}, interface{}) { return v, nil }}
				case "second_string":
					ext = jsonata.Extension{Func: func() (interface{}, string) { return v, "" }}
				case "nonfunc_int":
					ext = jsonata.Extension{Func: 5}
				case "nonfunc_nil":
					ext = jsonata.Extension{Func: nil}
				case "nonfunc_string":
					ext = jsonata.Extension{Func: "f"}
				case "ok2":
					ext = jsonata.Extension{Func: func() (interface{}, error) { return v, nil }}
				case "nonfunc_nilfunc": // a function value that is nil: nothing to call
					ext = jsonata.Extension{Func: (func() interface{})(nil)}
				case "ok2_ptrerr": // the second result implements error through a concrete pointer type
					spec["shape"] = "ok2"
					ext = jsonata.Extension{Func: func() (interface{}, *ptrErr) { return v, nil }}
				case "ok2_ptrerr_err": // ... and returns it
					spec["shape"], spec["res"] = "ok2", "err"
					ext = jsonata.Extension{Func: func() (interface{}, *ptrErr) { return v, &ptrErr{} }}
				// parameter lists that break the ordering rules for Optional parameters
				case "opt_before_variadic":
					ext = jsonata.Extension{Func: func(jtypes.OptionalString, ...interface{}) interface{} { return v }}
				case "req_opt_before_variadic":
					ext = jsonata.Extension{Func: func(string, jtypes.OptionalInt, ...string) interface{} { return v }}
				case "opt_before_required":
					ext = jsonata.Extension{Func: func(jtypes.OptionalString, string) interface{} { return v }}
				case "opt_variadic":
					ext = jsonata.Extension{Func: func(...jtypes.OptionalString) interface{} { return v }}
				case "ok2_structerr": // ... through a type that cannot be nil: every call returns an error
					spec["shape"], spec["res"] = "ok2", "err"
					ext = jsonata.Extension{Func: func() (interface{}, structErr) { return v, structErr{} }}
				}
			}
			return spec, ext
		}
		exprs := map[int]*jsonata.Expr{}
		asts := map[int]string{}
		strs := map[int]string{}
		docs := map[int]interface{}{}
		for d := 1; d <= 3; d++ {
			var doc interface{}
			switch r.Intn(4) {
			case 3:
				doc = g.pick2(nil, "Y", float64(3), nil)
			case 0:
				doc = map[string]interface{}{"a": []interface{}{float64(r.Intn(4)), float64(r.Intn(4) + 2)}, "b": g.pick("qzp", "zz", "abc", "xz"), "c": []interface{}{"azb", "zc"}, "flag": r.Intn(2) == 0, "v": float64(r.Intn(9))}
			case 1:
				doc = map[string]interface{}{"a": float64(r.Intn(5)), "b": g.pick("q", "wz"), "c": "kzl", "flag": false}
			default:
				doc = g.doc(3)
			}
			docs[d] = doc
			pd, _ := project(doc)
			emit(M{"ev": "SetDoc", "d": d, "val": pd})
		}
		regval := func() (interface{}, M) {
			v := g.doc(1)
			if v == nil {
				v = float64(7)
			}
			pv, _ := project(v)
			return v, pv
		}
		regName := func() string {
			if r.Intn(8) == 0 {
				return g.pick("bad name", "", "a-b", "é"+sfx, "x.y", "$x")
			}
			return names[r.Intn(2)]
		}
		compile := func(e int) {
			var src string
			switch r.Intn(7) {
			case 6:
				src = g.pick("$"+fname+"()", "[$"+fname+"(), $"+names[0]+"]", "$"+fname+"() & \"!\"")
			case 0, 1, 2:
				src = historyPrograms[r.Intn(len(historyPrograms))]
			case 3:
				src = "$" + names[r.Intn(2)]
			case 4:
				src = "[$" + names[0] + ", $" + names[1] + ", a]"
			default:
				src = g.program()
			}
			ex, err := jsonata.Compile(src)
			if err != nil {
				return
			}
			exprs[e] = ex
			a := astOf(verifNode(ex))
			asts[e] = canon(a)
			strs[e] = ex.String()
			emit(M{"ev": "Compile", "e": e, "src": cps(src), "ast": a})
		}
		nops := 12 + r.Intn(10)
		compile(1)
		compile(2)
		compile(3)
		evalOn := func(e, d int) {
			if exprs[e] == nil {
				return
			}
			before, _ := project(docs[d])
			outc := safeEval(exprs[e], docs[d])
			after, perr := project(docs[d])
			ev := M{"ev": "Eval", "e": e, "d": d, "inp": before, "out": outc}
			ev["inp_same"] = perr == nil && canon(after) == canon(before)
			a1 := astOf(verifNode(exprs[e]))
			ev["ast_same"] = canon(a1) == asts[e]
			s1, ok := safeString(exprs[e])
			ev["str_same"] = ok && s1 == strs[e]
			emit(ev)
		}
		if h == 0 {
			// the first history of a run: deep recursions that end in an error, several times over, and then ordinary calls -
			// whatever an evaluation counts or holds while it runs is given back when it fails
			deep := `($f := function($n){$n <= 0 ? $error("boom") : $f($n - 1)}; $f(260))`
			plain := `($g := function($x){$x * 2}; $map([1, 2, 3], $g))`
			for i, src := range []string{deep, plain} {
				if ex, err := jsonata.Compile(src); err == nil {
					exprs[i+1] = ex
					a := astOf(verifNode(ex))
					asts[i+1], strs[i+1] = canon(a), ex.String()
					emit(M{"ev": "Compile", "e": i + 1, "src": cps(src), "ast": a})
				}
			}
			evalOn(2, 1)
			for k := 0; k < 5; k++ {
				evalOn(1, 1)
			}
			evalOn(2, 1)
			evalOn(1, 2)
			evalOn(2, 2)
		}
		if r.Intn(3) == 0 {
			// a scripted opening: the same call site $f() evaluated before and after the name is registered again
			// with another function, on the expression and at package level (visibility rules of C20, and C05:
			// nothing learnt in one evaluation may be used in the next)
			src := g.pick("$"+fname+"()", "[$"+fname+"(), $"+fname+"()]", "($g := $"+fname+"; $g())")
			if ex, err := jsonata.Compile(src); err == nil {
				exprs[1] = ex
				a := astOf(verifNode(ex))
				asts[1], strs[1] = canon(a), ex.String()
				emit(M{"ev": "Compile", "e": 1, "src": cps(src), "ast": a})
				for k := 0; k < 3; k++ {
					spec, ext := extSpec()
					if k == 2 && r.Intn(2) == 0 {
						err := jsonata.RegisterExts(map[string]jsonata.Extension{fname: ext})
						emit(M{"ev": "RegisterGlobal", "nm": fname, "nmcps": cps(fname), "val": spec, "ok": err == nil})
					} else {
						err := exprs[1].RegisterExts(map[string]jsonata.Extension{fname: ext})
						emit(M{"ev": "RegisterExpr", "e": 1, "nm": fname, "nmcps": cps(fname), "val": spec, "ok": err == nil})
					}
					evalOn(1, 1+r.Intn(3))
				}
			}
		}
		for op := 0; op < nops; op++ {
			switch k := r.Intn(20); {
			case k == 0:
				nm := regName()
				v, pv := regval()
				err := jsonata.RegisterVars(map[string]interface{}{nm: v})
				emit(M{"ev": "RegisterGlobal", "nm": nm, "nmcps": cps(nm), "val": pv, "ok": err == nil})
			case k == 1 || k == 2:
				compile(1 + r.Intn(3))
			case k == 3:
				e := 1 + r.Intn(3)
				if exprs[e] == nil {
					continue
				}
				nm := regName()
				v, pv := regval()
				err := exprs[e].RegisterVars(map[string]interface{}{nm: v})
				emit(M{"ev": "RegisterExpr", "e": e, "nm": nm, "nmcps": cps(nm), "val": pv, "ok": err == nil})
			case k == 5:
				// an extension function, at package level or on one expression (C20)
				spec, ext := extSpec()
				nm := fname
				if r.Intn(10) == 0 {
					nm = g.pick("bad name", "", "a-b")
				}
				if r.Intn(2) == 0 {
					err := jsonata.RegisterExts(map[string]jsonata.Extension{nm: ext})
					emit(M{"ev": "RegisterGlobal", "nm": nm, "nmcps": cps(nm), "val": spec, "ok": err == nil})
				} else {
					e := 1 + r.Intn(3)
					if exprs[e] == nil {
						continue
					}
					err := exprs[e].RegisterExts(map[string]jsonata.Extension{nm: ext})
					emit(M{"ev": "RegisterExpr", "e": e, "nm": nm, "nmcps": cps(nm), "val": spec, "ok": err == nil})
				}
			case k == 4:
				d := 1 + r.Intn(3)
				docs[d] = g.doc(2)
				pd, _ := project(docs[d])
				emit(M{"ev": "SetDoc", "d": d, "val": pd})
			default:
				e := 1 + r.Intn(3)
				if exprs[e] == nil {
					continue
				}
				d := 1 + r.Intn(3)
				before, _ := project(docs[d])
				outc := safeEval(exprs[e], docs[d])
				after, perr := project(docs[d])
				ev := M{"ev": "Eval", "e": e, "d": d, "inp": before, "out": outc}
				ev["inp_same"] = perr == nil && canon(after) == canon(before)
				a1 := astOf(verifNode(exprs[e]))
				ev["ast_same"] = canon(a1) == asts[e]
				if canon(a1) != asts[e] {
					ev["ast_after"] = a1
				}
				s1, ok := safeString(exprs[e])
				ev["str_same"] = ok && s1 == strs[e]
				emit(ev)
				if perr == nil && canon(after) != canon(before) {
					// the caller's document was changed by the call: the history continues from what
					// the caller now holds, and the specification is told so (as a caller's write)
					emit(M{"ev": "SetDoc", "d": d, "val": after})
				}
			}
		}
	}
}
