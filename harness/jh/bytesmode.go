package main

// EvalBytes-mode cases (C10): an input byte string handed to Expr.EvalBytes of the program "$"
// (or the case's own program); the outcome records whether the bytes were decoded, and the bytes
// that came back.

import (
	"encoding/json"
	"errors"

	jsonata "github.com/blues/jsonata-go"
)

func runBytesCase(rq *request) M {
	ev := M{"id": rq.ID, "ev": "EvalBytes", "fam": rq.Fam, "bytes": rq.Bytes}
	src := rq.Src
	if src == "" {
		src = "$"
	}
	ev["src"] = cps(src)
	data := make([]byte, len(rq.Bytes))
	for i, b := range rq.Bytes {
		data[i] = byte(toInt(b))
	}
	e, cerr, cp := safeCompile(src)
	if cp != nil || cerr != nil {
		ev["out"] = M{"o": "bad", "why": "program does not compile"}
		return ev
	}
	out := M{}
	func() {
		defer func() {
			if r := recover(); r != nil {
				p := capturePanic(r)
				out = M{"o": "panic", "site": p.site, "msg": p.msg}
			}
		}()
		res, err := e.EvalBytes(data)
		if err != nil {
			var se *json.SyntaxError
			var te *json.UnmarshalTypeError
			switch {
			case errors.As(err, &se), errors.As(err, &te):
				out = M{"o": "err", "k": "Json"}
			case errors.Is(err, jsonata.ErrUndefined):
				out = M{"o": "undef"}
			default:
				out = classifyErr(err)
			}
			return
		}
		out = M{"o": "val", "rb": bytesJSON(res)}
	}()
	ev["out"] = out
	return ev
}
