package main

// Number-mode cases (C18): $round, $string, $number and $formatNumber called through the real API
// on a double given by its decimal text.  The double is presented to the specification as its
// shortest decimal form (sign, digits, power of ten of the last digit); results that are numbers
// are presented the same way, results that are strings as code points.  A case is a sequence of
// calls made one after the other in one process, so that state kept between calls is observed.

import (
	"fmt"
	"math"
	"math/big"
	"sort"
	"strconv"
	"strings"
)

var fmtOptionNames = map[string]string{
	"dec": "decimal-separator", "grp": "grouping-separator", "exp": "exponent-separator", "minus": "minus-sign",
	"zero": "zero-digit", "digit": "digit", "psep": "pattern-separator", "pct": "percent", "pml": "per-mille",
}

// decOf: the shortest decimal form of v that reads back as v
func decOf(v float64) M {
	s := strconv.FormatFloat(math.Abs(v), 'e', -1, 64)
	mant, ex, _ := strings.Cut(s, "e")
	e, _ := strconv.Atoi(ex)
	digits := strings.ReplaceAll(mant, ".", "")
	ds := make([]interface{}, len(digits))
	for i, c := range digits {
		ds[i] = int(c - '0')
	}
	sg := 1
	if math.Signbit(v) {
		sg = -1
	}
	return M{"sg": sg, "ds": ds, "e": e - (len(digits) - 1)}
}

// decExactOf: the exact decimal expansion of the double v (every double has a finite one), or nil when
// it would be too long to be worth handing to the specification
func decExactOf(v float64) M {
	r := new(big.Rat).SetFloat64(v)
	if r == nil {
		return nil
	}
	k := r.Denom().BitLen() - 1 // the denominator is 2^k: k fraction digits are exact
	if k > 160 {
		return nil
	}
	txt := new(big.Rat).Abs(r).FloatString(k)
	txt = strings.TrimLeft(strings.Replace(txt, ".", "", 1), "0")
	e := -k
	for len(txt) > 1 && txt[len(txt)-1] == '0' {
		txt = txt[:len(txt)-1]
		e++
	}
	if txt == "" {
		txt, e = "0", 0
	}
	if len(txt) > 400 {
		return nil
	}
	ds := make([]interface{}, len(txt))
	for i, c := range txt {
		ds[i] = int(c - '0')
	}
	sg := 1
	if math.Signbit(v) {
		sg = -1
	}
	return M{"sg": sg, "ds": ds, "e": e}
}

// numArg: the double named by a case's "xd"-style record (sign, digits, power of ten) and nudge
func numArg(xd interface{}, nudge interface{}) (float64, bool) {
	m, ok := xd.(map[string]interface{})
	if !ok {
		return 0, false
	}
	xs := ""
	if toInt(m["sg"]) < 0 {
		xs = "-"
	}
	ds, _ := m["ds"].([]interface{})
	for _, d := range ds {
		xs += strconv.Itoa(toInt(d))
	}
	xs += "e" + strconv.Itoa(toInt(m["e"]))
	v, err := strconv.ParseFloat(xs, 64)
	if err != nil || math.IsInf(v, 0) || math.IsNaN(v) {
		return 0, false
	}
	nd := toInt(nudge)
	for k := 0; k < nd; k++ {
		v = math.Nextafter(v, math.Copysign(math.Inf(1), v))
	}
	for k := 0; k > nd; k-- {
		v = math.Nextafter(v, 0)
	}
	if math.IsInf(v, 0) {
		return 0, false
	}
	return v, true
}

func runNumCase(rq *request) M {
	ev := M{"id": rq.ID, "ev": "Num", "fam": rq.Fam}
	calls, _ := rq.Flags["calls"].([]interface{})
	steps := []interface{}{}
	for _, c := range calls {
		f, _ := c.(map[string]interface{})
		steps = append(steps, runNumCall(f))
	}
	ev["steps"] = steps
	// the line's summary fields: what was called, and the last outcome
	all := ""
	for i, st := range steps {
		if i > 0 {
			all += " ; "
		}
		m := st.(M)
		all += cpsToString(m["src"])
		if x, ok := m["x"].(M); ok {
			all += fmt.Sprintf(" on %v%ve%v", map[int]string{1: "", -1: "-"}[x["sg"].(int)], digitsText(x["ds"].([]interface{})), x["e"])
		}
		ev["out"] = m["out"]
	}
	ev["src"] = cps(all)
	if len(steps) == 0 {
		ev["out"] = M{"o": "bad", "why": "no calls"}
	}
	return ev
}

func digitsText(ds []interface{}) string {
	s := ""
	for _, d := range ds {
		s += strconv.Itoa(d.(int))
	}
	return s
}

func runNumCall(f map[string]interface{}) M {
	fn := gs(f, "fn")
	st := M{"fn": fn}
	var src string
	var input interface{}
	xs, hasX := f["x"].(string)
	if xd, ok := f["xd"].(map[string]interface{}); ok {
		// sign, digits and power of ten of the last digit
		xs = ""
		if toInt(xd["sg"]) < 0 {
			xs = "-"
		}
		ds, _ := xd["ds"].([]interface{})
		for _, d := range ds {
			xs += strconv.Itoa(toInt(d))
		}
		xs += "e" + strconv.Itoa(toInt(xd["e"]))
		hasX = true
	}
	if hasX {
		v, err := strconv.ParseFloat(xs, 64)
		// a neighbouring double: nudge = +1 / -1 steps away from / towards zero
		if nd := toInt(f["nudge"]); err == nil && nd != 0 {
			for k := 0; k < nd; k++ {
				v = math.Nextafter(v, math.Copysign(math.Inf(1), v))
			}
			for k := 0; k > nd; k-- {
				v = math.Nextafter(v, 0)
			}
		}
		if err != nil || math.IsInf(v, 0) || math.IsNaN(v) {
			st["out"] = M{"o": "bad", "why": "case number " + xs}
			return st
		}
		input = v
		st["x"] = decOf(v)
	}
	switch fn {
	case "round":
		if p, ok := f["p"]; ok {
			st["p"] = toInt(p)
			st["hasp"] = true
			src = "$round($, " + strconv.Itoa(toInt(p)) + ")"
		} else {
			st["p"] = 0
			st["hasp"] = false
			src = "$round($)"
		}
	case "string":
		src = "$string($)"
	case "numrt":
		src = "$number($string($))"
	case "number":
		st["s"] = f["s"]
		input = cpsToString(f["s"])
		src = "$number($)"
	case "literal":
		// a number literal as a program (C11: a JSON number denotes itself)
		st["s"] = f["s"]
		src = cpsToString(f["s"])
	case "op":
		// a binary operator on two doubles supplied as input members (C03 on large and tiny magnitudes)
		vx, okx := numArg(f["xd"], f["nudge"])
		vy, oky := numArg(f["yd"], f["ynudge"])
		if !okx || !oky {
			st["out"] = M{"o": "bad", "why": "operands"}
			return st
		}
		st["op"] = gs(f, "op")
		st["x"], st["y"] = decOf(vx), decOf(vy)
		if xe, ye := decExactOf(vx), decExactOf(vy); xe != nil && ye != nil {
			st["xe"], st["ye"] = xe, ye
		}
		input = map[string]interface{}{"x": vx, "y": vy}
		src = "x " + gs(f, "op") + " y"
		if gs(f, "op") == ".." {
			src = "$count([x..y])"
		}
	case "agg":
		// an aggregate over an array of doubles supplied as the input (C15 on large and tiny magnitudes)
		xs, _ := f["xs"].([]interface{})
		arr := make([]interface{}, 0, len(xs))
		xl, xel := []interface{}{}, []interface{}{}
		exact := true
		for _, xd := range xs {
			v, ok := numArg(xd, nil)
			if !ok {
				st["out"] = M{"o": "bad", "why": "operands"}
				return st
			}
			arr = append(arr, v)
			xl = append(xl, decOf(v))
			if xe := decExactOf(v); xe != nil {
				xel = append(xel, xe)
			} else {
				exact = false
			}
		}
		st["name"] = gs(f, "name")
		st["xs"] = xl
		if exact {
			st["xes"] = xel
		}
		input = arr
		src = "$" + gs(f, "name") + "($)"
	case "fmt":
		st["pic"] = f["pic"]
		src = "$formatNumber($, " + quoteJ(cpsToString(f["pic"]))
		if o, ok := f["opts"].(map[string]interface{}); ok && len(o) > 0 {
			st["opts"] = o
			keys := []string{}
			for k := range o {
				keys = append(keys, k)
			}
			sort.Strings(keys)
			parts := []string{}
			for _, k := range keys {
				name, ok := fmtOptionNames[k]
				if !ok {
					st["out"] = M{"o": "bad", "why": "unknown option " + k}
					return st
				}
				var val string
				switch x := o[k].(type) {
				case []interface{}:
					val = cpsToString(x)
				default:
					val = string(rune(toInt(x)))
				}
				parts = append(parts, quoteJ(name)+": "+quoteJ(val))
			}
			src += ", {" + strings.Join(parts, ", ") + "}"
		}
		src += ")"
	default:
		st["out"] = M{"o": "bad", "why": "unknown number function"}
		return st
	}
	st["src"] = cps(src)
	e, cerr, cp := safeCompile(src)
	if cp != nil {
		st["out"] = M{"o": "panic", "site": cp.site, "msg": cp.msg}
		return st
	}
	if cerr != nil {
		if fn == "literal" {
			// the literal itself is the program: that it does not compile is the observation
			st["out"] = classifyErr(cerr)
			return st
		}
		st["out"] = M{"o": "bad", "why": "compile: " + cerr.Error()}
		return st
	}
	out := M{}
	func() {
		defer func() {
			if r := recover(); r != nil {
				p := capturePanic(r)
				out = M{"o": "panic", "site": p.site, "msg": p.msg}
			}
		}()
		res, err := e.Eval(input)
		if err != nil {
			out = classifyErr(err)
			return
		}
		switch v := res.(type) {
		case string:
			out = M{"o": "val", "s": cps(v)}
		case float64:
			if math.IsNaN(v) || math.IsInf(v, 0) {
				out = M{"o": "nonfinite", "why": fmt.Sprint(v)}
				return
			}
			out = M{"o": "val", "x": decOf(v)}
			if xe := decExactOf(v); xe != nil {
				out["xe"] = xe
				// the neighbouring doubles: "v is the double nearest to the real result" is then a statement
				// about three exact decimals
				lo, hi := math.Nextafter(v, math.Inf(-1)), math.Nextafter(v, math.Inf(1))
				if le, he := decExactOf(lo), decExactOf(hi); le != nil && he != nil && !math.IsInf(lo, 0) && !math.IsInf(hi, 0) {
					out["lo"], out["hi"] = le, he
				}
			}
		case bool:
			out = M{"o": "val", "b": v}
		case int64:
			out = M{"o": "val", "x": decOf(float64(v))}
			if xe := decExactOf(float64(v)); xe != nil && float64(v) == math.Trunc(float64(v)) && math.Abs(float64(v)) < 1<<53 {
				out["xe"] = xe
			}
		case int:
			out = M{"o": "val", "x": decOf(float64(v))}
			if xe := decExactOf(float64(v)); xe != nil && math.Abs(float64(v)) < 1<<53 {
				out["xe"] = xe
			}
		default:
			out = M{"o": "unproj", "gotype": fmt.Sprintf("%T", res)}
		}
	}()
	st["out"] = out
	return st
}
