package main

// Number-mode cases (C18): $round, $string, $number and $formatNumber called through the real API
// on a double given by its decimal text.  The double is presented to the specification as its
// shortest decimal form (sign, digits, power of ten of the last digit); results that are numbers
// are presented the same way, results that are strings as code points.  A case is a sequence of
// calls made one after the other in one process, so that state kept between calls is observed.

import (
	"fmt"
	"math"
	"sort"
	"strconv"
	"strings"
)

var fmtOptionNames = map[string]string{
	"dec": "decimal-separator", "grp": "grouping-separator", "exp": "exponent-separator", "minus": "minus-sign",
	"zero": "zero-digit", "digit": "digit", "psep": "pattern-separator", "pct": "percent", "pml": "per-mille",
}

// decOf: the shortest decimal form of v that reads back as v
func decOf(v float64) M {
	s := strconv.FormatFloat(math.Abs(v), 'e', -1, 64)
	mant, ex, _ := strings.Cut(s, "e")
	e, _ := strconv.Atoi(ex)
	digits := strings.ReplaceAll(mant, ".", "")
	ds := make([]interface{}, len(digits))
	for i, c := range digits {
		ds[i] = int(c - '0')
	}
	sg := 1
	if math.Signbit(v) {
		sg = -1
	}
	return M{"sg": sg, "ds": ds, "e": e - (len(digits) - 1)}
}

func runNumCase(rq *request) M {
	ev := M{"id": rq.ID, "ev": "Num", "fam": rq.Fam}
	calls, _ := rq.Flags["calls"].([]interface{})
	steps := []interface{}{}
	for _, c := range calls {
		f, _ := c.(map[string]interface{})
		steps = append(steps, runNumCall(f))
	}
	ev["steps"] = steps
	// the line's summary fields: what was called, and the last outcome
	all := ""
	for i, st := range steps {
		if i > 0 {
			all += " ; "
		}
		m := st.(M)
		all += cpsToString(m["src"])
		if x, ok := m["x"].(M); ok {
			all += fmt.Sprintf(" on %v%ve%v", map[int]string{1: "", -1: "-"}[x["sg"].(int)], digitsText(x["ds"].([]interface{})), x["e"])
		}
		ev["out"] = m["out"]
	}
	ev["src"] = cps(all)
	if len(steps) == 0 {
		ev["out"] = M{"o": "bad", "why": "no calls"}
	}
	return ev
}

func digitsText(ds []interface{}) string {
	s := ""
	for _, d := range ds {
		s += strconv.Itoa(d.(int))
	}
	return s
}

func runNumCall(f map[string]interface{}) M {
	fn := gs(f, "fn")
	st := M{"fn": fn}
	var src string
	var input interface{}
	xs, hasX := f["x"].(string)
	if xd, ok := f["xd"].(map[string]interface{}); ok {
		// sign, digits and power of ten of the last digit
		xs = ""
		if toInt(xd["sg"]) < 0 {
			xs = "-"
		}
		ds, _ := xd["ds"].([]interface{})
		for _, d := range ds {
			xs += strconv.Itoa(toInt(d))
		}
		xs += "e" + strconv.Itoa(toInt(xd["e"]))
		hasX = true
	}
	if hasX {
		v, err := strconv.ParseFloat(xs, 64)
		// a neighbouring double: nudge = +1 / -1 steps away from / towards zero
		if nd := toInt(f["nudge"]); err == nil && nd != 0 {
			for k := 0; k < nd; k++ {
				v = math.Nextafter(v, math.Copysign(math.Inf(1), v))
			}
			for k := 0; k > nd; k-- {
				v = math.Nextafter(v, 0)
			}
		}
		if err != nil || math.IsInf(v, 0) || math.IsNaN(v) {
			st["out"] = M{"o": "bad", "why": "case number " + xs}
			return st
		}
		input = v
		st["x"] = decOf(v)
	}
	switch fn {
	case "round":
		if p, ok := f["p"]; ok {
			st["p"] = toInt(p)
			st["hasp"] = true
			src = "$round($, " + strconv.Itoa(toInt(p)) + ")"
		} else {
			st["p"] = 0
			st["hasp"] = false
			src = "$round($)"
		}
	case "string":
		src = "$string($)"
	case "numrt":
		src = "$number($string($))"
	case "number":
		st["s"] = f["s"]
		input = cpsToString(f["s"])
		src = "$number($)"
	case "fmt":
		st["pic"] = f["pic"]
		src = "$formatNumber($, " + quoteJ(cpsToString(f["pic"]))
		if o, ok := f["opts"].(map[string]interface{}); ok && len(o) > 0 {
			st["opts"] = o
			keys := []string{}
			for k := range o {
				keys = append(keys, k)
			}
			sort.Strings(keys)
			parts := []string{}
			for _, k := range keys {
				name, ok := fmtOptionNames[k]
				if !ok {
					st["out"] = M{"o": "bad", "why": "unknown option " + k}
					return st
				}
				var val string
				switch x := o[k].(type) {
				case []interface{}:
					val = cpsToString(x)
				default:
					val = string(rune(toInt(x)))
				}
				parts = append(parts, quoteJ(name)+": "+quoteJ(val))
			}
			src += ", {" + strings.Join(parts, ", ") + "}"
		}
		src += ")"
	default:
		st["out"] = M{"o": "bad", "why": "unknown number function"}
		return st
	}
	st["src"] = cps(src)
	e, cerr, cp := safeCompile(src)
	if cp != nil {
		st["out"] = M{"o": "panic", "site": cp.site, "msg": cp.msg}
		return st
	}
	if cerr != nil {
		st["out"] = M{"o": "bad", "why": "compile: " + cerr.Error()}
		return st
	}
	out := M{}
	func() {
		defer func() {
			if r := recover(); r != nil {
				p := capturePanic(r)
				out = M{"o": "panic", "site": p.site, "msg": p.msg}
			}
		}()
		res, err := e.Eval(input)
		if err != nil {
			out = classifyErr(err)
			return
		}
		switch v := res.(type) {
		case string:
			out = M{"o": "val", "s": cps(v)}
		case float64:
			if math.IsNaN(v) || math.IsInf(v, 0) {
				out = M{"o": "nonfinite", "why": fmt.Sprint(v)}
				return
			}
			out = M{"o": "val", "x": decOf(v)}
		case int64:
			out = M{"o": "val", "x": decOf(float64(v))}
		case int:
			out = M{"o": "val", "x": decOf(float64(v))}
		default:
			out = M{"o": "unproj", "gotype": fmt.Sprintf("%T", res)}
		}
	}()
	st["out"] = out
	return st
}
