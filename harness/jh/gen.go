package main

// Seeded random case generators (V direction, DESIGN.md 5.4).  They only
// produce program text and input documents; what the outcome must be is
// decided by the specification when TLC validates the recorded trace.

import (
	"bufio"
	"encoding/json"
	"flag"
	"fmt"
	"math/rand"
	"os"
	"regexp"
	"strconv"
	"strings"
	"unicode/utf16"
)

type gen struct {
	r       *rand.Rand
	prof    string
	nulls   bool
	chaotic bool
	vars    []string
}

func (g *gen) pick(xs ...string) string            { return xs[g.r.Intn(len(xs))] }
func (g *gen) pick2(xs ...interface{}) interface{} { return xs[g.r.Intn(len(xs))] }
func (g *gen) chance(p float64) bool               { return g.r.Float64() < p }

// ---- documents -------------------------------------------------------------

var keyPool = []string{"a", "b", "c", "k", "id"}

func (g *gen) leaf() interface{} {
	switch g.r.Intn(12) {
	case 0, 1, 2:
		return float64(g.r.Intn(7) - 2)
	case 3:
		return float64(g.r.Intn(9)-4) / 2
	case 4:
		return float64(g.r.Intn(40)-20) / 4
	case 5, 6:
		return g.pick("x", "y", "xy", "", "z", "1", "é", "a b")
	case 7:
		return g.r.Intn(2) == 0
	case 8:
		if g.nulls {
			return nil
		}
		return "q"
	case 9:
		return []interface{}{}
	case 10:
		return map[string]interface{}{}
	default:
		return float64(g.r.Intn(4))
	}
}

func (g *gen) doc(d int) interface{} {
	if d <= 0 || g.chance(0.25) {
		return g.leaf()
	}
	if g.chance(0.5) {
		n := g.r.Intn(4)
		a := make([]interface{}, n)
		for i := range a {
			a[i] = g.doc(d - 1)
		}
		return a
	}
	n := g.r.Intn(4)
	m := map[string]interface{}{}
	for i := 0; i < n; i++ {
		m[keyPool[g.r.Intn(3)]] = g.doc(d - 1)
	}
	return m
}

// an array of records with tie-rich sort members (C13, C14)
func (g *gen) records(n int) interface{} {
	a := make([]interface{}, n)
	for i := range a {
		m := map[string]interface{}{"id": float64(i)}
		if g.chance(0.85) {
			m["k"] = float64(g.r.Intn(3))
		}
		if g.chance(0.85) {
			m["s"] = g.pick("x", "y", "z")
		}
		if g.chance(0.5) {
			m["a"] = float64(g.r.Intn(5)) / 2
		}
		a[i] = m
	}
	return a
}

// ---- programs --------------------------------------------------------------

func (g *gen) name() string { return g.pick("a", "b", "c", "a", "b", "k", "`a`", "id") }
func (g *gen) numLit() string {
	return g.pick("0", "1", "2", "3", "-1", "0.5", "1.5", "-2.5", "7", "10", "-3", "2.25")
}
func (g *gen) strLit() string {
	return g.pick(`"x"`, `"y"`, `""`, `"xy"`, `'a b'`, `"1"`, `"é"`, `"z"`, `"a"`)
}

func (g *gen) step(d int) string {
	switch g.r.Intn(16) {
	case 0, 1, 2, 3, 4, 5:
		return g.name()
	case 6:
		return "*"
	case 7:
		return "**"
	case 8:
		return "(" + g.path(d-1) + ")"
	case 9:
		return "[" + g.path(d-1) + "]"
	case 10:
		return `{"k": ` + g.path(d-1) + "}"
	case 11:
		return "$string(" + g.name() + ")"
	case 12:
		return g.name() + "[" + g.pred(d-1) + "]"
	case 13:
		return "$"
	case 14:
		return "$count(" + g.name() + ")"
	default:
		return g.name()
	}
}

func (g *gen) path(d int) string {
	n := 1 + g.r.Intn(4)
	if d <= 0 {
		n = 1
	}
	parts := make([]string, 0, n)
	switch g.r.Intn(8) {
	case 0:
		parts = append(parts, "$")
	case 1:
		parts = append(parts, "$$")
	case 2:
		if len(g.vars) > 0 {
			parts = append(parts, "$"+g.vars[g.r.Intn(len(g.vars))])
		}
	}
	for len(parts) < n {
		if d <= 0 {
			parts = append(parts, g.name())
		} else {
			parts = append(parts, g.step(d))
		}
	}
	s := strings.Join(parts, ".")
	if g.chance(0.15) {
		s += "[]"
	}
	return s
}

func (g *gen) pred(d int) string {
	switch g.r.Intn(12) {
	case 0, 1, 2:
		return g.pick("0", "1", "-1", "2", "-2", "1.5", "-0.5", "5", "-7", "3")
	case 3:
		return "[" + g.pick("0", "1", "-1") + ", " + g.pick("0", "2", "1") + "]"
	case 4, 5:
		return g.name() + " " + g.pick("=", "!=", "<", ">", "<=", ">=") + " " + g.pick(g.numLit(), g.numLit(), g.strLit())
	case 6:
		return g.name()
	case 7:
		return g.name() + " = " + g.numLit() + " " + g.pick("and", "or") + " " + g.name() + " != " + g.strLit()
	case 8:
		return "$count(" + g.name() + ") - 1"
	case 9:
		return g.strLit()
	case 10:
		return "$$.idx"
	default:
		return g.pick("true", "false", "$ > 1", "$ = 1", `$ = "x"`)
	}
}

func (g *gen) operand(d int) string {
	switch g.r.Intn(14) {
	case 0, 1, 2:
		return g.numLit()
	case 3, 4:
		return g.strLit()
	case 5:
		return g.pick("true", "false", "null")
	case 6, 7, 8:
		return g.name()
	case 9:
		return "[" + g.numLit() + ", " + g.operand(d-1) + "]"
	case 10:
		return `{"a": ` + g.numLit() + "}"
	case 11:
		return "nothing"
	case 12:
		if d > 0 {
			return "(" + g.opExpr(d-1) + ")"
		}
		return g.numLit()
	default:
		return g.pick("$sum", "function($x){$x}")
	}
}

func (g *gen) opExpr(d int) string {
	l, r := g.operand(d), g.operand(d)
	switch g.r.Intn(9) {
	case 0, 1:
		return l + " " + g.pick("+", "-", "*", "/", "%") + " " + r
	case 2, 3:
		return l + " " + g.pick("=", "!=", "<", "<=", ">", ">=", "in") + " " + r
	case 4:
		return l + " " + g.pick("and", "or") + " " + r
	case 5:
		return l + " & " + r
	case 6:
		return "[" + l + ".." + r + "]"
	case 7:
		return l + " ? " + r + " : " + g.operand(d)
	default:
		p := g.pick("-", "-", "--", "- -", "-(-", "---")
		if p == "-(-" {
			return p + g.operand(d) + ")"
		}
		return p + g.operand(d)
	}
}

func (g *gen) lambda(d int) string {
	switch g.r.Intn(10) {
	case 8: // a body in parentheses (a block of one expression), once and twice
		return g.pick("function($x){($x * 2)}", "function($x){(($x))}", "function($x)<n:n>{($x + 1)}", "function($x, $i){($x; $i)}")
	case 9:
		return "function($x){(" + g.expr(d-1) + ")}"
	case 0:
		return "function($x){$x * 2}"
	case 1:
		return "function($x, $i){$x & $i}"
	case 2:
		return "function($x, $i, $arr){$count($arr) + $i}"
	case 3:
		return "function($x){$x > 1}"
	case 4:
		return "function(){1}"
	case 5:
		return "$string"
	case 6:
		return "function($x){" + g.expr(d-1) + "}"
	default:
		return "function($a, $b){$a + $b}"
	}
}

func (g *gen) arrExpr(d int) string {
	switch g.r.Intn(8) {
	case 0:
		return "[1, 2, 3]"
	case 1:
		return `[1, "1", true, [1], {"a": 1}]`
	case 2:
		return g.name()
	case 3:
		return "[" + g.numLit() + ", " + g.numLit() + ", " + g.strLit() + "]"
	case 4:
		return "[1..4]"
	case 5:
		return g.path(d - 1)
	case 6:
		return "[]"
	default:
		return "[[1, 2], [1, 2], 3, 3]"
	}
}

func (g *gen) call(d int) string {
	a := g.arrExpr(d)
	switch g.r.Intn(40) {
	case 0:
		return "$map(" + a + ", " + g.lambda(d) + ")"
	case 1:
		return "$filter(" + a + ", " + g.lambda(d) + ")"
	case 2:
		return "$reduce(" + a + ", function($a, $b){$a + $b}" + g.pick("", ", 10") + ")"
	case 3:
		return "$single(" + a + ", function($x){$x = 2})"
	case 4:
		return "$append(" + a + ", " + g.arrExpr(d) + ")"
	case 5:
		return "$reverse(" + a + ")"
	case 6:
		return "$zip(" + a + ", " + g.arrExpr(d) + ")"
	case 7:
		return "$distinct(" + a + ")"
	case 8:
		return "$count(" + a + ")"
	case 9:
		return "$sum(" + a + ")"
	case 10:
		return g.pick("$max", "$min", "$average") + "(" + a + ")"
	case 11:
		return "$sort(" + a + g.pick("", ", function($l, $r){$l > $r})") + ")"
	case 12:
		return "$keys(" + g.operand(d) + ")"
	case 13:
		return "$lookup(" + g.operand(d) + `, "a")`
	case 14:
		return "$merge(" + a + ")"
	case 15:
		return "$spread(" + g.operand(d) + ")"
	case 16:
		return "$each(" + g.operand(d) + ", function($v, $k){$k})"
	case 17:
		return "$sift(" + g.operand(d) + ", function($v){$v > 1})"
	case 18:
		return "$string(" + g.operand(d) + ")"
	case 19:
		return "$length(" + g.operand(d) + ")"
	case 20:
		return "$substring(" + g.operand(d) + ", " + g.numLit() + g.pick("", ", "+g.numLit()) + ")"
	case 21:
		return g.pick("$substringBefore", "$substringAfter") + "(" + g.operand(d) + ", " + g.strLit() + ")"
	case 22:
		return g.pick("$uppercase", "$lowercase", "$trim") + "(" + g.operand(d) + ")"
	case 23:
		return "$pad(" + g.operand(d) + ", " + g.numLit() + g.pick("", `, "ab"`) + ")"
	case 24:
		return "$contains(" + g.operand(d) + ", " + g.strLit() + ")"
	case 25:
		return "$split(" + g.operand(d) + ", " + g.strLit() + g.pick("", ", 2") + ")"
	case 26:
		return "$join(" + a + g.pick("", `, "-"`) + ")"
	case 27:
		return "$replace(" + g.operand(d) + ", " + g.strLit() + ", " + g.strLit() + ")"
	case 28:
		return "$number(" + g.operand(d) + ")"
	case 29:
		return g.pick("$abs", "$floor", "$ceil", "$sqrt") + "(" + g.operand(d) + ")"
	case 30:
		return "$round(" + g.operand(d) + g.pick("", ", 1", ", -1") + ")"
	case 31:
		return "$power(" + g.operand(d) + ", " + g.pick("2", "3", "0", "0.5") + ")"
	case 32:
		return g.pick("$boolean", "$not", "$exists", "$type") + "(" + g.operand(d) + ")"
	case 33:
		return g.name() + ".$substringBefore(" + g.strLit() + ")"
	case 34:
		return "$formatBase(" + g.operand(d) + ", " + g.pick("2", "16", "36", "1", "10") + ")"
	case 35:
		return g.operand(d) + " ~> $string()"
	case 36:
		return "$shuffle(" + a + ")"
	case 37:
		return g.pick("$base64encode", "$base64decode", "$encodeUrlComponent", "$decodeUrlComponent") + "(" + g.operand(d) + ")"
	case 38:
		return "$error(" + g.strLit() + ")"
	default:
		return "$exists(" + g.path(d-1) + ")"
	}
}

func (g *gen) block(d int) string {
	switch g.r.Intn(9) {
	case 0:
		return "($x := " + g.operand(d) + "; $x)"
	case 1:
		// an assignment is an expression: nested in a conditional branch, an array, a call argument, an object
		// value, a block of one expression, a function body
		asg := "$x := " + g.operand(0)
		w := []string{"true ? " + asg + " : 0", "[" + asg + "]", "$string(" + asg + ")", `{"k": ` + asg + "}", "(" + asg + ")", "function(){" + asg + "}()", asg}[g.r.Intn(7)]
		return []string{"($x := 1; (" + w + "); $x)", "($x := 1; " + w + "; $x)", "[(" + w + "), $x]", "($x := 1; ($x := 2; $x); $x)"}[g.r.Intn(4)]
	case 2:
		// one call site whose callee is a different function from call to call / from input to input
		switch g.r.Intn(4) {
		case 0:
			return "$map([$uppercase, $lowercase, $string, $length], function($g){$g(" + g.pick(`"aB"`, "b", "c.a", `"Zz"`) + ")})"
		case 1:
			return "($f := " + g.pick("flag", "k > 3", "$exists(flag)", "v > 10", "$count(a) > 1") + " ? $uppercase : $lowercase; $f(" + g.pick(`"aB"`, "b", `"Zz"`) + "))"
		case 2:
			return "($h := function($g, $x){$g($x)}; [$h($sum, [1, 2]), $h($count, [1, 2]), $h($max, [1, 2])])"
		}
		return "($f := function($n){$n <= 1 ? 1 : $n * $f($n - 1)}; $f(4))"
	case 3:
		return "($x := 2; $f := function($y){$x + $y}; $x := 5; $f(1))"
	case 4:
		// partial application; the fixed arguments are literals, members of the input, paths or predicates
		switch g.r.Intn(4) {
		case 0:
			return "($p := $power(?, " + g.pick("k", "v", "a[0]", "c.a", "$count(a)", "id") + "); $p(2))"
		case 1:
			return "($s := $substring(?, " + g.pick("k", "a[0]", "$count(a)", "1") + "); $s(" + g.pick("b", `"hello"`, "c.a") + "))"
		case 2:
			return "($f := $append(?, " + g.pick("a", "a.b", "c", "a[0]", "[k]") + "); $f(0))"
		}
		return "($add := function($a, $b){$a + $b}; $inc := $add(?, 1); $inc(" + g.numLit() + "))"
	case 5:
		if g.r.Intn(2) == 0 {
			// the chain operator in front of calls with several written arguments
			return g.pick(`b ~> $replace("z", "Z", 1)`, `c.a ~> $replace("a", "o", 2)`, `b ~> $substring(1, 2)`, `b ~> $pad(9, "-")`, `k ~> function($p, $q, $r, $s){[$p, $q, $r, $s]}(1, 2, 3)`,
				`a ~> $zip(a, a, a)`, `b ~> $split("z", 5)`, `id ~> $formatNumber("#,##0.00", {})`, `b ~> $replace("z", "Z", 1) ~> $replace("q", "Q", 1)`)
		}
		return "(" + g.operand(d) + " ~> " + g.pick("$string", "$count", "$sum", "function($v){$v}") + ")"
	case 8:
		f := func() string {
			return g.pick("$string", "function($v){$v + 1}", "function($v){$v * 2}", "$count", "function($v){[$v]}")
		}
		return "($c := " + f() + " ~> " + f() + g.pick("", " ~> "+f(), " ~> "+f()+" ~> "+f()) + "; $d := $c ~> " + f() + "; $e := $c ~> " + f() + "; [$d(3), $e(3), $c(3)])"
	case 6:
		return "($f := function($x)<" + g.pick("n", "s", "n?", "a", "a<n>", "(ns)", "x", "n+", "j", "f", "o", "b") + ":n>{$x}; $f(" + g.operand(d) + "))"
	default:
		return "(" + g.expr(d-1) + "; " + g.expr(d-1) + ")"
	}
}

func (g *gen) expr(d int) string {
	if d <= 0 {
		return g.operand(0)
	}
	switch g.r.Intn(14) {
	case 0, 1, 2:
		return g.path(d)
	case 3, 4:
		return g.opExpr(d)
	case 5, 6, 7:
		return g.call(d)
	case 8:
		return g.block(d)
	case 9:
		return g.name() + "[" + g.pred(d) + "]"
	case 10:
		return g.name() + "^(" + g.pick("", "<", ">") + g.pick("k", "s", "a", "id") + g.pick("", ", >id", ", s") + ")"
	case 11:
		if g.r.Intn(3) == 0 {
			// literal and computed keys side by side
			return g.pick("", g.name()) + "{" + g.pick(`"kind": "tag"`, `"n": $count($)`, `"lit": k`) + ", " + g.pick("s", "$string(k)", "b", "c.a") + ": " + g.pick("id", "k", "$count($)", "v") + "}"
		}
		return g.name() + "{" + g.pick("s", "$string(k)", `"lit"`, "k") + ": " + g.pick("id", "$count($)", "$sum(k)", "[id]", "$") + "}"
	case 12:
		return "$ ~> |" + g.pick("a", "$", "*", "a.b", "**", "a[0]") + "|" + g.pick(`{"z": 1}`, `{"a": 2}`, `{"n": $count($keys($))}`, "5") + g.pick("", `, "a"`, `, ["a", "b"]`, ", 1") + "|"
	default:
		return "[" + g.expr(d-1) + ", " + g.expr(d-1) + "]"
	}
}

func (g *gen) program() string {
	switch g.prof {
	case "paths":
		return g.path(2)
	case "preds":
		switch g.r.Intn(6) {
		case 0:
			return g.name() + "[" + g.pred(1) + "]"
		case 1:
			return g.name() + "." + g.name() + "[" + g.pred(1) + "]"
		case 2:
			return "(" + g.path(1) + ")[" + g.pred(1) + "]"
		case 3:
			return g.name() + "[" + g.pred(1) + "][" + g.pred(1) + "]"
		case 4:
			return "$[" + g.pred(1) + "]"
		default:
			return g.name() + "[" + g.pred(1) + "]." + g.name()
		}
	case "ops":
		return g.opExpr(2)
	case "calls":
		return g.call(2)
	case "blocks":
		return g.block(2)
	case "group":
		switch g.r.Intn(10) {
		case 0, 1, 2, 3:
			k := g.pick("s", "$string(k)", "s & $string(k)", `"lit"`, "k", "a", "$string(id % 3)")
			v := g.pick("id", "$count($)", "$sum(k)", "[id]", `{"n": $count($)}`, "$", "s", "$max(id)", "id[0]")
			extra := g.pick("", "", "", `, "all": $count($)`, ", s: k", `, "x": id`)
			return g.pick("$", "a", "$[k >= 1]", "a[s = \"x\"]") + "{" + k + ": " + v + extra + "}"
		case 4:
			return "$keys(" + g.pick("$", "a", "a[0]", "$[0]", `{"p": 1, "q": 2}`) + ")"
		case 5:
			return "$merge($spread(" + g.pick("$[0]", "a[0]", "$", `{"p": 1, "q": [2]}`) + "))"
		case 6:
			return "$lookup(" + g.pick("$[0]", "a[0]", "$", "a") + ", " + g.pick(`"k"`, `"s"`, `"id"`, `"zz"`) + ")"
		case 7:
			return "$each(" + g.pick("$[0]", "a[0]", `{"p": 1, "q": 2}`) + ", function($v, $k){$k & \"=\" & $string($v)})"
		case 8:
			return "$sift(" + g.pick("$[0]", "a[0]", `{"p": 1, "q": 2}`) + ", function($v, $k){" + g.pick("$v > 0", `$k != "k"`, "$v") + "})"
		default:
			return "$count($keys(" + g.pick("$[0]", "a[0]") + ")) = $count($spread(" + g.pick("$[0]", "a[0]") + "))"
		}
	case "rx":
		atoms := []string{"a", "b", "c", ".", "[ab]", "[^a]", "\\d", "(a)", "(b)", "(a|b)", "(a(b)?)", "(?:ab)", "é", "\\\\", "\\.", "\\(", "[/]", "\\b"}
		quant := []string{"", "", "", "*", "+", "?", "{1,2}", "*?"}
		pat := ""
		for i, n := 0, 1+g.r.Intn(4); i < n; i++ {
			pat += atoms[g.r.Intn(len(atoms))] + quant[g.r.Intn(len(quant))]
			if g.chance(0.15) {
				pat += "|"
			}
		}
		if strings.HasSuffix(pat, "|") {
			pat += "c"
		}
		if g.chance(0.15) { // plain literals, also fully anchored ones
			pat = g.pick("ab", "a", "abc", "b", "ba")
		}
		pat = g.pick("", "", "^", "", "^") + pat + g.pick("", "", "$", "", "$")
		if g.chance(0.1) {
			pat = strings.Replace(pat, "a", "\\/", 1)
		}
		re := "/" + pat + "/" + g.pick("", "", "i", "m", "s", "im", "is", "ms", "ims")
		sub := func() string {
			pool := []rune("abcAB1/é ")
			n := g.r.Intn(13)
			rs := make([]rune, n)
			for i := range rs {
				rs[i] = pool[g.r.Intn(4+g.r.Intn(len(pool)-3))]
			}
			b, _ := json.Marshal(string(rs))
			return string(b)
		}
		tpl := func() string {
			parts := []string{"$0", "$1", "$2", "$3", "$12", "$$", "$", "x", "-", "$10", "$9", "<", ">"}
			t := ""
			for i, n := 0, g.r.Intn(5); i < n; i++ {
				t += parts[g.r.Intn(len(parts))]
			}
			b, _ := json.Marshal(t)
			return string(b)
		}
		lim := g.pick("", "", ", 0", ", 1", ", 2", ", 3", ", 4", ", -1")
		switch g.r.Intn(9) {
		case 0, 1:
			return "$match(" + sub() + ", " + re + lim + ")"
		case 2:
			return "$contains(" + sub() + ", " + re + ")"
		case 3:
			return "$split(" + sub() + ", " + re + lim + ")"
		case 4, 5:
			return "$replace(" + sub() + ", " + re + ", " + tpl() + lim + ")"
		case 6:
			return "$replace(" + sub() + ", " + re + ", function($m){\"<\" & $m.match & \":\" & $join($m.groups, \",\") & \">\"}" + lim + ")"
		case 7:
			// (a block cannot begin with a regex literal and a member cannot be called inside a path: both go through variables)
			return "($r := " + re + "; $m := $r(" + sub() + "); " + g.pick("$m", "$n := $m.next; $n()", "$n := $m.next; $m2 := $n(); $n2 := $m2.next; $n2()", "$m.match", "$n := $m.next; $n().groups", "$m.start", "$n := $m.next; $n().end", "[$m.groups, $r(\"ab\").match, $m.match]") + ")"
		default:
			return sub() + " ~> $match(" + re + ")"
		}
	case "num":
		x := g.pick("0", "1", "2.5", "-2.5", "3.5", "0.125", "1.005", "12345.678", "-0.5", "1e3", "99.995", "0.1", "7", "255", "1.45", "-1.55", "100", "0.0625", "1234.5", "1e-3", "45")
		switch g.r.Intn(9) {
		case 0, 1:
			return "$round(" + x + g.pick("", ", 0", ", 1", ", 2", ", 3", ", -1", ", -2") + ")"
		case 2:
			return "$formatBase(" + x + ", " + g.pick("2", "8", "16", "36", "10", "1", "37", "2.5", "0") + ")"
		case 3:
			return "$number(" + g.pick(`"12"`, `"1.5"`, `"-3e2"`, `"1e"`, `".5"`, `"0x10"`, `"1.5.2"`, `" 1"`, `"+1"`, `"1E+2"`, `"00"`, "true", "false", x, `"-0"`, `"1e-2"`) + ")"
		case 4:
			return g.pick("$floor", "$ceil", "$abs", "$sqrt") + "(" + x + ")"
		case 5:
			return "$power(" + x + ", " + g.pick("0", "1", "2", "3", "-1", "0.5") + ")"
		case 6:
			return "$number($string(" + x + ")) = " + x
		case 7:
			return "$string(" + x + ")"
		default:
			return "$string($round(" + x + ", " + g.pick("0", "1", "2") + "))"
		}
	case "str":
		pool := []rune("ab, é€😀\t-z")
		rs := func(max int) string {
			n := g.r.Intn(max + 1)
			out := make([]rune, n)
			for i := range out {
				out[i] = pool[g.r.Intn(len(pool))]
			}
			return string(out)
		}
		q := func(s string) string { b, _ := json.Marshal(s); return string(b) }
		num := func() string {
			return g.pick("0", "1", "2", "3", "5", "8", "-1", "-2", "-3", "-8", "1.5", "-2.5", "40")
		}
		s := q(rs(g.pick2(6, 12, 40).(int)))
		c := q(rs(2))
		switch g.r.Intn(16) {
		case 0:
			return "$length(" + s + ")"
		case 1:
			return "$substring(" + s + ", " + num() + g.pick("", ", "+num()) + ")"
		case 2:
			return "$pad(" + s + ", " + num() + g.pick("", ", "+q(rs(3))) + ")"
		case 3:
			return g.pick("$substringBefore", "$substringAfter", "$contains") + "(" + s + ", " + c + ")"
		case 4:
			return "$split(" + s + ", " + c + g.pick("", ", "+num()) + ")"
		case 5:
			return "$replace(" + s + ", " + c + ", " + q(rs(2)) + g.pick("", ", "+num()) + ")"
		case 6:
			return g.pick("$trim", "$uppercase", "$lowercase") + "(" + s + ")"
		case 7:
			return "$join($split(" + s + ", " + c + "), " + c + ") = " + s
		case 8:
			return "$length($pad(" + s + ", " + g.pick("0", "3", "-7", "12", "-1") + "))"
		case 9:
			return "$contains(" + s + ", " + c + ") ? $substringBefore(" + s + ", " + c + ") & " + c + " & $substringAfter(" + s + ", " + c + ") = " + s + " : true"
		case 10:
			return "$base64decode($base64encode(" + s + ")) = " + s
		case 11:
			return "$decodeUrlComponent($encodeUrlComponent(" + s + ")) = " + s
		case 12:
			return "$join(" + g.pick("["+s+", "+c+"]", "["+s+"]", s, "[]") + g.pick("", ", "+c) + ")"
		case 13:
			return s + ".$substring(" + num() + ")"
		case 14:
			return "$base64encode(" + s + ")"
		default:
			return "$encodeUrlComponent(" + s + ")"
		}
	case "transform":
		pat := g.pick("$", "a", "a.b", "*", "**", "a[b = 1]", "$$", "$v", "$v.a", "$w", "a[0]", "**[k = 1]", "c", "$$.a")
		upd := g.pick(`{"z": 1}`, `{"a": 2}`, `{"b": {"q": 1}}`, `{"n": $count($keys($))}`, `{"k": k + 1}`, `{"z": $$.b}`, "5", `"x"`, "nothing", `{}`, `[{"z": 1}]`)
		del := g.pick("", "", `, "a"`, `, ["a", "b"]`, ", 1", `, "nope"`, ", nothing", `, ["a", 1]`, `, "k"`)
		t := "|" + pat + "|" + upd + del + "|"
		switch g.r.Intn(8) {
		case 0:
			return "$map(" + g.pick("a", "$", "[$, $]", "c") + ", " + t + ")"
		case 1:
			return "$ ~> " + t + " ~> |" + g.pick("$", "a", "**") + "|" + g.pick(`{"y": 2}`, `{"z": 3}`) + "|"
		case 2:
			return "$ ~> |" + g.pick("$", "a") + `|{"c": $ ~> ` + t + "}|"
		case 3:
			return "(" + g.pick("a", "$", "c") + ") ~> " + t
		case 4:
			return "[$ ~> " + t + ", $]"
		case 5:
			return "($t := " + t + "; [$t($), $t(" + g.pick("a", "c", "$") + ")])"
		case 6:
			return "($t := " + t + `; $both := |$|{"y": 2}| ~> $t; [$both($), $t($), $ ~> $t])`
		default:
			return "$ ~> " + t
		}
	case "sort":
		return g.pick("$", "a", "$[k >= 0]") + "^(" + g.pick("", "<", ">") + g.pick("k", "s", "a") + g.pick("", ", >s", ", <k", ", >a") + ")" + g.pick("", ".id", ".id")
	default:
		return g.expr(3)
	}
}

// random JSON texts (C11): documents written with random escape forms, number spellings and whitespace
func (g *gen) jsonText(v interface{}, d int) string {
	ws := func() string { return g.pick("", "", "", " ", "\n", "\t ", "  ") }
	switch x := v.(type) {
	case nil:
		return "null"
	case bool:
		if x {
			return "true"
		}
		return "false"
	case float64:
		switch g.r.Intn(6) {
		case 0:
			return fmt.Sprintf("%ve0", x)
		case 1:
			if x == float64(int64(x)) {
				return fmt.Sprintf("%d.0", int64(x))
			}
		case 2:
			if x == float64(int64(x)) && x != 0 {
				return fmt.Sprintf("%de-0", int64(x))
			}
		}
		b, _ := json.Marshal(x)
		return string(b)
	case string:
		var sb strings.Builder
		sb.WriteByte('"')
		for _, r := range x {
			switch {
			case r == '"' || r == '\\':
				sb.WriteByte('\\')
				sb.WriteRune(r)
			case r < 32:
				fmt.Fprintf(&sb, "\\u%04x", r)
			case g.chance(0.2) && r < 0x10000:
				fmt.Fprintf(&sb, "\\u%04X", r)
			case g.chance(0.3) && r >= 0x10000:
				r1, r2 := utf16.EncodeRune(r)
				fmt.Fprintf(&sb, "\\u%04x\\u%04x", r1, r2)
			case r == '/' && g.chance(0.5):
				sb.WriteString("\\/")
			default:
				sb.WriteRune(r)
			}
		}
		sb.WriteByte('"')
		return sb.String()
	case []interface{}:
		parts := make([]string, len(x))
		for i := range x {
			parts[i] = ws() + g.jsonText(x[i], d+1) + ws()
		}
		return "[" + ws() + strings.Join(parts, ",") + "]"
	case map[string]interface{}:
		parts := []string{}
		for k, e := range x {
			parts = append(parts, ws()+g.jsonText(k, d+1)+ws()+":"+ws()+g.jsonText(e, d+1))
		}
		return "{" + strings.Join(parts, ",") + ws() + "}"
	}
	return "null"
}

func (g *gen) jsonLeaf() interface{} {
	switch g.r.Intn(10) {
	case 0:
		return nil
	case 1:
		return g.r.Intn(2) == 0
	case 2, 3:
		return float64(g.r.Intn(2000)-1000) / float64([]int{1, 2, 4, 8, 10, 100}[g.r.Intn(6)])
	case 4:
		return float64(g.r.Int63n(1 << 60))
	default:
		pool := []rune("ab \"\\/$.[]{}`'é€😀\n\t\u0001Zz09*/|:;~?()&\u00a0\u00ff\ufffd")
		n := g.r.Intn(6)
		rs := make([]rune, n)
		for i := range rs {
			rs[i] = pool[g.r.Intn(len(pool))]
		}
		return string(rs)
	}
}

func (g *gen) jsonDoc(d int) interface{} {
	if d <= 0 || g.chance(0.3) {
		return g.jsonLeaf()
	}
	if g.chance(0.5) {
		n := g.r.Intn(4)
		a := make([]interface{}, n)
		for i := range a {
			a[i] = g.jsonDoc(d - 1)
		}
		return a
	}
	m := map[string]interface{}{}
	for i, n := 0, g.r.Intn(4); i < n; i++ {
		k, _ := g.jsonLeaf().(string)
		m[k+string(rune('a'+i))] = g.jsonDoc(d - 1)
	}
	return m
}

// compile-mode inputs for C08: random bytes, token soup, and random edits of valid programs
var soupTokens = []string{"99999999999999999999", "9223372036854775808", "18446744073709551616", "1e999", "1e-999", "0.00000000000000000000000000001", "123456789012345678901234567890.5", "``", "`a b`", "a", "$x", "$", "$$", "1", "1.5", "1e3", "\"s\"", "'s'", "`n`", "/r/", "/r/i", "(", ")", "[", "]", "{", "}", ".", "..", ",", ";", ":", ":=",
	"?", "+", "-", "*", "**", "/", "%", "|", "=", "!=", "<", "<=", ">", ">=", "~>", "^", "&", "and", "or", "in", "true", "false", "null", "function", "λ", "!", "~", "@", "#", "é", "\\", "\"", "'", "`", " ", "\n", "<n:n>", "<a<s>>"}

// a name, a variable, a number or a string literal
var reWordToken = regexp.MustCompile(`\$?[A-Za-z_][A-Za-z0-9_]*|[0-9]+(\.[0-9]+)?|"[^"\\]*"`)

func (g *gen) compileInput() []byte {
	switch g.r.Intn(6) {
	case 0: // random bytes
		n := g.r.Intn(24)
		b := make([]byte, n)
		for i := range b {
			b[i] = byte(g.r.Intn(256))
		}
		return b
	case 1, 2: // token soup
		n := 1 + g.r.Intn(7)
		var sb strings.Builder
		for i := 0; i < n; i++ {
			sb.WriteString(soupTokens[g.r.Intn(len(soupTokens))])
			if g.chance(0.3) {
				sb.WriteByte(' ')
			}
		}
		return []byte(sb.String())
	case 3: // one whole token of a valid generated program replaced by a token of another class
		saved := g.prof
		g.prof = []string{"mix", "paths", "preds", "ops", "calls", "blocks", "sort", "group", "transform"}[g.r.Intn(9)]
		src := g.program()
		g.prof = saved
		locs := reWordToken.FindAllStringIndex(src, -1)
		if len(locs) == 0 {
			return []byte(src)
		}
		l := locs[g.r.Intn(len(locs))]
		repl := g.pick("1", `"c"`, "true", "null", "-1", "1.5", "$", "$$", "*", "**", "%", "(a)", "[a]", "{}", "?", "function($x){$x}", "/a/", "and", "in")
		return []byte(src[:l[0]] + repl + src[l[1]:])
	default: // one to three random edits of a valid generated program
		saved := g.prof
		g.prof = []string{"mix", "paths", "preds", "ops", "calls", "blocks", "sort", "group", "transform"}[g.r.Intn(9)]
		b := []byte(g.program())
		g.prof = saved
		alphabet := []byte("\"'\\u0d89.e-+/`<>()[]{}!~$?:,|; a\n")
		for k := 1 + g.r.Intn(3); k > 0 && len(b) > 0; k-- {
			i := g.r.Intn(len(b))
			c := alphabet[g.r.Intn(len(alphabet))]
			switch g.r.Intn(5) {
			case 0:
				b = append(b[:i:i], b[i+1:]...)
			case 1:
				b = append(b[:i:i], append([]byte{c}, b[i:]...)...)
			case 2:
				b[i] = c
			case 3:
				b = append(b[:i:i], append([]byte{b[i]}, b[i:]...)...)
			default:
				b = b[:i]
			}
		}
		return b
	}
}

func genMain(args []string) {
	fs := flag.NewFlagSet("gen", flag.ExitOnError)
	prof := fs.String("profile", "mix", "generator profile")
	seed := fs.Int64("seed", 1, "seed")
	n := fs.Int("n", 1000, "cases")
	start := fs.Int("start", 1, "first id")
	fam := fs.String("fam", "V", "family tag")
	nulls := fs.Bool("nulls", false, "allow JSON null in documents")
	shared := fs.Bool("shared", false, "build documents with physically shared sub-structures and bind variables to input nodes")
	out := fs.String("out", "", "cases file (appended)")
	fs.Parse(args)
	f, err := os.OpenFile(*out, os.O_APPEND|os.O_CREATE|os.O_WRONLY, 0o644)
	if err != nil {
		fmt.Fprintln(os.Stderr, err)
		os.Exit(2)
	}
	defer f.Close()
	w := bufio.NewWriter(f)
	defer w.Flush()
	g := &gen{r: rand.New(rand.NewSource(*seed)), prof: *prof, nulls: *nulls}
	if *shared {
		g.vars = []string{"v", "w"}
	}
	for i := 0; i < *n; i++ {
		if *prof == "numlits" {
			// number literals of many digits as programs (C11)
			r := g.r
			n := 14 + r.Intn(7)
			ds := make([]byte, n)
			for k := range ds {
				ds[k] = byte('0' + r.Intn(10))
			}
			if ds[0] == '0' {
				ds[0] = '1'
			}
			txt := string(ds)
			switch r.Intn(4) {
			case 0:
				k := 1 + r.Intn(n-1)
				txt = txt[:k] + "." + txt[k:]
			case 1:
				txt += fmt.Sprintf("e%d", r.Intn(40)-20)
			case 2:
				txt = "0." + txt
			}
			b, _ := json.Marshal(M{"id": *start + i, "fam": *fam, "mode": "num", "flags": M{"calls": []interface{}{M{"fn": "literal", "s": cps(txt)}}}})
			w.Write(b)
			w.WriteByte('\n')
			continue
		}
		if *prof == "numops" {
			ops := []string{"+", "-", "*", "/", "%", "%", "<", "<=", ">", ">=", "=", "!=", "&", ".."}
			x, y := g.numX(), g.numX()
			switch g.r.Intn(4) {
			case 0:
				x["e"] = x["e"].(int) + g.r.Intn(40)
			case 1:
				y["e"] = y["e"].(int) + g.r.Intn(25)
			case 2:
				// whole numbers
				x["e"], y["e"] = g.r.Intn(22), g.r.Intn(4)
			}
			c := M{"fn": "op", "op": ops[g.r.Intn(len(ops))], "xd": x, "yd": y}
			if c["op"] == ".." {
				// whole-number bounds a few items or far more than the limit apart (never millions of items)
				x["e"] = g.r.Intn(3)
				lo := 0
				for _, d := range x["ds"].([]interface{}) {
					lo = lo*10 + d.(int)
					if lo > 100000 {
						break
					}
				}
				if lo <= 100000 && x["e"].(int) == 0 && g.r.Intn(2) == 0 {
					hi := lo + []int{0, 1, 5, 1000, -3}[g.r.Intn(5)]
					if x["sg"].(int) < 0 {
						hi = -lo + []int{0, 1, 5, 1000, -3}[g.r.Intn(5)]
					}
					sg := 1
					if hi < 0 {
						sg, hi = -1, -hi
					}
					ds := []interface{}{}
					for _, ch := range strconv.Itoa(hi) {
						ds = append(ds, int(ch-'0'))
					}
					c["yd"] = M{"sg": sg, "ds": ds, "e": 0}
				} else {
					// far more than the limit of ten million items (never a size that is allowed but takes minutes)
					c["yd"] = M{"sg": 1, "ds": x["ds"], "e": x["e"].(int) + 9 + g.r.Intn(12)}
				}
			}
			if g.r.Intn(5) == 0 {
				c["yd"] = x
				c["ynudge"] = g.r.Intn(3) - 1
			}
			b, _ := json.Marshal(M{"id": *start + i, "fam": *fam, "mode": "num", "flags": M{"calls": []interface{}{c}}})
			w.Write(b)
			w.WriteByte('\n')
			continue
		}
		if *prof == "numfmt" {
			b, _ := json.Marshal(M{"id": *start + i, "fam": *fam, "mode": "num", "flags": M{"calls": g.numCalls()}})
			w.Write(b)
			w.WriteByte('\n')
			continue
		}
		if *prof == "clock" {
			b, _ := json.Marshal(M{"id": *start + i, "fam": *fam, "mode": "date", "flags": M{"fn": "clock", "variant": i % 4}})
			w.Write(b)
			w.WriteByte('\n')
			continue
		}
		if *prof == "dates" {
			// sweep over the days 1000-01-01 .. 9999-12-31: n cases spread evenly (every day when n is large enough)
			const first, last = -354285, 2932896
			span := last - first + 1
			day := first + int(int64(i)*int64(span)/int64(*n))
			msod := []int{0, 43200000, 45296789, 86399999, 3600000, 82800000}[i%6]
			if i%7 == 3 {
				msod = g.r.Intn(86400000)
			}
			fl := M{"day": day, "msod": msod}
			switch i % 4 {
			case 0:
				fl["fn"] = "from"
				fl["pic"] = cps("[Y0001]-[M01]-[D01] [FNn] [d] [W] [h]:[m01]:[s01] [P] [MNn] [d1o] [D1o] [Y1o] [W1o]")
			case 1:
				fl["fn"] = "rt"
				off := (g.r.Intn(113) - 56) * 15
				sign := "+"
				if off < 0 {
					sign, off = "-", -off
				}
				fl["tz"] = cps(fmt.Sprintf("%s%02d%02d", sign, off/60, off%60))
			case 2:
				fl["fn"] = "from"
				off := (g.r.Intn(113) - 56) * 15
				sign := "+"
				if off < 0 {
					sign, off = "-", -off
				}
				fl["tz"] = cps(fmt.Sprintf("%s%02d%02d", sign, off/60, off%60))
			default:
				fl["fn"] = "from"
				fl["pic"] = cps("[D1o] [MNn,3-3] [Y,2-2] [H01][m][s].[f001] [Z0101] [FN,*-3]")
				fl["tz"] = cps(g.pick("+0000", "-0800", "+0530", "-0030", "+1400"))
			}
			b, _ := json.Marshal(M{"id": *start + i, "fam": *fam, "mode": "date", "flags": fl})
			w.Write(b)
			w.WriteByte('\n')
			continue
		}
		if *prof == "jsonbytes" {
			// JSON documents and malformed neighbours as input bytes of EvalBytes (C10)
			b := []byte(g.jsonText(g.jsonDoc(3), 0))
			if g.chance(0.6) && len(b) > 0 {
				k := g.r.Intn(len(b) + 1)
				junk := "}]\",:1 \\{[\x00ntx-.e"
				switch g.r.Intn(5) {
				case 0:
					if k < len(b) {
						b = append(b[:k:k], b[k+1:]...)
					}
				case 1:
					if k < len(b) {
						b[k] = junk[g.r.Intn(len(junk))]
					}
				case 2:
					b = b[:k]
				case 3:
					b = append(b, junk[g.r.Intn(len(junk))])
				default:
					b = append(b[:k:k], append([]byte{junk[g.r.Intn(len(junk))]}, b[k:]...)...)
				}
			}
			line, _ := json.Marshal(M{"id": *start + i, "fam": *fam, "mode": "evalbytes", "bytes": bytesJSON(b)})
			w.Write(line)
			w.WriteByte('\n')
			continue
		}
		if *prof == "jsontext" {
			txt := g.jsonText(g.jsonDoc(3), 0)
			if g.chance(0.15) && len(txt) > 0 { // a malformed neighbour
				b := []byte(txt)
				i := g.r.Intn(len(b))
				switch g.r.Intn(3) {
				case 0:
					b = append(b[:i:i], b[i+1:]...)
				case 1:
					b[i] = "\\\"u1e-.,:]}"[g.r.Intn(11)]
				default:
					b = b[:i]
				}
				txt = string(b)
			}
			b, _ := json.Marshal(M{"id": *start + i, "fam": *fam, "mode": "denote", "bytes": bytesJSON([]byte(txt))})
			w.Write(b)
			w.WriteByte('\n')
			continue
		}
		if *prof == "progtext" {
			// valid generated programs of every family, as compile-mode cases (C04)
			saved := g.prof
			g.prof = []string{"mix", "paths", "preds", "ops", "calls", "blocks", "sort", "group", "transform"}[g.r.Intn(9)]
			src := g.program()
			g.prof = saved
			if g.chance(0.3) {
				src = strings.ReplaceAll(src, " ", g.pick("  ", "\n", " \t "))
			}
			if g.chance(0.2) {
				src = strings.ReplaceAll(src, "\"", "'")
			}
			b, _ := json.Marshal(M{"id": *start + i, "fam": *fam, "mode": "compile", "bytes": bytesJSON([]byte(src))})
			w.Write(b)
			w.WriteByte('\n')
			continue
		}
		if *prof == "compile" {
			b, _ := json.Marshal(M{"id": *start + i, "fam": *fam, "mode": "compile", "bytes": bytesJSON(g.compileInput())})
			w.Write(b)
			w.WriteByte('\n')
			continue
		}
		var d interface{}
		switch {
		case *prof == "transform" && g.chance(0.6):
			inner := map[string]interface{}{"b": float64(g.r.Intn(3)), "k": float64(g.r.Intn(2))}
			if g.chance(0.5) {
				inner["a"] = map[string]interface{}{"b": float64(1), "c": []interface{}{float64(1), map[string]interface{}{"k": float64(1)}}}
			}
			d = map[string]interface{}{"a": g.pick2(inner, []interface{}{inner, map[string]interface{}{"b": float64(1), "k": float64(1)}}), "b": "s", "c": []interface{}{map[string]interface{}{"k": float64(1)}, float64(2)}}
			if g.nulls && g.chance(0.3) {
				d.(map[string]interface{})["n"] = nil
			}
		case *prof == "sort" || *prof == "group" || (*prof == "mix" && g.chance(0.2)):
			k := 2 + g.r.Intn(6)
			if g.chance(0.3) {
				k = 13 + g.r.Intn(40)
			}
			if g.chance(0.5) {
				d = g.records(k)
			} else {
				d = map[string]interface{}{"a": g.records(k)}
			}
		default:
			d = g.doc(3)
			if m, ok := d.(map[string]interface{}); ok && g.chance(0.3) {
				m["idx"] = []interface{}{float64(0), float64(g.r.Intn(3))}
			}
		}
		pd, err := project(d)
		if err != nil {
			continue
		}
		src := g.program()
		rec := M{"id": *start + i, "fam": *fam, "src": src, "inp": pd}
		if *shared {
			rec["flags"] = M{"share": true, "bindinput": true}
		}
		b, _ := json.Marshal(rec)
		w.Write(b)
		w.WriteByte('\n')
	}
}

func selftestMain() {}

// ---- C18: random doubles, pictures from the decimal-format grammar, mutations, custom formats ----

func (g *gen) numX() M {
	r := g.r
	n := 1 + r.Intn(7)
	switch r.Intn(6) {
	case 0:
		n = 15 + r.Intn(3)
	case 1:
		n = 1
	}
	ds := make([]interface{}, n)
	for i := range ds {
		ds[i] = r.Intn(10)
	}
	if ds[0].(int) == 0 {
		ds[0] = 1 + r.Intn(9)
	}
	if r.Intn(3) == 0 {
		ds[n-1] = 5 // a tie at some precision
	}
	e := -n + r.Intn(8) - 2
	switch r.Intn(8) {
	case 0:
		e = r.Intn(34) - 12 - n
	case 1:
		e = -r.Intn(7)
	}
	sg := 1
	if r.Intn(3) == 0 {
		sg = -1
	}
	if r.Intn(25) == 0 {
		ds = []interface{}{0}
		e = 0
	}
	return M{"sg": sg, "ds": ds, "e": e}
}

func (g *gen) numPicture() string {
	r := g.r
	pick := func(a ...string) string { return a[r.Intn(len(a))] }
	sub := func() string {
		ip := pick("0", "#", "00", "#0", "##0", "#,##0", "#,###", "0,000", "00,00", "#,##,##0", "#,###,#0", "#,#,##0", "#,##0,0", "0000,000", "", "#,##0", "###,###,##0", "0,0,0", "#,#00,00")
		fp := pick("", ".0", ".00", ".#", ".0#", ".##", ".000", ".0,0", ".0,00,0", ".00,0#", ".######", ".", ".0##,###", ".00")
		ex := ""
		if r.Intn(5) == 0 {
			ex = pick("e0", "e00", "e000")
		}
		pre := pick("", "", "$", "a ", "(", "EUR ")
		suf := pick("", "", "%", "\u2030", " u", ")", "% of", " CR")
		return pre + ip + fp + ex + suf
	}
	p := sub()
	if r.Intn(4) == 0 {
		p += ";" + sub()
	}
	if r.Intn(4) == 0 {
		// one mutation: insert, delete or replace a character
		rs := []rune(p)
		alphabet := []rune(".,x#0;%e1 -")
		k := r.Intn(len(rs) + 1)
		switch r.Intn(3) {
		case 0:
			rs = append(rs[:k], append([]rune{alphabet[r.Intn(len(alphabet))]}, rs[k:]...)...)
		case 1:
			if k < len(rs) {
				rs = append(rs[:k], rs[k+1:]...)
			}
		case 2:
			if k < len(rs) {
				rs[k] = alphabet[r.Intn(len(alphabet))]
			}
		}
		p = string(rs)
	}
	return p
}

func (g *gen) numOpts() (M, func(string) string) {
	r := g.r
	id := func(s string) string { return s }
	switch r.Intn(8) {
	case 0:
		return M{"dec": int(','), "grp": int('.')}, func(s string) string {
			return strings.Map(func(c rune) rune {
				switch c {
				case '.':
					return ','
				case ',':
					return '.'
				}
				return c
			}, s)
		}
	case 1:
		return M{"zero": 0x660}, func(s string) string {
			return strings.Map(func(c rune) rune {
				if c >= '0' && c <= '9' {
					return 0x660 + c - '0'
				}
				return c
			}, s)
		}
	case 2:
		return M{"digit": int('@'), "psep": int('|'), "minus": int('~'), "exp": int('E')}, func(s string) string {
			return strings.NewReplacer("#", "@", ";", "|", "e", "E").Replace(s)
		}
	case 3:
		return M{"pct": cps("pc"), "pml": cps("pm")}, func(s string) string {
			return strings.NewReplacer("%", "pc", "\u2030", "pm").Replace(s)
		}
	}
	return nil, id
}

func (g *gen) numCalls() []interface{} {
	r := g.r
	one := func() M {
		switch r.Intn(10) {
		case 0, 1:
			c := M{"fn": "round", "xd": g.numX()}
			if r.Intn(5) > 0 {
				c["p"] = r.Intn(19) - 6
			}
			if r.Intn(4) == 0 {
				c["nudge"] = 1 - 2*r.Intn(2)
			}
			return c
		case 2:
			c := M{"fn": []string{"string", "numrt"}[r.Intn(2)], "xd": g.numX()}
			if r.Intn(3) == 0 {
				c["nudge"] = 1 - 2*r.Intn(2)
			}
			return c
		}
		o, tr := g.numOpts()
		p := g.numPicture()
		if r.Intn(6) > 0 {
			p = tr(p)
		}
		c := M{"fn": "fmt", "xd": g.numX(), "pic": cps(p)}
		if o != nil {
			c["opts"] = o
		}
		return c
	}
	n := 1
	if r.Intn(4) == 0 {
		n = 2 + r.Intn(3)
	}
	calls := []interface{}{}
	for i := 0; i < n; i++ {
		c := one()
		if i > 0 && c["fn"] == "fmt" && r.Intn(2) == 0 {
			// the same picture text again, under another format
			for j := i - 1; j >= 0; j-- {
				if pc := calls[j].(M); pc["fn"] == "fmt" {
					c["pic"] = pc["pic"]
					break
				}
			}
		}
		calls = append(calls, c)
	}
	return calls
}
