package main

// Date-mode cases (C19): $fromMillis / $toMillis called through the real API with an instant
// given as (day, millisecond of day); the outcome is recorded in the same terms.

import (
	"fmt"
	"strconv"
	"time"

	jsonata "github.com/blues/jsonata-go"
)

func quoteJ(s string) string { return quoteStr(s) }

func splitMs(x int64) []interface{} {
	d := x / 86400000
	m := x % 86400000
	if m < 0 {
		m += 86400000
		d--
	}
	return []interface{}{int(d), int(m)}
}

// runClockCase: $millis() and $now() read inside one evaluation, while the wall clock advances
// (a sleeping extension), while the same goroutine runs another evaluation in between (an extension
// that evaluates another expression) and while other goroutines evaluate concurrently.
func runClockCase(rq *request) M {
	variant := toInt(rq.Flags["variant"])
	ev := M{"id": rq.ID, "ev": "Date", "fam": rq.Fam, "fn": "clock", "variant": variant}
	inner := jsonata.MustCompile(`$millis()`)
	exts := map[string]jsonata.Extension{
		"slow": {Func: func() float64 { time.Sleep(3 * time.Millisecond); return 0 }},
		"inner": {Func: func() float64 {
			time.Sleep(2 * time.Millisecond)
			v, _ := inner.Eval(nil)
			f, _ := v.(float64)
			return f * 0
		}},
	}
	src := `[$millis(), $slow(), $millis(), $toMillis($now()), $inner(), $millis(), $toMillis($now())]`
	if variant == 1 || variant == 2 {
		// $now() is the first to read the clock, $millis() follows after the pause
		src = `[$toMillis($now()), $slow(), $millis(), $toMillis($now()), $inner(), $millis(), $toMillis($now())]`
	}
	e := jsonata.MustCompile(src)
	e.RegisterExts(exts)
	stop := make(chan struct{})
	if variant == 3 {
		// the same compiled expression evaluated by another goroutine in the meantime
		go func() {
			for {
				select {
				case <-stop:
					return
				default:
					e.Eval(nil)
				}
			}
		}()
		time.Sleep(time.Millisecond)
	}
	t0 := time.Now().UnixNano() / int64(time.Millisecond)
	res, err := e.Eval(nil)
	t1 := time.Now().UnixNano() / int64(time.Millisecond)
	close(stop)
	ev["src"] = cps(src)
	ev["t0"], ev["t1"] = splitMs(t0), splitMs(t1)
	if err != nil {
		ev["out"] = classifyErr(err)
		return ev
	}
	arr, _ := res.([]interface{})
	vals := []interface{}{}
	for i, x := range arr {
		if i == 1 || i == 4 {
			continue
		}
		var n int64
		switch v := x.(type) {
		case float64:
			n = int64(v)
		case int64:
			n = v
		case int:
			n = int64(v)
		default:
			ev["out"] = M{"o": "bad", "why": fmt.Sprintf("non-numeric clock value %T", x)}
			return ev
		}
		vals = append(vals, splitMs(n))
	}
	ev["vals"] = vals
	ev["out"] = M{"o": "val"}
	return ev
}

func runDateCase(rq *request) M {
	f := rq.Flags
	fn := gs(f, "fn")
	if fn == "clock" {
		return runClockCase(rq)
	}
	ev := M{"id": rq.ID, "ev": "Date", "fam": rq.Fam, "fn": fn}
	day, msod := int64(toInt(f["day"])), int64(toInt(f["msod"]))
	ms := day*86400000 + msod
	pic, hasPic := f["pic"]
	tz, hasTz := f["tz"]
	picArg := "()"
	if hasPic {
		picArg = quoteJ(cpsToString(pic))
		ev["pic"] = pic
	}
	var src string
	switch fn {
	case "from", "rt":
		ev["day"], ev["msod"] = int(day), int(msod)
		src = "$fromMillis(" + strconv.FormatInt(ms, 10)
		if hasPic || hasTz {
			src += ", " + picArg
		}
		if hasTz {
			src += ", " + quoteJ(cpsToString(tz))
			ev["tz"] = tz
		}
		src += ")"
		if fn == "rt" {
			if hasPic {
				src = "$toMillis(" + src + ", " + picArg + ")"
			} else {
				src = "$toMillis(" + src + ")"
			}
		}
	case "to":
		ev["s"] = f["s"]
		src = "$toMillis(" + quoteJ(cpsToString(f["s"])) + ")"
		if hasPic {
			src = "$toMillis(" + quoteJ(cpsToString(f["s"])) + ", " + picArg + ")"
		}
	default:
		ev["out"] = M{"o": "bad", "why": "unknown date function"}
		return ev
	}
	ev["src"] = cps(src)
	if w, ok := f["warm"]; ok {
		// another call made first in the same process: what it leaves behind must not change this one
		if we, werr, wp := safeCompile(cpsToString(w)); werr == nil && wp == nil {
			safeEval(we, nil)
		}
		ev["warm"] = w
	}
	e, cerr, cp := safeCompile(src)
	if cp != nil {
		ev["out"] = M{"o": "panic", "site": cp.site, "msg": cp.msg}
		return ev
	}
	if cerr != nil {
		ev["out"] = M{"o": "bad", "why": "compile: " + cerr.Error()}
		return ev
	}
	out := M{}
	func() {
		defer func() {
			if r := recover(); r != nil {
				p := capturePanic(r)
				out = M{"o": "panic", "site": p.site, "msg": p.msg}
			}
		}()
		res, err := e.Eval(nil)
		if err != nil {
			out = classifyErr(err)
			return
		}
		switch v := res.(type) {
		case string:
			out = M{"o": "val", "s": cps(v)}
		case float64, int64, int:
			var x int64
			switch n := v.(type) {
			case float64:
				x = int64(n)
				if float64(x) != n {
					out = M{"o": "val", "frac": fmt.Sprint(n)}
					return
				}
			case int64:
				x = n
			case int:
				x = int64(n)
			}
			d := x / 86400000
			m := x % 86400000
			if m < 0 {
				m += 86400000
				d--
			}
			if d > 4000000 || d < -4000000 {
				out = M{"o": "val", "far": fmt.Sprint(x)}
				return
			}
			out = M{"o": "val", "day": int(d), "msod": int(m)}
		default:
			out = M{"o": "unproj", "gotype": fmt.Sprintf("%T", res)}
		}
	}()
	ev["out"] = out
	return ev
}
