package main

// Observations of the regular-expression engine (C17): for every regex literal of the program and
// every string that occurs in the input, the registered variables or the program's string
// literals, the match list regexp reports - the environment step of JRegex.

import (
	"regexp"
	"unicode/utf8"
)

func collectAst(m interface{}, res map[string]bool, strs map[string]bool) {
	switch x := m.(type) {
	case []interface{}:
		for _, e := range x {
			collectAst(e, res, strs)
		}
	case map[string]interface{}:
		switch x["k"] {
		case "Regex":
			res[cpsToString(x["s"])] = true
		case "String":
			strs[cpsToString(x["s"])] = true
		}
		for k, v := range x {
			if k != "s" {
				collectAst(v, res, strs)
			}
		}
	}
}

func collectStrings(v interface{}, strs map[string]bool) {
	switch x := v.(type) {
	case string:
		strs[x] = true
	case []interface{}:
		for _, e := range x {
			collectStrings(e, strs)
		}
	case map[string]interface{}:
		for _, e := range x {
			collectStrings(e, strs)
		}
	}
}

func engineObservations(ast M, input interface{}, vars map[string]interface{}) []interface{} {
	res, strs := map[string]bool{}, map[string]bool{}
	collectAst(map[string]interface{}(ast), res, strs)
	if len(res) == 0 {
		return nil
	}
	collectStrings(input, strs)
	for _, v := range vars {
		collectStrings(v, strs)
	}
	out := []interface{}{}
	for pat := range res {
		re, err := regexp.Compile(pat)
		if err != nil {
			continue
		}
		for s := range strs {
			if len(s) > 64 || len(out) > 300 {
				continue
			}
			idx := re.FindAllStringSubmatchIndex(s, -1)
			// byte offset -> code-point offset
			cp := make([]int, len(s)+1)
			n := 0
			for i := 0; i < len(s); {
				_, w := utf8.DecodeRuneInString(s[i:])
				for j := 0; j < w; j++ {
					cp[i+j] = n
				}
				i += w
				n++
			}
			cp[len(s)] = n
			ms := make([]interface{}, len(idx))
			bi := make([]interface{}, len(idx))
			for i, m := range idx {
				row := make([]interface{}, len(m))
				for j, b := range m {
					if b < 0 {
						row[j] = -1
					} else {
						row[j] = cp[b]
					}
				}
				ms[i] = row
				bi[i] = []interface{}{m[0], m[1]}
			}
			out = append(out, M{"re": cps(pat), "subj": cps(s), "ms": ms, "bi": bi})
		}
	}
	return out
}
