package main

// Free-running concurrency (C06, V direction): goroutines loop over Eval of generated programs
// with goroutine-specific inputs - on shared and on private compiled expressions, alongside
// Compile and package-level registration - in a -race build.  Every distinct outcome observed
// for a (program, input) pair is recorded as one Eval step for trace validation against the
// sequential semantics; the race detector's reports are collected by the driver.

import (
	"bufio"
	"encoding/json"
	"flag"
	"fmt"
	"math/rand"
	"os"
	"sync"
	"time"

	jsonata "github.com/blues/jsonata-go"
)

func concMain(args []string) {
	fs := flag.NewFlagSet("conc", flag.ExitOnError)
	seed := fs.Int64("seed", 1, "seed")
	ng := fs.Int("g", 8, "goroutines")
	nprog := fs.Int("programs", 40, "programs")
	dur := fs.Duration("dur", 3*time.Second, "duration")
	out := fs.String("out", "", "trace file")
	fs.Parse(args)
	r := rand.New(rand.NewSource(*seed))
	g := &gen{r: r, prof: "mix"}
	profiles := []string{"mix", "calls", "blocks", "paths", "sort", "transform", "rx", "str"}
	fixed := []string{`a.$substringBefore("z")`, `b.c.$substringAfter("z")`, `a.$substringBefore($$.b.c.$substringBefore("z"))`, `$uppercase()`, `a ~> $substringBefore("z") ~> $length()`,
		`$pad(?, 9, "-")(a)`, `$map(c, function($v){$v.$string()})`, `$ ~> |b|{"z": $$.a}|`, `c^($)`, `$replace(a, /z/, "Z")`, `[$millis() = $millis(), $now() = $now()]`, `$string(c)`,
		// deep recursion and long loops: whatever an evaluation counts or accumulates is its own
		`($f := function($n){$n <= 0 ? 0 : 1 + $f($n - 1)}; $f(400))`,
		`($f := function($n, $acc){$n <= 0 ? $acc : $f($n - 1, $acc + $n)}; $f(150, 0))`,
		`$reduce([1..200], function($a, $b){$a + $b})`, `$count($map([1..100], function($v){$string($v)}))`,
		`$sum($map([1..200], function($v){$length($string($v))}))`,
		// built-ins that return a new array or object made from members of the input
		`$append(c, [k, id])`, `$append(n, s)`, `$count($append(c, n))`, `$reverse(n)`, `$sort(n)`, `n^($)`, `c^(>$string($))`, `$distinct($append(n, n))`, `$zip(c, n)`,
		`$merge([b, {"k": k}])`, `$shuffle(n) ~> $sort`, `$ ~> |b|{"k": $$.k}|`, `$map(n, function($v){$v * k})`, `$filter(n, function($v){$v > k})`, `$join(c.$string(), s)`}
	var progs []string
	for i := 0; i < *nprog; i++ {
		if i < len(fixed) {
			progs = append(progs, fixed[i])
			continue
		}
		g.prof = profiles[r.Intn(len(profiles))]
		progs = append(progs, g.program())
	}
	shared := make([]*jsonata.Expr, len(progs))
	for i, p := range progs {
		e, err := jsonata.Compile(p)
		if err == nil {
			shared[i] = e
		}
	}
	type rec struct {
		src string
		inp M
		out M
		ast M
	}
	var mu sync.Mutex
	seen := map[string]bool{}
	var recs []rec
	var sharedDoc interface{}
	json.Unmarshal([]byte(`{"a": "shzqsh", "b": {"c": "shyzw"}, "c": [7, 8, "sh"], "k": 7, "id": 7, "s": "sh", "flag": true, "n": [5, 3, 4, 1, 2]}`), &sharedDoc)
	sharedProj, _ := project(sharedDoc)
	var wg sync.WaitGroup
	stop := time.Now().Add(*dur)
	evals := make([]int, *ng)
	for gi := 0; gi < *ng; gi++ {
		wg.Add(1)
		go func(gi int) {
			defer wg.Done()
			lr := rand.New(rand.NewSource(*seed*1000 + int64(gi)))
			tag := fmt.Sprintf("g%d", gi)
			// documents are decoded from JSON text, as a caller's would be (decoded arrays have spare capacity)
			var doc interface{}
			json.Unmarshal([]byte(fmt.Sprintf(`{"a": "%szq%s", "b": {"c": "%syzw"}, "c": [%d, %d, "%s"], "k": %d, "id": %d, "s": "%s", "flag": %v, "n": [5, 3, 4, 1, 2]}`,
				tag, tag, tag, gi, gi+1, tag, gi, gi, tag, gi%2 == 0)), &doc)
			pd, _ := project(doc)
			own := make([]*jsonata.Expr, len(progs))
			for time.Now().Before(stop) {
				i := lr.Intn(len(progs))
				var e *jsonata.Expr
				mode := lr.Intn(4)
				if time.Until(stop) > *dur/2 {
					// first half: all goroutines evaluate the same shared expression at the same time, one
					// program after the other (whatever an evaluation does to a compiled expression while it
					// runs is then seen by the others)
					i = int(time.Since(stop.Add(-*dur))/(15*time.Millisecond)) % len(progs)
					mode = 3
				}
				switch mode {
				case 0: // private expression, compiled concurrently with everything else
					if own[i] == nil {
						own[i], _ = jsonata.Compile(progs[i])
					}
					e = own[i]
				case 1: // package-level registration alongside Compile
					jsonata.RegisterVars(map[string]interface{}{"conc_" + tag: float64(gi)})
					e, _ = jsonata.Compile(progs[i])
				default:
					e = shared[i]
				}
				if e == nil {
					continue
				}
				// every third evaluation reads one document that all goroutines share (inputs are read-only by C07)
				d, dp, dtag := doc, pd, tag
				if lr.Intn(3) == 0 {
					d, dp, dtag = sharedDoc, sharedProj, "shared"
				}
				o := safeEval(e, d)
				evals[gi]++
				key := dtag + "|" + progs[i] + "|" + canon(o)
				mu.Lock()
				if !seen[key] {
					seen[key] = true
					recs = append(recs, rec{progs[i], dp, o, astOf(verifNode(e))})
				}
				mu.Unlock()
			}
		}(gi)
	}
	wg.Wait()
	f, err := os.Create(*out)
	if err != nil {
		fmt.Fprintln(os.Stderr, err)
		os.Exit(2)
	}
	defer f.Close()
	w := bufio.NewWriter(f)
	defer w.Flush()
	total := 0
	for _, n := range evals {
		total += n
	}
	for i, rc := range recs {
		b, _ := json.Marshal(M{"id": i + 1, "ev": "Eval", "fam": "C06", "src": cps(rc.src), "ast": rc.ast, "inp": rc.inp, "binds": []interface{}{}, "out": rc.out})
		w.Write(b)
		w.WriteByte('\n')
	}
	fmt.Fprintf(os.Stderr, "conc: %d goroutines, %d evaluations, %d distinct (goroutine, program, outcome) records\n", *ng, total, len(recs))
}
