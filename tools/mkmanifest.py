#!/usr/bin/env python3
"""Regenerates MANIFEST.json from tools/families.py (one source of truth)."""
import json, os, sys, subprocess
sys.path.insert(0, os.path.dirname(os.path.abspath(__file__)))
import families

VERIF = os.path.dirname(os.path.dirname(os.path.abspath(__file__)))
props = [json.loads(l) for l in open(os.path.join(VERIF, "properties.jsonl"))]
hooks = subprocess.run(["git", "-C", "/repo", "log", "--format=%H %s"], capture_output=True, text=True).stdout.splitlines()
hook_commits = [l.split()[0] for l in hooks if l.split(" ", 1)[1].startswith("verif:")]

checks, na = [], []
for p in props:
    pid = p["id"]
    f = families.FAMILIES.get(pid)
    if not f or f.get("disabled"):
        na.append({"property_id": pid, "reason": families.NOT_YET.get(pid, "no check registered yet: the family's specification modules and conformance harness are not built")})
        continue
    checks.append({
        "property_id": pid,
        "quick_cmd": "./check %s --tier quick" % pid,
        "thorough_cmd": "./check %s --tier thorough" % pid,
        "evidence_file": "evidence/%s.json" % pid,
        "replay_cmd_template": "./check %s --replay {path}" % pid,
        "engine": "tlc",
        "level_claimed": {"category": "model_checking", "text": f["level_text"], "design_ref": f.get("design_ref", "DESIGN.md section 6, " + pid)},
        "level_note": f["level_note"],
        "technique": f.get("technique", "TLA+ specification checked by TLC, bound to the code by TLC-enumerated case replay and TLC trace validation"),
    })
m = {
    "version": 1,
    "setup_cmd": "./setup.sh",
    "hooks": {
        "guard": "verif",
        "enable": "go build -tags verif (the harness module replaces github.com/blues/jsonata-go by /repo, so every check rebuilds from /repo's working tree)",
        "baseline_off_cmd": "cd /repo && GOFLAGS=-mod=mod GOPROXY=off GOSUMDB=off GOTOOLCHAIN=local go test -vet=off -count=1 ./...",
        "source_commits": hook_commits,
        "add_only": True,
    },
    "engines": [{"name": "tlc", "path": "spec/", "serves_properties": [c["property_id"] for c in checks],
                 "kind_free_text": "TLA+ specification (spec/*.tla) model-checked by TLC 1.8; MC_* configs enumerate bounded case spaces whose cases are replayed into the real code; TraceEval/Trace* validate traces recorded from the real code"}],
    "checks": checks,
    "not_applicable": na,
    "notes": "See DESIGN.md. Exit codes: 0 held, 1 violation (VIOLATION lines), 2 infrastructure. Known findings: known_findings.json.",
}
json.dump(m, open(os.path.join(VERIF, "MANIFEST.json"), "w"), indent=1)
print("checks:", len(checks), "not_applicable:", len(na))
