"""Driver library for the /verif checks (DESIGN.md sections 5 and 10).

No semantics live here: the driver runs TLC on the specification, runs the Go
harness against the real code, hands the recorded trace back to TLC and turns
TLC's verdicts into the VIOLATION / KNOWN-FINDING protocol and the evidence file.
"""
import json, os, re, shutil, subprocess, sys, tempfile, time, hashlib

VERIF = os.path.dirname(os.path.dirname(os.path.abspath(__file__)))
# the tree under test; VERIF_REPO lets the seeded-change runner point the checks at a scratch worktree
REPO = os.environ.get("VERIF_REPO", "/repo")
SPEC = os.path.join(VERIF, "spec")
WORK = os.path.join(VERIF, ".work")
GOENV = dict(os.environ, GOFLAGS="-mod=mod", GOPROXY="off", GOSUMDB="off", GOTOOLCHAIN="local",
             CGO_ENABLED=os.environ.get("CGO_ENABLED", "1"))
TLCENV = dict(os.environ, JAVA_TOOL_OPTIONS="-Xss512m")

class Infra(Exception):
    """Infrastructure failure: exit code 2, never a violation."""

def log(*a):
    print(*a, file=sys.stderr, flush=True)

def mkwork(tag):
    os.makedirs(WORK, exist_ok=True)
    return tempfile.mkdtemp(prefix=tag + "-", dir=WORK)

def build_harness(work, race=False):
    """Builds the harness against /repo's current working tree with the hooks enabled."""
    out = os.path.join(work, "jh-race" if race else "jh")
    hdir = os.path.join(VERIF, "harness")
    if not os.path.exists(os.path.join(hdir, "go.sum")) and os.path.exists(os.path.join(REPO, "go.sum")):
        shutil.copy(os.path.join(REPO, "go.sum"), os.path.join(hdir, "go.sum"))
    if REPO != "/repo":
        h2 = os.path.join(work, "harness")
        if not os.path.isdir(h2):
            shutil.copytree(hdir, h2)
            with open(os.path.join(h2, "go.mod")) as f:
                gm = f.read()
            with open(os.path.join(h2, "go.mod"), "w") as f:
                f.write(gm.replace("=> /repo", "=> " + REPO))
        hdir = h2
    cmd = ["go", "build", "-tags", "verif"] + (["-race"] if race else []) + ["-o", out, "./jh"]
    r = subprocess.run(cmd, cwd=hdir, env=GOENV, capture_output=True, text=True)
    if r.returncode != 0:
        raise Infra("harness build failed (does /repo still compile?):\n" + r.stderr[-4000:])
    return out

def stage_spec(work):
    """Copies the specification into the scratch directory (TLC litters its cwd)."""
    d = os.path.join(work, "spec")
    os.makedirs(d, exist_ok=True)
    for root in (SPEC, os.path.join(SPEC, "mc"), os.path.join(SPEC, "trace")):
        if os.path.isdir(root):
            for f in os.listdir(root):
                if f.endswith(".tla") or f.endswith(".cfg"):
                    shutil.copy(os.path.join(root, f), d)
    return d

_re_states = re.compile(r"(\d+) states generated, (\d+) distinct states found")

def run_tlc(specdir, module, cfg, workers=16, timeout=3600, outfile=None, extra=()):
    """Runs TLC; returns (stdout_path, generated, distinct).  Any TLC error is Infra."""
    md = tempfile.mkdtemp(prefix="md-", dir=specdir)
    outfile = outfile or os.path.join(specdir, module + "." + os.path.basename(cfg) + ".out")
    cmd = ["timeout", str(timeout), "tlc", "-workers", str(workers), "-metadir", md, "-config", cfg] + list(extra) + [module]
    with open(outfile, "w") as f:
        r = subprocess.run(cmd, cwd=specdir, env=TLCENV, stdout=f, stderr=subprocess.STDOUT)
    shutil.rmtree(md, ignore_errors=True)
    gen = dist = None
    tail = []
    ok = False
    lpos = ""
    evalerr = False
    with open(outfile, errors="replace") as f:
        for line in f:
            if line.startswith('"CASE ') or line.startswith('"VERDICT '):
                continue
            tail.append(line)
            if len(tail) > 60:
                tail.pop(0)
            m = _re_states.search(line)
            if m:
                gen, dist = int(m.group(1)), int(m.group(2))
            if line.startswith("/\\ l = "):
                lpos = line.strip()
            if "unexpected exception" in line or "Error: Evaluating" in line or "The error occurred when TLC was evaluating" in line or "StackOverflowError" in line:
                evalerr = True
            if "Model checking completed. No error has been found." in line:
                ok = True
    if r.returncode == 124:
        raise Infra("TLC timed out on %s/%s" % (module, cfg))
    if not ok or gen is None:
        raise Infra("TLC did not complete cleanly on %s/%s (exit %d)%s:\n%s" % (module, cfg, r.returncode,
                    (" [evaluating trace line: %s; unexpected exception]" % lpos) if (evalerr and lpos) else "", "".join(tail)))
    return outfile, gen, dist

def run_tlc_raw(specdir, module, trace, idx, workers=1, timeout=3000):
    """Runs a trace specification whose invariant may legitimately be violated by the recorded
    execution; returns (output text, generated, distinct)."""
    cfg = "%s.run%d.cfg" % (module, idx)
    rel = os.path.relpath(trace, specdir)
    with open(os.path.join(specdir, module + ".cfg")) as f:
        txt = f.read()
    with open(os.path.join(specdir, cfg), "w") as f:
        f.write(re.sub(r'TraceFile = "[^"]*"', 'TraceFile = "%s"' % rel, txt))
    md = tempfile.mkdtemp(prefix="md-", dir=specdir)
    outfile = os.path.join(specdir, "%s.run%d.out" % (module, idx))
    with open(outfile, "w") as f:
        r = subprocess.run(["timeout", str(timeout), "tlc", "-workers", str(workers), "-metadir", md, "-config", cfg, module],
                           cwd=specdir, env=TLCENV, stdout=f, stderr=subprocess.STDOUT)
    shutil.rmtree(md, ignore_errors=True)
    out = open(outfile, errors="replace").read()
    m = _re_states.search(out)
    return out, (int(m.group(1)) if m else 0), (int(m.group(2)) if m else 0)

def run_model(specdir, module, cfg, expect, workers=16, timeout=1800):
    """Model-checks a design-level config.  expect = "hold" or the name of the property that a
    deviation config must violate (vacuity guard, DESIGN.md 4.6).  Returns (generated, distinct)."""
    md = tempfile.mkdtemp(prefix="md-", dir=specdir)
    outfile = os.path.join(specdir, module + "." + cfg + ".out")
    cmd = ["timeout", str(timeout), "tlc", "-workers", str(workers), "-metadir", md, "-config", cfg, module]
    with open(outfile, "w") as f:
        r = subprocess.run(cmd, cwd=specdir, env=TLCENV, stdout=f, stderr=subprocess.STDOUT)
    shutil.rmtree(md, ignore_errors=True)
    txt = open(outfile, errors="replace").read()
    m = _re_states.search(txt)
    gen, dist = (int(m.group(1)), int(m.group(2))) if m else (0, 0)
    if expect == "hold":
        if "Model checking completed. No error has been found." not in txt:
            raise Infra("design model %s/%s: a property of the specification does not hold:\n%s" % (module, cfg, txt[-3000:]))
    else:
        if ("%s is violated" % expect) not in txt and ("%s was violated" % expect) not in txt:
            raise Infra("vacuity guard: deviation config %s/%s no longer violates %s:\n%s" % (module, cfg, expect, txt[-2000:]))
    return gen, dist

_re_case = re.compile(r'^("CASE .*")\s*$')

def extract_cases(tlc_out, dest, fam, start_id, extra_fields=None):
    """Turns TLC's CASE lines into replayer input; returns the number of cases."""
    n = 0
    with open(tlc_out, errors="replace") as f, open(dest, "a") as g:
        for line in f:
            m = _re_case.match(line)
            if not m:
                continue
            c = json.loads(json.loads(m.group(1))[5:])
            if "bytes" in c or "toks" in c or c.get("mode") in ("date", "num", "evalbytes") or "rxp" in c.get("flags", {}):
                rec = dict(c, id=start_id + n, fam=fam)
            else:
                rec = {"id": start_id + n, "fam": fam, "ast": c["ast"], "inp": c["inp"], "binds": fix_binds(c.get("binds", [])), "exp": c.get("exp")}
            if extra_fields:
                rec.update(extra_fields)
            g.write(json.dumps(rec) + "\n")
            n += 1
    return n

def fix_binds(b):
    return b if isinstance(b, list) else []

def replay(jh, cases, trace, timeout_s=3, jobs=16):
    r = subprocess.run([jh, "replay", "-in", cases, "-out", trace, "-timeout", "%ds" % timeout_s, "-j", str(jobs)],
                       env=GOENV, capture_output=True, text=True)
    if r.returncode != 0:
        raise Infra("replayer failed: " + r.stderr[-2000:])

_re_verdict = re.compile(r'^"VERDICT (\d+) ([^"]*)"')

def _validate_one(specdir, trace, idx, workers, timeout, module):
    cfg = "%s.run%d.cfg" % (module, idx)
    rel = os.path.relpath(trace, specdir)
    with open(os.path.join(specdir, module + ".cfg")) as f:
        txt = f.read()
    txt = re.sub(r'TraceFile = "[^"]*"', 'TraceFile = "%s"' % rel, txt)
    with open(os.path.join(specdir, cfg), "w") as f:
        f.write(txt)
    outpath = os.path.join(specdir, "%s.run%d.out" % (module, idx))
    verdicts = {}
    for attempt in range(9):
        try:
            out, gen, dist = run_tlc(specdir, module, cfg, workers=workers, timeout=timeout, outfile=outpath)
            break
        except Infra as e:
            # the specification could not evaluate one recorded line (a TLC evaluation error, not a verdict): the line is
            # set aside as an abstention and the rest of the shard is validated; more than 8 such lines is a broken check
            m = re.search(r"/\\ l = (\d+)", str(e))
            if attempt == 8 or m is None or "evaluating trace line" not in str(e):
                raise
            k = int(m.group(1))
            with open(trace) as f:
                lines = f.readlines()
            if not (1 <= k <= len(lines)):
                raise
            bad = json.loads(lines[k - 1])
            verdicts[bad["id"]] = "inc:specification evaluation error"
            log("   the specification could not evaluate trace line id %s (%s); set aside as an abstention" % (bad["id"], module))
            with open(trace, "w") as f:
                f.writelines(lines[:k - 1] + lines[k:])
            if len(lines) == 1:
                return verdicts, 0, 0
    with open(out, errors="replace") as f:
        for line in f:
            m = _re_verdict.match(line)
            if m:
                verdicts[int(m.group(1))] = m.group(2)
    return verdicts, gen, dist

def validate(specdir, trace, workers=16, timeout=3600, module="TraceEval", shard_lines=12000, max_par=8, by_ev=None):
    """Trace validation: TLC evaluates every recorded line against the specification.
    The trace is cut into shards validated by parallel TLC processes (the lines are independent
    one-step behaviours).  Returns (verdicts: id -> verdict for lines that are not plain "ok",
    states generated, distinct states)."""
    from concurrent.futures import ThreadPoolExecutor
    with open(trace) as f:
        lines = f.readlines()
    if not lines:
        return {}, 0, 0
    if by_ev:
        # events of different kinds are validated by different trace modules
        groups = {}
        for ln in lines:
            m = module
            for evname, mod in by_ev.items():
                if '"ev": "%s"' % evname in ln or '"ev":"%s"' % evname in ln:
                    m = mod
            groups.setdefault(m, []).append(ln)
        verdicts, gen, dist = {}, 0, 0
        for m, ls in groups.items():
            p = "%s.%s" % (trace, m)
            with open(p, "w") as f:
                f.writelines(ls)
            v, g, d = validate(specdir, p, workers, timeout, m, shard_lines, max_par)
            os.remove(p)
            verdicts.update(v)
            gen += g
            dist += d
        return verdicts, gen, dist
    nsh = max(1, min(64, (len(lines) + shard_lines - 1) // shard_lines))
    per = (len(lines) + nsh - 1) // nsh
    shards = []
    for k in range(nsh):
        p = "%s.shard%d" % (trace, k)
        with open(p, "w") as f:
            f.writelines(lines[k * per:(k + 1) * per])
        shards.append(p)
    par = min(max_par, nsh)
    w = max(1, min(4, workers // par))
    verdicts, gen, dist = {}, 0, 0
    with ThreadPoolExecutor(max_workers=par) as ex:
        futs = [ex.submit(_validate_one, specdir, p, k, w, timeout, module) for k, p in enumerate(shards)]
        for fu in futs:
            v, g, d = fu.result()
            verdicts.update(v)
            gen += g
            dist += d
    for p in shards:
        os.remove(p)
    return verdicts, gen, dist

def load_trace(trace):
    evs = {}
    with open(trace) as f:
        for line in f:
            if line.strip():
                e = json.loads(line)
                evs[e["id"]] = e
    return evs

def cps_to_str(a):
    try:
        return "".join(chr(c) for c in a)
    except Exception:
        return repr(a)

def plain(v):
    """Readable form of a spec value (for samples and replay files)."""
    if not isinstance(v, dict):
        return v
    t = v.get("t")
    if t == "num":
        return v["n"] if v["d"] == 1 else v["n"] / v["d"]
    if t == "str":
        return cps_to_str(v["s"])
    if t == "bool":
        return v["b"]
    if t == "null":
        return None
    if t == "arr":
        return [plain(x) for x in v["v"]]
    if t == "obj":
        return {cps_to_str(k): plain(x) for k, x in v["m"]}
    if t == "fn":
        return "<function>"
    return v

def plain_out(o):
    if not isinstance(o, dict):
        return o
    if o.get("o") == "val":
        return {"value": plain(o.get("r"))}
    return {k: v for k, v in o.items()}

def load_known(prop):
    p = os.path.join(VERIF, "known_findings.json")
    if not os.path.exists(p):
        return []
    with open(p) as f:
        data = json.load(f)
    return [k for k in data.get("findings", []) if k.get("property") == prop and k.get("status") == "open"]

def match_known(known, ev, verdict):
    """A known finding is identified by its signature: the panic site and message class, the
    escaped internal type, a named deviation of the specification, or the exact program."""
    out = ev.get("out", {})
    src = cps_to_str(ev.get("src", []))
    for k in known:
        sig = k["signature"]
        kind = sig.get("kind")
        if kind == "panic" and out.get("o") == "panic" and out.get("site") == sig.get("site") and sig.get("msg", "") in out.get("msg", ""):
            return k
        if kind == "unproj" and out.get("o") == "unproj" and sig.get("gotype") in out.get("gotype", ""):
            return k
        if kind == "dev" and verdict == "dev:" + sig.get("dev"):
            return k
        if kind == "program" and src == sig.get("program") and (sig.get("verdict") in (None, verdict)):
            return k
        if kind == "verdict" and verdict == sig.get("verdict"):
            return k
        if kind == "timeout" and out.get("o") == "timeout" and sig.get("contains") in src:
            return k
    return None

def write_evidence(prop, tier, seed, level, coverage, wall, violations, assumptions):
    # a run against another tree than /repo (a seeded change in a scratch worktree) is not evidence about /repo
    evdir = os.path.join(VERIF, "evidence") if REPO == "/repo" else os.path.join(VERIF, ".work", "evidence-other-tree")
    os.makedirs(evdir, exist_ok=True)
    ev = {"property_id": prop, "tier": tier, "seed": seed, "level": level, "coverage": coverage,
          "assumptions": assumptions, "wall_s": round(wall, 2), "violations": violations}
    with open(os.path.join(evdir, prop + ".json"), "w") as f:
        json.dump(ev, f, indent=1, ensure_ascii=False)

def write_replay(prop, tier, seed, ev, verdict, direction):
    d = os.path.join(VERIF, "replays")
    os.makedirs(d, exist_ok=True)
    src = cps_to_str(ev.get("src", [])) if "bytes" not in ev else bytes(ev["bytes"]).decode("utf-8", "backslashreplace")
    h = hashlib.sha1((src + json.dumps(ev.get("inp"), sort_keys=True)).encode()).hexdigest()[:10]
    p = os.path.join(d, "%s-%s.json" % (prop, h))
    rec = {"property": prop, "tier": tier, "seed": seed, "direction": direction, "program": src,
           "input": plain(ev.get("inp")), "input_spec": ev.get("inp"), "binds": ev.get("binds"),
           "observed": ev.get("out"), "verdict": verdict, "fam": ev.get("fam"),
           "case": ({"id": 1, "fam": ev.get("fam"), "mode": "compile", "bytes": ev["bytes"]} if "bytes" in ev else
                    {"id": 1, "fam": ev.get("fam"), "ast": ev["want_ast"], "inp": ev.get("inp"), "binds": ev.get("binds", [])} if "want_ast" in ev
                    else {"id": 1, "fam": ev.get("fam"), "src": src, "inp": ev.get("inp"), "binds": ev.get("binds", [])})}
    if "exp" in ev:
        rec["expected_default"] = ev["exp"]
    if "rxp" in ev.get("flags", {}):
        rec["case"] = {"id": 1, "fam": ev.get("fam"), "mode": "", "flags": ev["flags"], "inp": ev.get("inp")}
    with open(p, "w") as f:
        json.dump(rec, f, indent=1, ensure_ascii=False)
    return p
