#!/usr/bin/env python3
"""build_corpus.py <trace.ndjson> <verdicts.json> : writes spec/cases/suite_<Cxx>.ndjson.

The (program, input) pairs were collected from blues/jsonata-go's own tests through the verif Eval hook
(a scratch copy of /repo with a test file that sets jsonata.VerifOnEval; see DESIGN.md 13.6).  A pair is
kept when the specification pins its outcome and the unchanged tree agrees; it is filed under the one
property whose constructs it uses besides plain paths and operators, so that a disagreement on it speaks
about that property."""
import json, sys, collections

FN = {}
for p, names in {
    "C13": ["sort"],
    "C14": ["keys", "lookup", "spread", "merge", "each", "sift"],
    "C15": ["map", "filter", "reduce", "single", "zip", "append", "reverse", "count", "sum", "max", "min", "average", "distinct", "shuffle", "exists"],
    "C16": ["string", "length", "substring", "substringBefore", "substringAfter", "uppercase", "lowercase", "trim", "pad", "contains", "split", "join", "replace",
            "base64encode", "base64decode", "encodeUrl", "encodeUrlComponent", "decodeUrl", "decodeUrlComponent"],
    "C17": ["match"],
    "C18": ["number", "abs", "floor", "ceil", "round", "power", "sqrt", "formatNumber", "formatBase"],
    "C19": ["fromMillis", "toMillis", "now", "millis"],
    "C03": ["boolean", "not"],
    "C12": ["type", "error"],
}.items():
    for n in names:
        FN[n] = p
KIND = {"Sort": "C13", "Group": "C14", "Object": "C14", "Regex": "C17", "Lambda": "C12", "TypedLambda": "C12", "Apply": "C12", "Partial": "C12", "Assign": "C12",
        "Block": "C12", "Call": None, "NumOp": "C03", "CmpOp": "C03", "BoolOp": "C03", "Concat": "C03", "Range": "C03", "Cond": "C03", "Negation": "C03",
        "Predicate": "C02", "Transform": "C07"}

def feats(n, acc):
    if isinstance(n, list):
        for x in n:
            feats(x, acc)
        return
    if not isinstance(n, dict):
        return
    k = n.get("k")
    if k in KIND and KIND[k]:
        acc.add(KIND[k])
    if k == "Variable" and n.get("nm") in FN:
        acc.add(FN[n["nm"]])
    elif k == "Variable" and n.get("nm") not in ("", "$"):
        acc.add("C12")          # a named variable: scoping
    for v in n.values():
        feats(v, acc)

def home(fs):
    rest = fs - {"C03"}
    if not rest:
        return "C03" if "C03" in fs else "C01"
    if rest == {"C02"}:
        return "C02"
    rest2 = rest - {"C02"} if len(rest) > 1 else rest
    if len(rest2) == 1:
        return next(iter(rest2))
    if rest2 <= {"C12", "C15"} or rest2 <= {"C12", "C16"} or rest2 <= {"C12", "C14"} or rest2 <= {"C12", "C13"} or rest2 <= {"C12", "C17"} or rest2 <= {"C12", "C18"}:
        # a block or variable around one family of built-ins
        return next(iter(rest2 - {"C12"}))
    return None

verd = json.load(open(sys.argv[2]))
out = collections.defaultdict(list)
skipped = 0
for line in open(sys.argv[1]):
    e = json.loads(line)
    if str(e["id"]) in verd or e.get("ev") != "Eval" or e["out"].get("o") not in ("val", "err", "undef"):
        skipped += 1
        continue
    fs = set()
    feats(e["ast"], fs)
    h = home(fs)
    if h is None:
        skipped += 1
        continue
    out[h].append({"src": "".join(chr(c) for c in e["src"]), "inp": e["inp"], "binds": []})
for p, cs in sorted(out.items()):
    with open("/verif/spec/cases/suite_%s.ndjson" % p, "w") as f:
        for c in cs:
            f.write(json.dumps(c, ensure_ascii=False) + "\n")
    print(p, len(cs))
print("not used:", skipped)
