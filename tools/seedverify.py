#!/usr/bin/env python3
"""seedverify.py <seed-dir> <name>: confirms a seeded change in a scratch worktree of /repo's HEAD
(compiles, suite passes with it, demo fails with it and passes without it) and stores it as
/verif/seeded/<name>/ (patch.diff, demo_test.go, meta.json)."""
import json, os, re, shutil, subprocess, sys
ENV = dict(os.environ, GOFLAGS="-mod=mod", GOPROXY="off", GOSUMDB="off", GOTOOLCHAIN="local")
def sh(cmd, cwd=None, check=False):
    r = subprocess.run(cmd, shell=True, cwd=cwd, env=ENV, capture_output=True, text=True)
    if check and r.returncode != 0:
        raise SystemExit("FAILED: %s\n%s\n%s" % (cmd, r.stdout[-2000:], r.stderr[-2000:]))
    return r
src, name = sys.argv[1], sys.argv[2]
wt = "/tmp/sv/" + name
os.makedirs("/tmp/sv", exist_ok=True)
sh("git -C /repo worktree remove --force %s" % wt)
sh("git -C /repo worktree add -q --detach %s HEAD" % wt, check=True)
ran = []
try:
    demo = open(os.path.join(src, "demo_test.go")).read()
    m = re.search(r"//\s*dir:\s*(\S+)", demo)
    ddir = m.group(1) if m else "."
    tests = re.findall(r"^func (Test\w+)\(", demo, re.M)
    run = "|".join(tests)
    dst = os.path.join(wt, ddir, "zz_seed_demo_test.go")
    # 1. suite with the patch
    r = sh("git apply %s" % os.path.join(src, "patch.diff"), cwd=wt)
    if r.returncode != 0:
        raise SystemExit("patch does not apply to HEAD: " + r.stderr)
    r = sh("go build ./... && go test -vet=off -count=1 ./...", cwd=wt)
    ran.append(("suite with patch", r.returncode))
    if r.returncode != 0:
        raise SystemExit("suite fails with the patch:\n" + r.stdout[-3000:])
    # 2. demo with the patch
    shutil.copy(os.path.join(src, "demo_test.go"), dst)
    r = sh("go test -vet=off -count=1 -run '%s' ./%s" % (run, ddir), cwd=wt)
    ran.append(("demo with patch", r.returncode))
    if r.returncode == 0:
        raise SystemExit("demo passes with the patch")
    # 3. demo without
    sh("git apply -R %s" % os.path.join(src, "patch.diff"), cwd=wt, check=True)
    r = sh("go test -vet=off -count=1 -run '%s' ./%s" % (run, ddir), cwd=wt)
    ran.append(("demo without patch", r.returncode))
    if r.returncode != 0:
        raise SystemExit("demo fails without the patch:\n" + r.stdout[-3000:])
    out = "/verif/seeded/" + name
    os.makedirs(out, exist_ok=True)
    shutil.copy(os.path.join(src, "patch.diff"), out)
    shutil.copy(os.path.join(src, "demo_test.go"), out)
    meta = json.load(open(os.path.join(src, "meta.json")))
    head = sh("git -C /repo rev-parse --short HEAD").stdout.strip()
    meta["verified_at_repo_commit"] = head
    meta["verified"] = ["suite passes with patch", "demo (%s) fails with patch" % run, "demo passes without patch"]
    meta["demo_dir"] = ddir
    json.dump(meta, open(os.path.join(out, "meta.json"), "w"), indent=1)
    print("OK", name, run)
finally:
    sh("git -C /repo worktree remove --force %s" % wt)
