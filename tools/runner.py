import argparse, json, os, shutil, subprocess, sys, time, random
from vlib import *
from vlib import _validate_one
import families

NON_SEMANTIC = {"C05", "C06", "C08", "C09", "C10", "HIST"}

def concerns(ev, verdict):
    """Which properties a failing trace line is a violation of (DESIGN.md 5.6)."""
    fam = ev.get("fam", "?")
    out = ev.get("out", {})
    parts = verdict.split(";")
    s = set()
    sem = parts[0]
    if sem == "no" or sem.startswith("dev:"):
        if fam not in NON_SEMANTIC:
            s.add(fam)
        if out.get("o") in ("panic", "timeout", "crash"):
            s.add("C09" if ev.get("ev") != "Compile" else "C08")
        if out.get("o") in ("unproj", "bad"):
            s.add("C10")
    for p in parts[1:]:
        if p.startswith("compile-") or p.startswith("lexer-") or p in ("mustcompile-disagrees", "string-panics", "returned-expression-cannot-be-evaluated"):
            s.add("C08")
        if p.startswith("lexer-token") or p.startswith("parse-"):
            s.add("C04")
        if p.startswith("date-"):
            s.add("C19")
        if p.startswith("num-"):
            s.add("C18")
        if p.startswith("evalbytes-"):
            s.add("C10")
        if p.startswith("denote-") or p.startswith("json-"):
            s.add("C11")
        if p in ("registry-visibility", "valid-registration-rejected", "invalid-name-accepted", "invalid-shape-accepted"):
            s.add("C20")
        if p in ("input-modified", "binds-modified"):
            s.add("C07")
        elif p in ("ast-modified", "string-changed", "not-repeatable", "history-dependent", "order-dependent"):
            s.add("C05")
        elif p in ("not-json", "evalbytes-differs", "undefined-mismatch", "null-reported-as-undefined"):
            s.add("C10")
    return s

def src_of(ev):
    if "bytes" in ev:
        return bytes(ev["bytes"]).decode("utf-8", "backslashreplace")
    return cps_to_str(ev.get("src", []))

def signature(ev, verdict):
    out = ev.get("out", {})
    if "bytes" in ev and out.get("o") not in ("panic",):
        return "%s:%s" % (verdict, src_of(ev)[:80])
    if out.get("o") == "panic":
        return "panic:%s:%s" % (out.get("site"), out.get("msg"))
    if out.get("o") in ("timeout", "crash"):
        return "%s:%s" % (out.get("o"), cps_to_str(ev.get("src", []))[:60])
    if out.get("o") == "unproj":
        return "unproj:" + out.get("gotype", "")
    return "%s:%s" % (verdict, cps_to_str(ev.get("src", []))[:80])

def run_pipeline(prop, fam, tier, seed, work, jh, specdir, stats):
    """G: TLC enumerates cases -> replay; V: seeded generators -> replay; then trace validation."""
    cases = os.path.join(work, "cases.ndjson")
    open(cases, "w").close()
    nid = 1
    stats.setdefault("m_runs", [])
    for (module, cfg, expect) in fam.get("models", []):
        t0 = time.time()
        gen, dist = run_model(specdir, module, cfg, expect)
        stats["m_states"] = stats.get("m_states", 0) + dist
        stats["m_transitions"] = stats.get("m_transitions", 0) + gen
        stats["m_runs"].append({"module": module, "config": cfg, "expected": expect, "distinct_states": dist, "generated": gen, "wall_s": round(time.time() - t0, 1)})
        log("[%s] design model %s/%s: %s (%d distinct states)" % (prop, module, cfg, "holds" if expect == "hold" else "violates " + expect + " as expected", dist))
    for (module, cfgs) in fam.get("g", []):
        cfg = cfgs[tier]
        t0 = time.time()
        out, gen, dist = run_tlc(specdir, module, cfg, workers=16, timeout=fam.get("tlc_timeout", 3000))
        n = extract_cases(out, cases, fam.get("famtag", prop), nid)
        os.remove(out)
        nid += n
        stats["g_states"] += dist
        stats["g_transitions"] += gen
        stats["g_cases"] += n
        stats["g_runs"].append({"module": module, "config": cfg, "distinct_states": dist, "generated": gen, "cases": n, "wall_s": round(time.time() - t0, 1)})
        log("[%s] TLC %s/%s: %d distinct states, %d cases in %.1fs" % (prop, module, cfg, dist, n, time.time() - t0))
    for v in fam.get("v", []):
        n = v["n"][tier]
        args = [jh, "gen", "-profile", v["profile"], "-seed", str(seed * 1000 + len(stats["v_runs"])), "-n", str(n),
                "-start", str(nid), "-fam", v.get("famtag", fam.get("famtag", prop)), "-out", cases] + v.get("args", [])
        r = subprocess.run(args, capture_output=True, text=True)
        if r.returncode != 0:
            raise Infra("generator failed: " + r.stderr[-2000:])
        nid += n
        stats["v_cases"] += n
        stats["v_runs"].append({"profile": v["profile"], "n": n})
    for extra in fam.get("files", []):
        # fixed regression cases (directed replays, DESIGN.md 4.6)
        with open(os.path.join(VERIF, extra)) as f, open(cases, "a") as g:
            for line in f:
                if line.strip():
                    c = json.loads(line)
                    c["id"] = nid
                    c.setdefault("fam", fam.get("famtag", prop))
                    nid += 1
                    stats["fixed_cases"] += 1
                    g.write(json.dumps(c) + "\n")
    trace = os.path.join(work, "trace.ndjson")
    t0 = time.time()
    replay(jh, cases, trace, timeout_s=fam.get("case_timeout", 5))
    stats["replay_s"] = round(time.time() - t0, 1)
    if fam.get("order_check") and not fam.get("_replaying"):
        order_check(jh, cases, trace, work, fam, tier, stats)
    t0 = time.time()
    verdicts, gen, dist = validate(specdir, trace, timeout=fam.get("tlc_timeout", 3000), module=fam.get("trace_module", "TraceEval"), by_ev=fam.get("trace_by_ev"))
    stats["validate_s"] = round(time.time() - t0, 1)
    stats["v_states"] = dist
    stats["v_transitions"] = gen
    return cases, trace, verdicts

def corrupt(ev, module="TraceEval"):
    """One recorded field of an accepted trace line changed into something no reading of the
    specification allows; None when the line has nothing suitable.  (Binding self-test, DESIGN.md 13.5.)"""
    e = json.loads(json.dumps(ev))
    kind = e.get("ev")
    out = e.get("out", {})
    marker = {"t": "str", "s": [99, 111, 114, 114, 117, 112, 116]}
    if kind == "Eval":
        if out.get("o") == "val" and "r" in out:
            out["r"] = {"t": "arr", "v": [out["r"], marker]}
            return e
        if out.get("o") == "undef":
            e["out"] = {"o": "val", "r": marker}
            return e
        return None
    if kind == "Lex" and module == "TraceParse":
        # the recorded tree / the recorded acceptance is changed
        if out.get("o") == "ok" and "ast" in e and e["ast"].get("k") != "Null":
            e["ast"] = {"k": "Null"}
            return e
        if out.get("o") == "err":
            e["out"] = {"o": "ok", "nil_expr": False}
            e["ast"] = {"k": "Null"}
            return e
        return None
    if kind == "Lex":
        toks = e.get("toks", [])
        if len(toks) >= 3 and out.get("o") in ("ok", "err"):
            del toks[len(toks) // 2]          # a token the hook reported goes missing
            return e
        return None
    if kind == "Denote":
        if out.get("o") == "val" and "r" in out:
            out["r"] = {"t": "arr", "v": [out["r"], marker]}
            return e
        return None
    if kind == "Date":
        if e.get("fn") == "from" and "s" in out:
            for i, c in enumerate(out["s"]):
                if 48 <= c <= 57:
                    out["s"][i] = 48 + (c - 48 + 1) % 10
                    return e
        if e.get("fn") in ("rt", "to") and "day" in out:
            out["day"] += 1
            return e
        return None
    if kind == "Num":
        st = e["steps"][0]
        o = st.get("out", {})
        if st.get("fn") == "fmt" and "s" in o:
            for i, c in enumerate(o["s"]):
                if 48 <= c <= 57:
                    o["s"][i] = 48 + (c - 48 + 5) % 10      # by 5: a tie may go either way, never this far
                    return e
            return None
        if "x" in o and st.get("fn") in ("round", "numrt", "number"):
            o["x"]["ds"] = [(o["x"]["ds"][0] % 9) + 1] + o["x"]["ds"][1:] + [7]
            return e
        if "b" in o:
            o["b"] = not o["b"]
            return e
        if st.get("fn") == "op" and "xe" in o:
            o["xe"]["ds"] = [(o["xe"]["ds"][0] % 9) + 1] + o["xe"]["ds"][1:]
            return e
        return None
    if kind == "EvalBytes":
        if out.get("o") == "val":
            e["out"] = {"o": "err", "k": "Json"}
        elif out.get("o") == "err":
            e["out"] = {"o": "val", "rb": [49]}
        else:
            return None
        return e
    return None

def order_check(jh, cases, trace, work, fam, tier, stats):
    """History independence across evaluations (C05): a sample of the cases is evaluated twice more, by ONE process each
    time, once in the order of the file and once in the reverse order - so every case runs once after all the cases before
    it and once after all the cases behind it.  A case whose outcome differs between the two orders, in two independent
    repetitions, is marked in the trace; the trace specification decides whether the program may vary (TraceEval)."""
    from concurrent.futures import ThreadPoolExecutor
    with open(cases) as f:
        lines = [l for l in f if l.strip()]
    cap = fam["order_check"][tier]
    nfixed = stats.get("fixed_cases", 0)
    head, tail = (lines[:-nfixed], lines[-nfixed:]) if nfixed else (lines, [])
    if len(head) > cap:
        step = len(head) / float(cap)
        head = [head[int(k * step)] for k in range(cap)]
    sel = head + tail
    odir = os.path.join(work, "order")
    os.makedirs(odir, exist_ok=True)
    def run(tag, seq):
        cp = os.path.join(odir, tag + ".cases.ndjson")
        tp = os.path.join(odir, tag + ".trace.ndjson")
        with open(cp, "w") as f:
            f.writelines(seq)
        replay(jh, cp, tp, timeout_s=fam.get("case_timeout", 5) * 3, jobs=1)
        return dict((i, e.get("out")) for i, e in load_trace(tp).items())
    def differing(rnd):
        with ThreadPoolExecutor(2) as ex:
            ff = ex.submit(run, "fwd%d" % rnd, sel)
            fr = ex.submit(run, "rev%d" % rnd, sel[::-1])
            of, orv = ff.result(), fr.result()
        d = {}
        for i, o in of.items():
            o2 = orv.get(i)
            if o is None or o2 is None or o.get("o") in ("timeout", "crash") or o2.get("o") in ("timeout", "crash"):
                continue
            if json.dumps(o, sort_keys=True) != json.dumps(o2, sort_keys=True):
                d[i] = (o, o2)
        return d
    d1 = differing(1)
    d2 = differing(2) if d1 else {}
    marked = dict((i, v) for i, v in d1.items() if i in d2 and json.dumps(d2[i], sort_keys=True) == json.dumps(v, sort_keys=True))
    stats["order_check"] = {"cases_evaluated_in_both_orders": len(sel), "outcome_differs_between_orders": len(marked), "differs_once_only": len(d1) - len(marked)}
    log("[%s] order check: %d cases evaluated by one process in file order and in reverse order, %d outcomes differ (both repetitions)" % (fam.get("famtag", "?"), len(sel), len(marked)))
    if marked:
        evs = load_trace(trace)
        with open(trace, "w") as f:
            for i in sorted(evs):
                e = evs[i]
                if i in marked:
                    e["rev_same"], e["ord_fwd"], e["ord_rev"] = False, marked[i][0], marked[i][1]
                f.write(json.dumps(e) + "\n")

def binding_selftest(fam, work, specdir, evs, verdicts, stats, rnd):
    """Corrupts one recorded field in a sample of lines the specification accepted and requires the
    trace specification to reject every one of them: a trace module that accepts them is not bound
    to the code and nothing it says can be believed (infrastructure failure)."""
    accepted = [i for i in sorted(evs) if i not in verdicts]
    rnd.shuffle(accepted)
    chosen = []
    perkind = {}
    for i in accepted:
        k = evs[i].get("ev")
        if perkind.get(k, 0) >= 40:
            continue
        c = corrupt(evs[i], (fam.get("trace_by_ev") or {}).get(k, fam.get("trace_module", "TraceEval")))
        if c is None:
            continue
        perkind[k] = perkind.get(k, 0) + 1
        chosen.append(c)
        if len(chosen) >= 120:
            break
    if not chosen:
        stats["binding_selftest"] = {"corrupted_lines": 0, "rejected": 0}
        return
    d = os.path.join(work, "selftest")
    os.makedirs(d, exist_ok=True)
    trace = os.path.join(d, "trace.ndjson")
    with open(trace, "w") as f:
        for c in chosen:
            f.write(json.dumps(c) + "\n")
    v, _, _ = validate(specdir, trace, workers=8, module=fam.get("trace_module", "TraceEval"), by_ev=fam.get("trace_by_ev"))
    # "inc" = the specification abstains on the corrupted line (e.g. a result whose member order is open): not an
    # acceptance, but tolerated only for a small share of the sample
    weak = [c for c in chosen if v.get(c["id"], "ok").startswith("inc")]
    missed = [c for c in chosen if not v.get(c["id"], "ok").startswith("no") and c not in weak]
    stats["binding_selftest"] = {"corrupted_lines": len(chosen), "rejected": len(chosen) - len(missed) - len(weak), "abstained": len(weak), "by_event_kind": perkind}
    if not missed and len(weak) * 4 > len(chosen):
        missed = weak
    if missed:
        raise Infra("binding self-test: %d of %d corrupted trace lines were not rejected by the trace specification, e.g. %s (verdict %s)" %
                    (len(missed), len(chosen), src_of(missed[0])[:120], v.get(missed[0]["id"], "ok")))

def confirm(prop, fam, work, jh, specdir, evs, failing, cases_path=None):
    """Every disagreement is re-executed alone in a fresh process before anything is reported."""
    if not failing:
        return {}
    cdir = os.path.join(work, "confirm")
    os.makedirs(cdir, exist_ok=True)
    cases = os.path.join(cdir, "cases.ndjson")
    orig = {}
    want = set(failing)
    if cases_path:
        with open(cases_path) as f:
            for line in f:
                if line.strip():
                    c = json.loads(line)
                    if c["id"] in want:
                        orig[c["id"]] = c
    with open(cases, "w") as f:
        for i in failing:
            e = evs[i]
            c = orig.get(i) or ({"id": i, "fam": e.get("fam"), "mode": "compile", "bytes": e["bytes"]} if "bytes" in e else
                                {"id": i, "fam": e.get("fam"), "src": cps_to_str(e["src"]), "inp": e["inp"], "binds": e.get("binds", [])})
            c.pop("exp", None)
            f.write(json.dumps(c) + "\n")
    trace = os.path.join(cdir, "trace.ndjson")
    replay(jh, cases, trace, timeout_s=fam.get("case_timeout", 5) * 3, jobs=8)
    verdicts, _, _ = validate(specdir, trace, workers=8, module=fam.get("trace_module", "TraceEval"), by_ev=fam.get("trace_by_ev"))
    return verdicts, load_trace(trace)

def run_histories(prop, fam, tier, seed, work, jh, specdir, stats):
    """API histories on the real code, validated against the system specification JApi (TraceApi)."""
    from concurrent.futures import ThreadPoolExecutor
    cfgh = fam["hist"]
    nsh = cfgh.get("shards", {"quick": 4, "thorough": 16})[tier]
    per = cfgh["n"][tier] // nsh
    def one(k):
        trace = os.path.join(work, "hist%d.ndjson" % k)
        r = subprocess.run([jh, "hist", "-seed", str(seed * 100 + k), "-n", str(per), "-tag", "p%d" % os.getpid(), "-out", trace],
                           capture_output=True, text=True)
        if r.returncode != 0:
            raise Infra("history driver failed: " + r.stderr[-2000:])
        verdicts, gen, dist = _validate_one(specdir, trace, 100 + k, 1, fam.get("tlc_timeout", 3000), "TraceApi")
        rejected = None
        with open(os.path.join(specdir, "TraceApi.run%d.out" % (100 + k)), errors="replace") as f:
            for line in f:
                if line.startswith('"REJECTED'):
                    rejected = line.strip()
        return k, trace, verdicts, gen, dist, rejected
    results = []
    with ThreadPoolExecutor(max_workers=min(8, nsh)) as ex:
        for res in ex.map(one, range(nsh)):
            results.append(res)
    fails = []
    for k, trace, verdicts, gen, dist, rejected in results:
        if rejected:
            raise Infra("history trace not fully consumed by the specification: " + rejected)
        stats["h_states"] = stats.get("h_states", 0) + dist
        stats["h_transitions"] = stats.get("h_transitions", 0) + gen
        evs = load_trace(trace)
        stats["h_events"] = stats.get("h_events", 0) + len(evs)
        stats["h_histories"] = stats.get("h_histories", 0) + sum(1 for e in evs.values() if e["ev"] == "Reset")
        stats["h_evals"] = stats.get("h_evals", 0) + sum(1 for e in evs.values() if e["ev"] == "Eval")
        if k == 0:
            ids = sorted(evs)
            first = [evs[i] for i in ids[:14]]
            stats["h_sample"] = [dict((kk, (cps_to_str(vv) if kk == "src" else plain(vv) if kk in ("val", "inp") else plain_out(vv) if kk == "out" else vv))
                                      for kk, vv in e.items() if kk not in ("ast", "nmcps", "ast_after")) for e in first]
        for i, v in sorted(verdicts.items()):
            if v.startswith("inc"):
                stats["h_abstained"] = stats.get("h_abstained", 0) + 1
                if ";" not in v:
                    continue
            # the history: from the last Reset up to the failing event
            j = i
            while j > 1 and evs[j]["ev"] != "Reset":
                j -= 1
            hist = [evs[x] for x in range(j, i + 1)]
            e = dict(evs[i])
            e["fam"] = "HIST"
            src = None
            for h in hist:
                if h["ev"] == "Compile" and h.get("e") == e.get("e"):
                    src = h["src"]
            e["src"] = src or []
            fails.append((v, e, hist, k))
    return fails

def c06_main(prop, tier, seed, a):
    """C06: the call-protocol model JCall, schedule replay through the gate hook, and free-running
    evaluations under the race detector (DESIGN.md section 6, C06)."""
    from vlib import _validate_one
    t_start = time.time()
    work = mkwork(prop)
    fam = families.FAMILIES[prop]
    known = load_known(prop)
    try:
        jh = build_harness(work)
        jhr = build_harness(work, race=True)
        specdir = stage_spec(work)
        stats = {"m_runs": [], "m_states": 0, "m_transitions": 0}
        violations, samples = [], []
        # 1. design-level model checking (+ vacuity guards)
        for (module, cfg, expect) in fam["models"]:
            gen, dist = run_model(specdir, module, cfg, expect, workers=8)
            stats["m_states"] += dist
            stats["m_transitions"] += gen
            stats["m_runs"].append({"module": module, "config": cfg, "expected": expect, "distinct_states": dist, "generated": gen})
            log("[%s] design model %s/%s: %s (%d distinct states)" % (prop, module, cfg, "holds" if expect == "hold" else "violates " + expect + " as expected", dist))
        # 2. every interleaving TLC enumerates is forced on the real code
        scheds = os.path.join(work, "scheds.ndjson")
        nsched = 0
        with open(scheds, "w") as g:
            for cfg in fam["sched_cfgs"][tier]:
                out, gen, dist = run_tlc(specdir, "MC_CallSched", cfg, workers=1)
                stats["m_states"] += dist
                stats["m_transitions"] += gen
                with open(out, errors="replace") as f:
                    for line in f:
                        if line.startswith('"CASE '):
                            c = json.loads(json.loads(line)[5:])
                            for sharedx in (False, True):
                                c["shared_expr"] = sharedx
                                g.write(json.dumps(c) + "\n")
                                nsched += 1
        ctrace, etrace = os.path.join(work, "ctrace.ndjson"), os.path.join(work, "etrace.ndjson")
        r = subprocess.run([jh, "sched", "-in", scheds, "-out", ctrace, "-evals", etrace], capture_output=True, text=True)
        if r.returncode != 0:
            raise Infra("schedule replay failed: " + r.stderr[-2000:])
        cev = load_trace(ctrace)
        notf = [e for e in cev.values() if e["ev"] == "NotFollowed"]
        # a closing Reset: TraceCall accepts it only if the last history ran to its end
        with open(ctrace, "a") as f:
            f.write(json.dumps({"ev": "Reset", "id": max(cev) + 1, "trees": []}) + "\n")
        # protocol events against JCall
        txt, g1, d1 = run_tlc_raw(specdir, "TraceCall", ctrace, 300)
        proto_bad = None
        if "is violated" in txt:
            proto_bad = "OwnContextObserved violated: a built-in read a context item that is not the one of its own call site"
        elif "REJECTED" in txt:
            proto_bad = "the recorded protocol steps are not a behaviour of JCall: " + [l for l in txt.splitlines() if "REJECTED" in l][0]
        elif notf:
            raise Infra("a schedule could not be followed by the real code (gate hooks moved?): %s" % notf[0].get("why"))
        elif "No error has been found" not in txt:
            raise Infra("TraceCall did not complete:\n" + txt[-2000:])
        # binding self-test: the same trace with one protocol event missing (a hook that did not fire) must be rejected
        if not proto_bad:
            with open(ctrace) as f:
                clines = f.readlines()
            cand = [k for k, ln in enumerate(clines) if '"SetCtx"' in ln or '"Invoke"' in ln]
            if cand:
                k = cand[len(cand) // 2]
                broken = os.path.join(work, "ctrace_broken.ndjson")
                with open(broken, "w") as f:
                    f.writelines(clines[:k] + clines[k + 1:])
                t2, _, _ = run_tlc_raw(specdir, "TraceCall", broken, 300)
                stats["binding_selftest"] = {"dropped_event": json.loads(clines[k]).get("ev"), "rejected": ("REJECTED" in t2) or ("is violated" in t2)}
                if not stats["binding_selftest"]["rejected"]:
                    raise Infra("binding self-test: the protocol trace with one event removed was still accepted by TraceCall")
        # per-goroutine outcomes against the sequential semantics
        ev_verd, g2, d2 = validate(specdir, etrace, workers=8)
        eevs = load_trace(etrace)
        bad_out = {i: v for i, v in ev_verd.items() if v.split(";")[0] == "no"}
        if proto_bad or bad_out:
            e = eevs[sorted(bad_out)[0]] if bad_out else {"src": [], "inp": None, "out": {}, "fam": prop}
            path = write_replay(prop, tier, seed, dict(e, fam=prop), proto_bad or "no", "G-schedule")
            violations.append(path)
            log("   schedule replay: %s%s" % (proto_bad or "", (" | %d goroutine outcomes differ from the sequential outcome, e.g. %s -> %s" %
                (len(bad_out), cps_to_str(e["src"]), json.dumps(plain_out(e["out"])))) if bad_out else ""))
        # 3. free-running goroutines under the race detector
        conc = os.path.join(work, "conc.ndjson")
        racelog = os.path.join(work, "race")
        cfgc = fam["conc"][tier]
        total_evals = 0
        conc_recs = 0
        race_reports = []
        for k, ng in enumerate(cfgc["goroutines"]):
            env = dict(GOENV, GORACE="halt_on_error=0 log_path=%s" % racelog)
            r = subprocess.run([jhr, "conc", "-seed", str(seed * 10 + k), "-g", str(ng), "-dur", cfgc["dur"], "-out", conc + str(k)], capture_output=True, text=True, env=env)
            if r.returncode not in (0, 66):
                raise Infra("free-running harness failed (%d): %s" % (r.returncode, r.stderr[-2000:]))
            import re as _re
            m = _re.search(r"(\d+) evaluations", r.stderr)
            total_evals += int(m.group(1)) if m else 0
            for fn in os.listdir(work):
                if fn.startswith("race."):
                    with open(os.path.join(work, fn), errors="replace") as f:
                        rep = f.read()
                    if "DATA RACE" in rep:
                        race_reports.append(rep[:3000])
                    os.remove(os.path.join(work, fn))
            cv, g3, d3 = validate(specdir, conc + str(k), workers=8)
            cevs = load_trace(conc + str(k))
            conc_recs += len(cevs)
            stats["m_states"] += d3
            stats["m_transitions"] += g3
            badc = {i: v for i, v in cv.items() if v.split(";")[0] == "no"}
            if k == 0:
                for i in sorted(cevs)[:3]:
                    samples.append({"free_running": cps_to_str(cevs[i]["src"]), "input": plain(cevs[i]["inp"]), "observed": plain_out(cevs[i]["out"])})
            if badc:
                e = cevs[sorted(badc)[0]]
                path = write_replay(prop, tier, seed, dict(e, fam=prop), "no", "V-concurrent")
                violations.append(path)
                log("   free-running (%d goroutines): %d recorded outcomes are not the sequential outcome, e.g. %s -> %s" % (ng, len(badc), cps_to_str(e["src"]), json.dumps(plain_out(e["out"]))[:200]))
        if race_reports:
            os.makedirs(os.path.join(VERIF, "replays"), exist_ok=True)
            path = os.path.join(VERIF, "replays", "%s-race-%d.txt" % (prop, seed))
            with open(path, "w") as f:
                f.write("\n\n".join(race_reports[:5]))
            violations.append(path)
            log("   the race detector reported %d data races; first report in %s" % (len(race_reports), path))
        for path in violations:
            print("VIOLATION property=%s replay=%s" % (prop, os.path.relpath(path, VERIF)))
        # a sample schedule
        with open(scheds) as f:
            first = json.loads(f.readline())
        samples.insert(0, {"schedule": first["order"], "call_trees": first["trees"], "shared_expr": first["shared_expr"]})
        coverage = {
            "states": stats["m_states"] + d1 + d2, "transitions": stats["m_transitions"] + g1 + g2,
            "traces_validated_against_impl": nsched + len(cfgc["goroutines"]),
            "samples": samples,
            "evaluations": nsched + total_evals, "distinct_nontrivial": len(eevs) + conc_recs,
            "rule": "schedule replay: every interleaving TLC enumerates for the configured call trees is forced on the real code (each on private and on shared compiled expressions) - distinct = goroutine outcomes recorded; free-running: distinct (goroutine, program, outcome) records, each validated against the sequential semantics",
            "exhaustive": True,
            "binding_selftest": stats.get("binding_selftest"),
            "transient_timeouts_not_reproduced": stats.get("transient_timeouts", 0),
            "design_model_runs": stats["m_runs"], "schedules_replayed": nsched, "protocol_events_validated": len(cev), "goroutine_outcomes_validated": len(eevs),
            "free_running": {"goroutine_counts": cfgc["goroutines"], "duration_each": cfgc["dur"], "evaluations": total_evals, "records_validated": conc_recs, "race_reports": len(race_reports)},
        }
        if a.replay is None:
            write_evidence(prop, tier, seed, "model_checking", coverage, time.time() - t_start, len(violations), fam.get("assumptions", []) + families.COMMON_ASSUMPTIONS)
        log("[%s] %s tier: %d schedules replayed (%d protocol events, %d outcomes), %d free-running evaluations, %d race reports, %d violations, %.0fs" %
            (prop, tier, nsched, len(cev), len(eevs), total_evals, len(race_reports), len(violations), time.time() - t_start))
        return 1 if violations else 0
    except Infra as e:
        print("INFRASTRUCTURE: " + str(e), file=sys.stderr)
        return 2
    finally:
        if not a.keep:
            shutil.rmtree(work, ignore_errors=True)

def main(argv):
    ap = argparse.ArgumentParser()
    ap.add_argument("prop")
    ap.add_argument("--tier", default=os.environ.get("VERIF_TIER", "quick"), choices=["quick", "thorough"])
    ap.add_argument("--replay")
    ap.add_argument("--keep", action="store_true")
    a = ap.parse_args(argv)
    prop = a.prop
    seed = int(os.environ.get("VERIF_SEED", "1") or 1)
    if prop not in families.FAMILIES:
        print("unknown property", prop, file=sys.stderr)
        return 2
    fam = families.FAMILIES[prop]
    if fam.get("custom") == "c06":
        return c06_main(prop, a.tier, seed, a)
    t_start = time.time()
    work = mkwork(prop)
    try:
        jh = build_harness(work)
        specdir = stage_spec(work)
        stats = {"g_states": 0, "g_transitions": 0, "g_cases": 0, "v_cases": 0, "fixed_cases": 0, "g_runs": [], "v_runs": []}
        if a.replay:
            with open(a.replay) as f:
                rp = json.load(f)
            fam = dict(fam, g=[], v=[], files=[], _replaying=True)
            os.makedirs(os.path.join(work, "rp"), exist_ok=True)
            rel = os.path.join(".work", os.path.basename(work), "rp", "case.ndjson")
            with open(os.path.join(VERIF, rel), "w") as f:
                f.write(json.dumps(rp["case"]) + "\n")
            fam["files"] = [rel]
        cases, trace, verdicts = run_pipeline(prop, fam, a.tier, seed, work, jh, specdir, stats)
        evs = load_trace(trace)
        if not a.replay:
            binding_selftest(fam, work, specdir, evs, verdicts, stats, random.Random(seed))
        hfails = run_histories(prop, fam, a.tier, seed, work, jh, specdir, stats) if fam.get("hist") and not a.replay else []
        mine = {}
        inconclusive = skipped = 0
        reasons = {}
        if fam.get("compile_must_succeed"):
            # every program TLC enumerates for this family is a valid program (on the unchanged tree all of them compile):
            # one that is rejected by the parser is a valid text rejected, not a case to skip
            for i, v in list(verdicts.items()):
                if v.startswith("skip:compile-error") and i <= stats["g_cases"]:
                    verdicts[i] = "no;valid-program-rejected"
        for i, v in verdicts.items():
            if v.startswith("inc"):
                inconclusive += 1
                r = v.split(";")[0][4:]
                reasons[r] = reasons.get(r, 0) + 1
            elif v.startswith("skip"):
                skipped += 1
            if prop in concerns(evs[i], v):
                mine[i] = v
        # one representative per signature is confirmed and reported
        bysig = {}
        for i, v in sorted(mine.items()):
            bysig.setdefault(signature(evs[i], v), []).append(i)
        reps = [ids[0] for ids in bysig.values()]
        known = load_known(prop)
        violations = []
        known_hits = {}
        unreproduced = []
        if reps:
            def adjust(vd):
                if fam.get("compile_must_succeed"):
                    for j, vv in list(vd.items()):
                        if vv.startswith("skip:compile-error") and j <= stats["g_cases"]:
                            vd[j] = "no;valid-program-rejected"
                return vd
            cverd, cevs = confirm(prop, fam, work, jh, specdir, evs, reps, cases)
            adjust(cverd)
            # outcomes that depend on Go's map iteration order may need more than one attempt
            for attempt in range(4):
                retry = [i for i in reps if cverd.get(i) is None or prop not in concerns(cevs[i], cverd.get(i))]
                if not retry:
                    break
                cv2, ce2 = confirm(prop, fam, work, jh, specdir, evs, retry, cases)
                adjust(cv2)
                for i in retry:
                    if cv2.get(i) is not None and prop in concerns(ce2[i], cv2[i]):
                        cverd[i] = cv2[i]
                        cevs[i] = ce2[i]
            for i in reps:
                v2 = cverd.get(i)
                if v2 is None or prop not in concerns(cevs[i], v2):
                    # second evaluation of the same case in a fresh process disagrees with the first:
                    # for histories-sensitive properties (C05) the first observation stands only if
                    # the check says so
                    if fam.get("order_sensitive") or "order-dependent" in mine[i]:
                        # (an outcome that depends on the order of evaluations was already observed twice, by order_check)
                        v2 = mine[i]
                        ce = evs[i]
                    else:
                        # not a verdict: reported as an infrastructure failure unless the run also has
                        # disagreements that do reproduce (then those are reported, and this one is logged)
                        if evs[i].get("out", {}).get("o") in ("timeout", "crash"):
                            # a wall-clock limit hit once and never again under a three times longer limit: machine load, not the code
                            log("   case %d (%s): %s in the first run, not in any of the fresh-process runs; taken as machine load" % (i, src_of(evs[i])[:80], evs[i]["out"]["o"]))
                            stats["transient_timeouts"] = stats.get("transient_timeouts", 0) + 1
                            continue
                        unreproduced.append("case %d (%s): %s -> %s" % (i, src_of(evs[i]), mine[i], v2))
                        continue
                else:
                    ce = cevs[i]
                k = match_known(known, ce, v2)
                if k is not None:
                    known_hits.setdefault(k["id"], (k, 0))
                    known_hits[k["id"]] = (k, known_hits[k["id"]][1] + len(bysig[signature(evs[i], mine[i])]))
                else:
                    path = write_replay(prop, a.tier, seed, dict(ce, exp=None), v2, "G" if i <= stats["g_cases"] else "V")
                    violations.append((i, v2, path))
        # history failures (deterministic for a given seed: the driver is sequential and in-process)
        hsig = {}
        for (v, e, hist, k) in hfails:
            if prop not in concerns(e, v):
                continue
            hsig.setdefault(signature(e, v), (v, e, hist))
        for sg, (v, e, hist) in sorted(hsig.items()):
            kf = match_known(known, e, v)
            if kf is not None:
                known_hits[kf["id"]] = (kf, known_hits.get(kf["id"], (kf, 0))[1] + 1)
                continue
            path = write_replay(prop, a.tier, seed, e, v, "V-history")
            with open(path) as f:
                rp = json.load(f)
            rp["history"] = [dict((kk, (cps_to_str(vv) if kk == "src" else vv)) for kk, vv in h.items() if kk not in ("ast", "ast_after", "nmcps")) for h in hist]
            with open(path, "w") as f:
                json.dump(rp, f, indent=1, ensure_ascii=False)
            violations.append((None, v, path))
            log("   history: %s | last event %s | verdict %s" % (cps_to_str(e.get("src", [])), json.dumps(plain_out(e.get("out")))[:160], v))
        if unreproduced and not violations and not known_hits:
            raise Infra("disagreement did not reproduce in a fresh process: " + "; ".join(unreproduced[:5]))
        for u in unreproduced[:10]:
            log("   not reproduced in a fresh process (depends on what the worker process ran before; not reported): " + u)
        for kid, (k, cnt) in sorted(known_hits.items()):
            print("KNOWN-FINDING: property=%s %s (%d cases in this run)" % (prop, k["what"], cnt))
        for n_v, (i, v, path) in enumerate(violations):
            if n_v == 25:
                log("   ... %d more distinct violation signatures (replay files written)" % (len(violations) - 25))
            if n_v >= 25:
                continue
            print("VIOLATION property=%s replay=%s" % (prop, os.path.relpath(path, VERIF)))
            if i is None:
                continue
            log("   case: %s | input %s | observed %s | verdict %s" % (src_of(evs[i]), json.dumps(plain(evs[i].get("inp")))[:200], json.dumps(plain_out(evs[i]["out"]))[:200], v))
        # evidence
        total = len(evs)
        nontrivial = set()
        parse_div = sum(1 for e in evs.values() if e.get("parse_same") is False)
        samples = []
        rnd = random.Random(seed)
        ids = sorted(evs)
        for i in ids:
            e = evs[i]
            if e.get("ev") == "Date":
                if verdicts.get(i, "ok") == "ok":
                    nontrivial.add(json.dumps([e.get(k) for k in ("fn", "day", "msod", "pic", "tz", "s")]))
                continue
            if e.get("ev") == "Num":
                if verdicts.get(i, "ok") == "ok":
                    nontrivial.add(json.dumps([[st.get(k) for k in ("fn", "x", "p", "pic", "opts", "s")] for st in e.get("steps", [])]))
                continue
            if e.get("ev") == "Denote":
                if verdicts.get(i, "ok") == "ok":
                    nontrivial.add(json.dumps(e["bytes"]))
                continue
            if e.get("ev") == "Lex":
                if verdicts.get(i, "ok") == "ok" and e["out"].get("o") in ("ok", "err") and len(e.get("toks", [])) >= 2:
                    nontrivial.add(json.dumps(e["bytes"]))
                continue
            if e.get("ev") != "Eval":
                continue
            o = e["out"].get("o")
            if o in ("val", "err") and verdicts.get(i, "ok").split(";")[0] == "ok":
                nontrivial.add(cps_to_str(e["src"]) + "|" + json.dumps(e["inp"], sort_keys=True))
        for i in rnd.sample(ids, min(6, len(ids))):
            e = evs[i]
            if e.get("ev") == "Num":
                samples.append({"calls": [{"call": cps_to_str(st.get("src", [])), "x": st.get("x"), "observed": ({"text": cps_to_str(st["out"]["s"])} if "s" in st.get("out", {}) else st.get("out"))} for st in e.get("steps", [])],
                                "spec_verdict": verdicts.get(i, "ok")})
                continue
            if e.get("ev") == "Date":
                samples.append({"call": cps_to_str(e.get("src", [])), "observed": ({"text": cps_to_str(e["out"]["s"])} if "s" in e.get("out", {}) else e.get("out")), "spec_verdict": verdicts.get(i, "ok")})
                continue
            if "bytes" in e:
                samples.append({"input_bytes_as_text": src_of(e), "tokens": len(e.get("toks", [])), "observed": e["out"], "spec_verdict": verdicts.get(i, "ok")})
                continue
            samples.append({"program": cps_to_str(e["src"]), "input": plain(e["inp"]), "observed": plain_out(e["out"]),
                            "spec_verdict": verdicts.get(i, "ok"), "direction": "G" if i <= stats["g_cases"] else "V"})
        coverage = {
            "states": stats["g_states"] + stats["v_states"] + stats.get("h_states", 0) + stats.get("m_states", 0),
            "transitions": stats["g_transitions"] + stats["v_transitions"] + stats.get("h_transitions", 0) + stats.get("m_transitions", 0),
            "traces_validated_against_impl": total + stats.get("h_histories", 0),
            "samples": samples,
            "evaluations": total,
            "distinct_nontrivial": len(nontrivial),
            "rule": fam.get("rule", "a case is a (program, input) pair; it is non-trivial when the real code returned a value or an error for it (not 'no value') and the specification pinned that outcome; distinct by program text and input"),
            "exhaustive": bool(fam.get("g")) and a.replay is None,
            "tlc_enumeration": stats["g_runs"],
            "generators": stats["v_runs"],
            "g_cases_replayed": stats["g_cases"], "v_cases_recorded": stats["v_cases"], "directed_cases": stats["fixed_cases"],
            "spec_abstained": inconclusive, "abstained_reasons": reasons, "enumerated_trees_parsed_differently": parse_div, "skipped_compile_errors": skipped,
            "lines_not_accepted_for_other_properties": len(verdicts) - inconclusive - skipped - len(mine),
            "known_findings_reproduced": [k["id"] for k, _ in known_hits.values()],
            "api_histories": {"histories": stats.get("h_histories", 0), "events": stats.get("h_events", 0), "evals": stats.get("h_evals", 0),
                              "spec_abstained": stats.get("h_abstained", 0), "sample_history": stats.get("h_sample", [])},
            "design_model_runs": stats.get("m_runs", []),
            "binding_selftest": stats.get("binding_selftest"),
            "replay_wall_s": stats.get("replay_s"), "validate_wall_s": stats.get("validate_s"),
        }
        if a.replay is None:
            write_evidence(prop, a.tier, seed, "model_checking", coverage, time.time() - t_start, len(violations),
                           fam.get("assumptions", []) + families.COMMON_ASSUMPTIONS)
        log("[%s] %s tier: %d cases (%d G, %d V), %d not accepted (%d for this property, %d abstained), %d violations, %.0fs" %
            (prop, a.tier, total, stats["g_cases"], stats["v_cases"], len(verdicts), len(mine), inconclusive, len(violations), time.time() - t_start))
        return 1 if violations else 0
    except Infra as e:
        print("INFRASTRUCTURE: " + str(e), file=sys.stderr)
        return 2
    finally:
        if not a.keep:
            shutil.rmtree(work, ignore_errors=True)
