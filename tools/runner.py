import argparse, json, os, shutil, subprocess, sys, time, random
from vlib import *
import families

NON_SEMANTIC = {"C05", "C06", "C08", "C09", "C10"}

def concerns(ev, verdict):
    """Which properties a failing trace line is a violation of (DESIGN.md 5.6)."""
    fam = ev.get("fam", "?")
    out = ev.get("out", {})
    parts = verdict.split(";")
    s = set()
    sem = parts[0]
    if sem == "no" or sem.startswith("dev:"):
        if fam not in NON_SEMANTIC:
            s.add(fam)
        if out.get("o") in ("panic", "timeout", "crash"):
            s.add("C09" if ev.get("ev") != "Compile" else "C08")
        if out.get("o") in ("unproj", "bad"):
            s.add("C10")
    for p in parts[1:]:
        if p in ("input-modified", "binds-modified"):
            s.add("C07")
        elif p in ("ast-modified", "string-changed", "not-repeatable"):
            s.add("C05")
        elif p in ("not-json", "evalbytes-differs", "undefined-mismatch"):
            s.add("C10")
    return s

def signature(ev, verdict):
    out = ev.get("out", {})
    if out.get("o") == "panic":
        return "panic:%s:%s" % (out.get("site"), out.get("msg"))
    if out.get("o") in ("timeout", "crash"):
        return "%s:%s" % (out.get("o"), cps_to_str(ev.get("src", []))[:60])
    if out.get("o") == "unproj":
        return "unproj:" + out.get("gotype", "")
    return "%s:%s" % (verdict, cps_to_str(ev.get("src", []))[:80])

def run_pipeline(prop, fam, tier, seed, work, jh, specdir, stats):
    """G: TLC enumerates cases -> replay; V: seeded generators -> replay; then trace validation."""
    cases = os.path.join(work, "cases.ndjson")
    open(cases, "w").close()
    nid = 1
    for (module, cfgs) in fam.get("g", []):
        cfg = cfgs[tier]
        t0 = time.time()
        out, gen, dist = run_tlc(specdir, module, cfg, workers=16, timeout=fam.get("tlc_timeout", 3000))
        n = extract_cases(out, cases, fam.get("famtag", prop), nid)
        os.remove(out)
        nid += n
        stats["g_states"] += dist
        stats["g_transitions"] += gen
        stats["g_cases"] += n
        stats["g_runs"].append({"module": module, "config": cfg, "distinct_states": dist, "generated": gen, "cases": n, "wall_s": round(time.time() - t0, 1)})
        log("[%s] TLC %s/%s: %d distinct states, %d cases in %.1fs" % (prop, module, cfg, dist, n, time.time() - t0))
    for v in fam.get("v", []):
        n = v["n"][tier]
        args = [jh, "gen", "-profile", v["profile"], "-seed", str(seed * 1000 + len(stats["v_runs"])), "-n", str(n),
                "-start", str(nid), "-fam", v.get("famtag", fam.get("famtag", prop)), "-out", cases] + v.get("args", [])
        r = subprocess.run(args, capture_output=True, text=True)
        if r.returncode != 0:
            raise Infra("generator failed: " + r.stderr[-2000:])
        nid += n
        stats["v_cases"] += n
        stats["v_runs"].append({"profile": v["profile"], "n": n})
    for extra in fam.get("files", []):
        # fixed regression cases (directed replays, DESIGN.md 4.6)
        with open(os.path.join(VERIF, extra)) as f, open(cases, "a") as g:
            for line in f:
                if line.strip():
                    c = json.loads(line)
                    c["id"] = nid
                    c.setdefault("fam", fam.get("famtag", prop))
                    nid += 1
                    stats["fixed_cases"] += 1
                    g.write(json.dumps(c) + "\n")
    trace = os.path.join(work, "trace.ndjson")
    t0 = time.time()
    replay(jh, cases, trace, timeout_s=fam.get("case_timeout", 3))
    stats["replay_s"] = round(time.time() - t0, 1)
    t0 = time.time()
    verdicts, gen, dist = validate(specdir, trace, timeout=fam.get("tlc_timeout", 3000))
    stats["validate_s"] = round(time.time() - t0, 1)
    stats["v_states"] = dist
    stats["v_transitions"] = gen
    return cases, trace, verdicts

def confirm(prop, fam, work, jh, specdir, evs, failing, cases_path=None):
    """Every disagreement is re-executed alone in a fresh process before anything is reported."""
    if not failing:
        return {}
    cdir = os.path.join(work, "confirm")
    os.makedirs(cdir, exist_ok=True)
    cases = os.path.join(cdir, "cases.ndjson")
    orig = {}
    want = set(failing)
    if cases_path:
        with open(cases_path) as f:
            for line in f:
                if line.strip():
                    c = json.loads(line)
                    if c["id"] in want:
                        orig[c["id"]] = c
    with open(cases, "w") as f:
        for i in failing:
            e = evs[i]
            c = orig.get(i) or {"id": i, "fam": e.get("fam"), "src": cps_to_str(e["src"]), "inp": e["inp"], "binds": e.get("binds", [])}
            c.pop("exp", None)
            f.write(json.dumps(c) + "\n")
    trace = os.path.join(cdir, "trace.ndjson")
    replay(jh, cases, trace, timeout_s=fam.get("case_timeout", 3) * 3, jobs=8)
    verdicts, _, _ = validate(specdir, trace, workers=8)
    return verdicts, load_trace(trace)

def main(argv):
    ap = argparse.ArgumentParser()
    ap.add_argument("prop")
    ap.add_argument("--tier", default=os.environ.get("VERIF_TIER", "quick"), choices=["quick", "thorough"])
    ap.add_argument("--replay")
    ap.add_argument("--keep", action="store_true")
    a = ap.parse_args(argv)
    prop = a.prop
    seed = int(os.environ.get("VERIF_SEED", "1") or 1)
    if prop not in families.FAMILIES:
        print("unknown property", prop, file=sys.stderr)
        return 2
    fam = families.FAMILIES[prop]
    if "custom" in fam:
        return fam["custom"](prop, a.tier, seed, a)
    t_start = time.time()
    work = mkwork(prop)
    try:
        jh = build_harness(work)
        specdir = stage_spec(work)
        stats = {"g_states": 0, "g_transitions": 0, "g_cases": 0, "v_cases": 0, "fixed_cases": 0, "g_runs": [], "v_runs": []}
        if a.replay:
            with open(a.replay) as f:
                rp = json.load(f)
            fam = dict(fam, g=[], v=[], files=[])
            os.makedirs(os.path.join(work, "rp"), exist_ok=True)
            rel = os.path.join(".work", os.path.basename(work), "rp", "case.ndjson")
            with open(os.path.join(VERIF, rel), "w") as f:
                f.write(json.dumps(rp["case"]) + "\n")
            fam["files"] = [rel]
        cases, trace, verdicts = run_pipeline(prop, fam, a.tier, seed, work, jh, specdir, stats)
        evs = load_trace(trace)
        mine = {}
        inconclusive = skipped = 0
        reasons = {}
        for i, v in verdicts.items():
            if v.startswith("inc"):
                inconclusive += 1
                r = v.split(";")[0][4:]
                reasons[r] = reasons.get(r, 0) + 1
            elif v.startswith("skip"):
                skipped += 1
            if prop in concerns(evs[i], v):
                mine[i] = v
        # one representative per signature is confirmed and reported
        bysig = {}
        for i, v in sorted(mine.items()):
            bysig.setdefault(signature(evs[i], v), []).append(i)
        reps = [ids[0] for ids in bysig.values()]
        known = load_known(prop)
        violations = []
        known_hits = {}
        if reps:
            cverd, cevs = confirm(prop, fam, work, jh, specdir, evs, reps, cases)
            for i in reps:
                v2 = cverd.get(i)
                if v2 is None or prop not in concerns(cevs[i], v2):
                    # second evaluation of the same case in a fresh process disagrees with the first:
                    # for histories-sensitive properties (C05) the first observation stands only if
                    # the check says so
                    if fam.get("order_sensitive"):
                        v2 = mine[i]
                        ce = evs[i]
                    else:
                        raise Infra("disagreement on case %d (%s) did not reproduce in a fresh process: %s -> %s" %
                                    (i, cps_to_str(evs[i]["src"]), mine[i], v2))
                else:
                    ce = cevs[i]
                k = match_known(known, ce, v2)
                if k is not None:
                    known_hits.setdefault(k["id"], (k, 0))
                    known_hits[k["id"]] = (k, known_hits[k["id"]][1] + len(bysig[signature(evs[i], mine[i])]))
                else:
                    path = write_replay(prop, a.tier, seed, dict(ce, exp=None), v2, "G" if i <= stats["g_cases"] else "V")
                    violations.append((i, v2, path))
        for kid, (k, cnt) in sorted(known_hits.items()):
            print("KNOWN-FINDING: property=%s %s (%d cases in this run)" % (prop, k["what"], cnt))
        for n_v, (i, v, path) in enumerate(violations):
            if n_v == 25:
                log("   ... %d more distinct violation signatures (replay files written)" % (len(violations) - 25))
            if n_v >= 25:
                continue
            print("VIOLATION property=%s replay=%s" % (prop, os.path.relpath(path, VERIF)))
            log("   case: %s | input %s | observed %s | verdict %s" % (cps_to_str(evs[i]["src"]), json.dumps(plain(evs[i]["inp"]))[:200], json.dumps(plain_out(evs[i]["out"]))[:200], v))
        # evidence
        total = len(evs)
        nontrivial = set()
        parse_div = sum(1 for e in evs.values() if e.get("parse_same") is False)
        samples = []
        rnd = random.Random(seed)
        ids = sorted(evs)
        for i in ids:
            e = evs[i]
            if e.get("ev") != "Eval":
                continue
            o = e["out"].get("o")
            if o in ("val", "err") and verdicts.get(i, "ok").split(";")[0] == "ok":
                nontrivial.add(cps_to_str(e["src"]) + "|" + json.dumps(e["inp"], sort_keys=True))
        for i in rnd.sample(ids, min(6, len(ids))):
            e = evs[i]
            samples.append({"program": cps_to_str(e["src"]), "input": plain(e["inp"]), "observed": plain_out(e["out"]),
                            "spec_verdict": verdicts.get(i, "ok"), "direction": "G" if i <= stats["g_cases"] else "V"})
        coverage = {
            "states": stats["g_states"] + stats["v_states"],
            "transitions": stats["g_transitions"] + stats["v_transitions"],
            "traces_validated_against_impl": total,
            "samples": samples,
            "evaluations": total,
            "distinct_nontrivial": len(nontrivial),
            "rule": fam.get("rule", "a case is a (program, input) pair; it is non-trivial when the real code returned a value or an error for it (not 'no value') and the specification pinned that outcome; distinct by program text and input"),
            "exhaustive": bool(fam.get("g")) and a.replay is None,
            "tlc_enumeration": stats["g_runs"],
            "generators": stats["v_runs"],
            "g_cases_replayed": stats["g_cases"], "v_cases_recorded": stats["v_cases"], "directed_cases": stats["fixed_cases"],
            "spec_abstained": inconclusive, "abstained_reasons": reasons, "enumerated_trees_parsed_differently": parse_div, "skipped_compile_errors": skipped,
            "lines_not_accepted_for_other_properties": len(verdicts) - inconclusive - skipped - len(mine),
            "known_findings_reproduced": [k["id"] for k, _ in known_hits.values()],
            "replay_wall_s": stats.get("replay_s"), "validate_wall_s": stats.get("validate_s"),
        }
        if a.replay is None:
            write_evidence(prop, a.tier, seed, "model_checking", coverage, time.time() - t_start, len(violations),
                           fam.get("assumptions", []) + families.COMMON_ASSUMPTIONS)
        log("[%s] %s tier: %d cases (%d G, %d V), %d not accepted (%d for this property, %d abstained), %d violations, %.0fs" %
            (prop, a.tier, total, stats["g_cases"], stats["v_cases"], len(verdicts), len(mine), inconclusive, len(violations), time.time() - t_start))
        return 1 if violations else 0
    except Infra as e:
        print("INFRASTRUCTURE: " + str(e), file=sys.stderr)
        return 2
    finally:
        if not a.keep:
            shutil.rmtree(work, ignore_errors=True)
