#!/bin/sh
# seedwave.sh <prop> "<A:C B:D ...>" <check>... : stores the sub-agent's seeds /tmp/wt/out-<prop>/<A|B|..> as
# seeded/<prop>-<letter> (after confirming them) and runs the given quick checks against each in a scratch worktree
p=$1; map=$2; shift; shift
cd /verif
for x in $map; do
  src=/tmp/wt/out-$p/${x%%:*}; name=$p-${x##*:}
  [ -d $src ] || continue
  python3 tools/seedverify.py $src $name 2>&1 | tail -1
  [ -d seeded/$name ] && tools/seedrun.sh $name "$@" 2>&1 | grep -v "^$"
done
