#!/bin/sh
# seedrun.sh <seeded-name> <check-id>... : applies a seeded change to a scratch worktree of /repo's HEAD
# and runs the quick checks against that worktree (VERIF_REPO); /repo itself is not touched.
name=$1; shift
wt=/tmp/sr/$name
mkdir -p /tmp/sr
git -C /repo worktree remove --force $wt >/dev/null 2>&1
git -C /repo worktree add -q --detach $wt HEAD || exit 2
( cd $wt && git apply /verif/seeded/$name/patch.diff ) || { echo "$name: patch does not apply"; git -C /repo worktree remove --force $wt; exit 2; }
cd /verif
for c in "$@"; do
  VERIF_REPO=$wt ./check $c --tier ${TIER:-quick} > /tmp/seedrun.$name.$c.out 2> /tmp/seedrun.$name.$c.err
  echo "$name $c exit=$? $(grep -c '^VIOLATION' /tmp/seedrun.$name.$c.out) violations; $(tail -1 /tmp/seedrun.$name.$c.err)"
done
git -C /repo worktree remove --force $wt
