#!/bin/sh
# seedrun.sh <seeded-name> <check-id>... : applies a seeded change to /repo, runs the quick checks, undoes it.
name=$1; shift
cd /repo || exit 2
git diff --quiet || { echo "/repo has uncommitted changes"; exit 2; }
git apply /verif/seeded/$name/patch.diff || exit 2
cd /verif
for c in "$@"; do
  ./check $c --tier ${TIER:-quick} > /tmp/seedrun.$name.$c.out 2> /tmp/seedrun.$name.$c.err
  echo "$name $c exit=$? $(grep -c '^VIOLATION' /tmp/seedrun.$name.$c.out) violations; $(tail -1 /tmp/seedrun.$name.$c.err)"
done
git -C /repo checkout -- .
