#!/bin/sh
# runall.sh [tier] : runs every registered check once and prints one summary line per check
tier=${1:-quick}
cd "$(dirname "$0")/.."
for id in $(python3 -c "import json; print(' '.join(c['property_id'] for c in json.load(open('MANIFEST.json'))['checks']))"); do
  start=$(date +%s)
  ./check $id --tier $tier > /tmp/runall.$id.out 2> /tmp/runall.$id.err
  rc=$?
  echo "$id exit=$rc $(grep -c '^VIOLATION' /tmp/runall.$id.out) violations $(grep -c '^KNOWN-FINDING' /tmp/runall.$id.out) known $(( $(date +%s) - start ))s :: $(tail -1 /tmp/runall.$id.err | cut -c1-160)"
done
