"""Per-property configuration of the checks (DESIGN.md section 6)."""

COMMON_ASSUMPTIONS = [
    "TLC evaluates the TLA+ specification correctly; the Go harness only encodes/decodes values, prints programs and runs the real code (no oracle in Go)",
    "numbers: the specification computes with exact rationals; a double is identified with the unique small rational whose nearest double it is (math/big); results the model cannot represent are counted as 'spec_abstained', not as agreement",
    "the expression tree evaluated is the one jparse.Parse produced for the program text (the parser itself is the subject of C04/C08/C11)",
]

def G(module, quick, thorough):
    return (module, {"quick": quick, "thorough": thorough})

FAMILIES = {
    "C01": dict(
        g=[G("MC_C01", "MC_C01_quick.cfg", "MC_C01_thorough.cfg")],
        v=[dict(profile="paths", n={"quick": 3000, "thorough": 60000})],
        assumptions=["documents are null-free; objects seen by * and ** have at most one member in the enumerated space (generated cases with more members are compared as multisets or abstained)"],
    ),
}

NOT_YET = {}

_SEM_NOTE = ("Trusted: TLC, the Go harness's value/AST codecs (round-trip self-tested), math/big for the double<->rational projection. "
             "Bounded: exhaustive only within the constants of the MC_* config; beyond them the seeded generators sample. "
             "Cases on which the specification abstains (numbers outside the exact model, unmodelled constructs) are counted, not claimed.")

FAMILIES["C01"].update(
    level_text=("The path rules P1-P9 are an explicit TLA+ operator family (spec/JEval.tla). TLC enumerates every path of up to 2 (quick) / 3 (thorough) steps "
                "over 12 step kinds x keep-array marker x every null-free document of bounded depth incl. arrays directly inside arrays; each enumerated case is replayed into the real "
                "Compile/Eval, and every recorded call (enumerated and seeded-random deeper ones) is validated by TLC against the specification's Eval action, with the frame conditions evaluated on every step."),
    level_note=_SEM_NOTE,
)

FAMILIES["C02"] = dict(
    g=[G("MC_C02", "MC_C02_quick.cfg", "MC_C02_thorough.cfg")],
    v=[dict(profile="preds", n={"quick": 3000, "thorough": 60000})],
    level_text=("The predicate rules F1-F7 (index rule with floor and negative wrap-around, boolean cast, per-step vs whole-path attachment, stacked vs nested shape) are TLA+ operators "
                "(JEval!FilterItems/ApplyFilters). TLC enumerates array lengths 0..5 x positions -7..7 step 0.5 x literal/computed/array/document-supplied indexes x boolean predicates over mixed "
                "elements x nine head shapes x stacking depth 1..2 (3 in thorough); every case is replayed into the real code and every recorded call validated by TLC."),
    level_note=_SEM_NOTE,
)

FAMILIES["C03"] = dict(
    g=[G("MC_C03", "MC_C03_quick.cfg", "MC_C03_thorough.cfg"), G("MC_C03N", "MC_C03N_quick.cfg", "MC_C03N_thorough.cfg")],
    v=[dict(profile="ops", n={"quick": 4000, "thorough": 80000}), dict(profile="numops", n={"quick": 3000, "thorough": 60000})],
    trace_by_ev={"Num": "TraceNum"},
    level_text=("The operator rules O1-O9 are a total TLA+ table (JEval!NumOpResult/CmpResult/Truthy/ConcatPart/Range/Cond) over exact rationals. TLC enumerates all 16 binary operators x 24 x 24 operand "
                "kinds/values (numbers incl. 0, negatives, fractions; strings incl. empty, numeric-looking, non-ASCII; booleans; null; arrays; objects; functions; missing), each operand as a literal or an input member, "
                "unary minus, the lazy conditional with a failing unchosen branch, range limits, exact dyadic arithmetic, and (thorough) the nested depth-2 fragment; every cell is replayed and validated. "
                "Magnitudes beyond the rational model (5e-324 .. 1.8e308, powers of two around 2^53 and 2^63, neighbouring doubles) are covered by a second enumeration (MC_C03N) over decimal digit sequences: + - * / % and the six comparisons on input members, "
                "validated by TraceNum against exact decimal arithmetic on the operands' exact binary expansions (the remainder exactly, the others to half a unit in the last place, overflow and division by zero as errors)."),
    level_note=_SEM_NOTE + " In the rational part IEEE-754 rounding of inexact intermediate results and the sign of zero are outside the model; in the decimal part subnormal operands/results and results at the very edge of the double range are abstained from (DESIGN.md section 7).",
)

_TOTAL_NOTE = ("Trusted: the isolation worker's wall-clock limit (3 s per case, ~1000x the slowest legitimate case) as the observation of non-termination; "
               "recover() around Compile/Eval as the observation of a panic. Exhaustive within the enumerated programs only; seeded generators sample deeper programs.")

FAMILIES["C09"] = dict(
    famtag="C09",
    files=["spec/cases/C09_edges.ndjson", "spec/cases/C10_cyclic.ndjson", "spec/cases/C10_nonfinite.ndjson", "spec/cases/C10_nulls.ndjson", "spec/cases/C09_dates.ndjson", "spec/cases/C09_matchers.ndjson", "spec/cases/C09_substr.ndjson"],
    g=[G("MC_C09", "MC_C09_quick.cfg", "MC_C09_thorough.cfg")],
    v=[dict(profile="mix", n={"quick": 6000, "thorough": 120000}, args=["-nulls"]),
       dict(profile="calls", n={"quick": 2000, "thorough": 40000}, args=["-nulls"])],
    rule="a case is a (program, input) pair; non-trivial when the real code returned a value or an error and the specification pinned that outcome; distinct by program text and input",
    level_text=("Eval's outcome domain in the specification is closed (value | no value | error): the TLA+ evaluator is total, so a panic, a hang or a crash is never a step of the Eval action and trace "
                "validation rejects it. TLC enumerates type-chaotic programs - all 60 built-ins x every arity 0..2 (3 thorough) x 18 argument expressions of every kind incl. functions, nested arrays and missing values in "
                "every position, plus functions used as data in paths/wildcards/predicates/sort keys/group keys - each run in the isolation worker under a wall-clock limit; seeded generators add deeper ill-typed programs over inputs with nulls."),
    level_note=_TOTAL_NOTE,
)
FAMILIES["C10"] = dict(
    famtag="C10",
    files=["spec/cases/C09_edges.ndjson", "spec/cases/C10_cyclic.ndjson", "spec/cases/C10_nonfinite.ndjson", "spec/cases/C10_nulls.ndjson", "spec/cases/C09_dates.ndjson", "spec/cases/C09_matchers.ndjson", "spec/cases/C09_substr.ndjson"],
    g=[G("MC_C09", "MC_C09_quick.cfg", "MC_C09_thorough.cfg"), G("MC_C10B", "MC_C10B_quick.cfg", "MC_C10B_thorough.cfg")],
    v=[dict(profile="mix", n={"quick": 6000, "thorough": 120000}, args=["-nulls"]),
       dict(profile="calls", n={"quick": 2000, "thorough": 40000}),
       dict(profile="jsonbytes", n={"quick": 4000, "thorough": 80000})],
    trace_by_ev={"EvalBytes": "TraceBytes"},
    level_text=("ResultsAreJson and the EvalBytes action (= Encode o Eval o Decode) are stated on the specification's outcome domain: a value that cannot be projected onto the JSON value domain (an internal type, a "
                "non-finite number), a result that does not marshal or does not read back as the same value, an EvalBytes outcome that differs from Eval's, or 'no value' reported otherwise than as ErrUndefined is rejected "
                "by trace validation on every recorded step (TLC-enumerated type-chaotic programs and seeded ones). "
                "The input side of EvalBytes is a TLA+ acceptor and denotation of JSON texts over bytes (JJson: RFC 8259 grammar, escapes, surrogate pairs, number grammar without leading zeros): TLC enumerates every byte string of up to 3 (4 thorough) "
                "bytes over a 16-letter structural alphabet and eleven documents with every trailing byte, deletion, replacement and truncation; each is handed to the real EvalBytes and TraceBytes requires rejection exactly of the non-texts and, for '$', a result denoting the input's value."),
    level_note=_TOTAL_NOTE + " The projection (harness/jh/value.go) is the definition of 'JSON-representable' used by the check.",
)


_API_MODELS = [("MC_Api", "MC_Api_none.cfg", "hold"),
               ("MC_Api", "MC_Api_chain_args.cfg", "AstReadOnly"),
               ("MC_Api", "MC_Api_transform_alias.cfg", "InputsUntouched"),
               ("MC_Api", "MC_Api_registry_alias.cfg", "Visibility")]

FAMILIES["C05"] = dict(
    famtag="C05",
    models=_API_MODELS,
    g=[G("MC_C09", "MC_C09_quick.cfg", "MC_C09_quick.cfg")],
    v=[dict(profile="mix", n={"quick": 5000, "thorough": 100000}),
       dict(profile="blocks", n={"quick": 1500, "thorough": 30000}),
       dict(profile="calls", n={"quick": 1500, "thorough": 30000})],
    hist=dict(n={"quick": 800, "thorough": 16000}),
    files=["spec/cases/C05_history.ndjson"],
    order_check={"quick": 5000, "thorough": 40000},
    level_text=("AstReadOnly and Repeatable are an action property and an invariant of the system specification JApi; TLC proves them for every history of up to 4 API calls over 2 expressions and a program pool with a chain, "
                "a transform and registry lookups, and shows that the named deviations (the chain operator rewriting the parsed call, a transform writing through, a registry alias) violate them. The specification is bound to the code by "
                "trace validation of seeded API histories (TraceApi: Compile/Register/Eval/SetDoc interleaved over 3 expressions x 3 documents, incl. other expressions calling the same built-ins in between) and by a second and third "
                "evaluation on the same Expr after every replayed case (same input; another input in between), with the hook-projected Expr.node and String() compared after every Eval. "
                "Order check: a sample of the cases (all directed ones: programs that denote the same thing in different spellings, and calls through aliases) is evaluated by one process in file order and by another in reverse order, twice; "
                "an outcome (including the function name an argument error carries) that differs between the orders both times is reported as order-dependent unless the program may vary."),
    level_note=_TOTAL_NOTE + " Sanctioned variation ($random, $shuffle, clock, member order, error choice in object constructors) is excluded by a syntactic MayVary predicate in the trace specification.",
)
FAMILIES["C07"] = dict(
    models=_API_MODELS,
    g=[G("MC_C07", "MC_C07_quick.cfg", "MC_C07_thorough.cfg"), G("MC_C07F", "MC_C07F_quick.cfg", "MC_C07F_thorough.cfg")],
    v=[dict(profile="transform", n={"quick": 3000, "thorough": 60000}, args=["-nulls", "-shared"]),
       dict(profile="mix", famtag="C07mix", n={"quick": 4000, "thorough": 80000}, args=["-nulls", "-shared"])],
    hist=dict(n={"quick": 400, "thorough": 8000}),
    level_text=("InputsUntouched is the frame condition of JApi!ApiEval (TLC: holds in the design, violated by the transform_alias deviation); the transform operator is specified in JEval with object identities "
                "(clone, pattern evaluated on the labelled clone, update/delete applied to exactly the selected identities). TLC enumerates patterns x updates x deletes x documents; every replayed and every seeded case (all operators and "
                "built-ins, inputs with nulls, empty containers and shared sub-structures, registered variables) has the caller's document and variables deep-compared before and after by trace validation, successful or failing."),
    level_note=_SEM_NOTE,
)

FAMILIES["C13"] = dict(
    g=[G("MC_C13", "MC_C13_quick.cfg", "MC_C13_thorough.cfg")],
    v=[dict(profile="sort", n={"quick": 1500, "thorough": 20000})],
    level_text=("Order-by and $sort are specified twice in TLA+: functionally (JEval: key tuples, lexicographic comparison with per-term direction and absent-last, stable insertion) and relationally (MC_C13!IsStableSortedPerm: permutation, "
                "adjacent pairs ordered, ties keep input order); TLC checks that the two agree on every enumerated case - all arrays of length 0..3 (4 thorough) over a 3x3 key domain with ties and missing keys x 25 sort specifications x comparators - "
                "and every case is replayed into the real code; seeded arrays of 13-50 tie-rich records (where the standard library's sort stops being accidentally stable) are recorded and validated against the same specification."),
    level_note=_SEM_NOTE,
)

FAMILIES["C14"] = dict(
    g=[G("MC_C14", "MC_C14_quick.cfg", "MC_C14_thorough.cfg")],
    v=[dict(profile="group", n={"quick": 2000, "thorough": 40000})],
    level_text=("Grouping (K1-K2: partition of item indexes by key string per pair, IllegalKey, DuplicateKey across pairs, value evaluated over the group's items in order, absent values omitted) and the object functions (K3) are TLA+ operators; "
                "TLC checks the partition law and the identities of the statement ($merge($spread(o)) = o, $count($keys(o)) = $count($spread(o)), $lookup(o,k) = o.k) on the specification for every enumerated case - all arrays of <= 3 (4) items over "
                "5 x 3 key/second-key values x 27 grouping programs, all objects of <= 3 members x 16 programs - and each case is replayed into the real code and validated; results are compared as canonical (sorted) objects, enumeration results as multisets."),
    level_note=_SEM_NOTE,
)

FAMILIES["C15"] = dict(
    g=[G("MC_C15", "MC_C15_quick.cfg", "MC_C15_thorough.cfg"), G("MC_C15N", "MC_C15N_quick.cfg", "MC_C15N_thorough.cfg")],
    trace_by_ev={"Num": "TraceNum"},
    v=[dict(profile="calls", n={"quick": 3000, "thorough": 60000})],
    level_text=("The definitions A1-A4 ($map/$filter/$reduce/$single with the arity clamp, $append/$reverse/$zip/$distinct/$shuffle, $count/$sum/$max/$min/$average, scalar-as-one-member-array, undefined-argument rules) are TLA+ operators written from the statement; "
                "TLC enumerates all arrays of length 0..3 (4) over the 5-value domain {1,\"1\",true,[1],{\"a\":1}} plus kind-different twins x 14 function arguments (lambdas of arity 0..4, built-ins, a partial, a chain) x 6 reducers x array/aggregate programs, "
                "numeric arrays over integers and halves, scalars in array position and missing arguments; every case is replayed into the real code and validated. $shuffle is compared as a permutation."),
    level_note=_SEM_NOTE,
)

FAMILIES["C12"] = dict(
    g=[G("MC_C12", "MC_C12_quick.cfg", "MC_C12_thorough.cfg")],
    v=[dict(profile="blocks", n={"quick": 3000, "thorough": 60000})],
    level_text=("Scoping is specified with an explicit store of frames shared by reference (JEval: NewFrame/Bind/LookupVar), closures capture frame and context item, signatures are the TLA+ operator SigApply/ArgFits, partial application PartialArgs, "
                "chaining Apply/CallSeq; TLC checks `v ~> f(a)` = `f(v,a)` on the specification and enumerates every 1-parameter (2 thorough) signature over 11 type forms x 4 options against all argument lists of length 0..2 (3) over 10 value kinds, "
                "13 scoping/closure program schemes x 9 value pairs, placeholders in every position of a 3-parameter function x 0..4 arguments, chains of 1..3 stages over 9 stage kinds, and context-defaulting built-ins nested in each other's arguments; "
                "every case is replayed into the real code and validated."),
    level_note=_SEM_NOTE + " The context item seen by a context-defaulting built-in reached through a partial application, a chain or a higher-order built-in is left open by the statement and the specification abstains there.",
)


_LEX_MODELS = [("MC_Lex", "MC_Lex_repaired.cfg", "hold"),
               ("MC_Lex", "MC_Lex_stale_bounds.cfg", "Invariant Bounds"),
               ("MC_Lex", "MC_Lex_stale_term.cfg", "Temporal property Termination")]

FAMILIES["C08"] = dict(
    famtag="C08",
    trace_module="TraceLex",
    models=_LEX_MODELS,
    g=[G("MC_C08", "MC_C08_quick.cfg", "MC_C08_thorough.cfg")],
    v=[dict(profile="compile", n={"quick": 20000, "thorough": 400000})],
    rule="a case is an input byte string; non-trivial when Compile returned an expression or a parse error after handing at least two tokens to the parser and the recorded token trace agrees with the scanner specification; distinct by bytes",
    level_text=("The scanner is an explicit TLA+ step machine over byte strings (JLexFn/JLex: cur, start, width, err; one step per token). TLC proves Bounds (invariant), Progress (action property) and Termination (liveness under weak fairness, "
                "no state constraint) for every byte string of length <= 3 (4 thorough) over a 20-byte alphabet covering every character class incl. 2/3-byte and invalid UTF-8, and shows that the pinned mechanism (stale width after a failed look-ahead, empty name tokens) violates Bounds and Termination. "
                "Compile's outcome domain (expression | *jparse.Error with a defined type, a message and a position inside the input; MustCompile consistent; the returned expression prints and evaluates) and exact token agreement with JLex are checked by trace validation "
                "(TraceLex) on every enumerated string, on every state of the TLA+ edit machine (delete/insert/replace/duplicate/truncate on 42 seed programs) and on seeded random bytes, token soup and edited generated programs, each compiled in the isolation worker under a wall-clock limit."),
    level_note=_TOTAL_NOTE + " Which error a malformed input gets is not fixed by the property and is not checked.",
)

FAMILIES["C04"] = dict(
    famtag="C04",
    trace_module="TraceParse",
    g=[G("MC_C04", "MC_C04_quick.cfg", "MC_C04_thorough.cfg")],
    v=[dict(profile="progtext", n={"quick": 6000, "thorough": 120000})],
    rule="a case is a program text; non-trivial when the grammar specification does not abstain and the real parser built a tree (or rejected the text) for it; distinct by bytes",
    level_text=("The grammar is specified twice in TLA+: functionally (JSyntax!Parse: precedence climbing over the ten precedence rows, driven by the scanner specification exactly where a regular expression is allowed, plus the tree normalisation) "
                "and declaratively (MC_C04!WellShaped/Yield: every infix node's left child binds at least as tightly, its right child strictly tighter except under :=, and the in-order yield is the token sequence). TLC checks that they agree and that the tree "
                "does not depend on whitespace for every chain of 2..3 infix/postfix operators (thorough: also every chain of 4 binary operators over variables) over the complete operator set (18 binary tokens, [p], [], {k:v}, ^(k), (a), ?:, ?) in nine operand flavours (variables, names, literals, negated tight and spaced - a prefix minus takes exactly the operand that follows it -, operands ending in } and |, wildcard and descendant operands * ** a.** b.*); every chain is rendered tightly and with "
                "generous whitespace, compiled by the real parser, and its exported tree compared with the specification's by trace validation (TraceParse); seeded generated programs of every family are validated the same way."),
    level_note=_SEM_NOTE + " Regular-expression literals and lambda signatures are outside JSyntax (the specification abstains; see C17/C12).",
)


FAMILIES["C11"] = dict(
    famtag="C11",
    trace_module="TraceDenote",
    trace_by_ev={"Num": "TraceNum"},
    g=[G("MC_C11", "MC_C11_quick.cfg", "MC_C11_thorough.cfg"), G("MC_C11N", "MC_C11N_quick.cfg", "MC_C11N_thorough.cfg")],
    v=[dict(profile="jsontext", n={"quick": 5000, "thorough": 100000}), dict(profile="numlits", n={"quick": 3000, "thorough": 60000})],
    rule="a case is a candidate JSON text; non-trivial when it was accepted and evaluated to a value that the specification's denotation (or, for numerals outside the exact model, the reference decoder) confirms, or was rejected as malformed; distinct by bytes",
    level_text=("The denotation of a JSON text is defined in TLA+ alone: JSyntax!Parse (escape decoding incl. \\uXXXX and surrogate pairing, numeral grammar and range rule, nested constructors) composed with the literal/constructor rules of JEval. "
                "TLC checks on the specification that single- and double-quoted forms denote the same value, that string literals denote strings or are rejected, and that whitespace is insignificant, for every enumerated text: all string literals of <= 3 units over 27 units "
                "(every escape form, BMP and astral characters raw and escaped, metacharacters, malformed escapes and unpaired surrogates), 420 numerals from the grammar plus edge numerals (17 digits, > 2^53, 1e308/1e309/1e400, subnormal, -0, malformed), containers to depth 3 incl. empty and array-in-array. "
                "Each text is compiled as an expression and evaluated with EvalBytes by the real code and validated (TraceDenote); seeded random JSON documents written with random escape forms, number spellings, whitespace and malformed neighbours are validated the same way."),
    level_note=_SEM_NOTE + " For numerals outside the exact-rational model (more than 9 significant digits or exponents) the value is compared with encoding/json's decoding of the same text (reference decoder, named by the property itself); strconv/math-big rounding is trusted there.",
)


FAMILIES["C16"] = dict(
    g=[G("MC_C16", "MC_C16_quick.cfg", "MC_C16_thorough.cfg")],
    v=[dict(profile="str", n={"quick": 5000, "thorough": 100000})],
    level_text=("The string functions are TLA+ operators on code-point sequences (JLibStr: Substring, Pad with cycling, Before/After, Trim, Split, Join, Replace, case tables), and UTF-8, base64 and percent-encoding are defined arithmetically, so the inverse laws of the statement "
                "are theorems that TLC checks on the specification for every enumerated string; TLC enumerates all strings of length <= 2 (3 thorough) over {a , space e-acute euro grin} x start/length/width/limit in -4..4 (-8..8) incl. halves x pad/separator strings of length 0..2(3) "
                "per function, plus the laws as JSONata equalities; every case is replayed into the real code and validated; seeded strings up to length 40 over a wider alphabet are validated the same way."),
    level_note=_SEM_NOTE + " Case mapping is an explicit table (ASCII, Latin-1, Greek, Cyrillic); outside it the specification abstains. The escaping convention of $encodeUrlComponent is an open choice (form-encoding or URI-component); only the round trip is fixed by the statement.",
)


FAMILIES["C17"] = dict(
    g=[G("MC_C17", "MC_C17_quick.cfg", "MC_C17_thorough.cfg"), G("MC_C17R", "MC_C17R.cfg", "MC_C17R.cfg")],
    v=[dict(profile="rx", n={"quick": 6000, "thorough": 120000})],
    level_text=("The regular-expression engine is an environment of the specification: each recorded step carries, for every regex literal of the program and every string it can be applied to, the match list the engine reported (checked for well-formedness by JRegex!WellFormedMatches). "
                "Everything the port builds on it is specified in TLA+ (JRegex/JEval): match objects and the `next` chain, $match with limit, $contains, $split, $replace with the $N/$0/$$ template rule and with a replacement function, limits, context defaulting; the scanner and grammar specifications cover the literal syntax (\\/, bracket depth, flags). "
                "TLC checks the template rule's laws and enumerates every template of <= 4 (5) units over {$,0,1,2,x} plus two-digit forms against patterns with 0/1/2/3/12 groups, and every function form over 8 patterns x 10 subjects x 6 limits; seeded patterns from a grammar (classes, alternation, nested/optional groups, quantifiers, anchors, every flag subset) x subjects <= 12 x templates x limits are validated the same way. MC_C17R enumerates 44 pattern texts (empty, well-formed, malformed in every way RE2 distinguishes) x 9 flag sets x 9 places a literal can stand; whether the engine accepts the text is recorded as environment and a literal with an empty or rejected pattern must be a compile error."),
    level_note=_SEM_NOTE + " That RE2 itself finds the leftmost non-overlapping matches is assumed (environment); the recorded match lists come from Go's regexp applied to the pattern text the parser extracted.",
)

FAMILIES["C20"] = dict(
    models=_API_MODELS,
    g=[G("MC_C20", "MC_C20_quick.cfg", "MC_C20_thorough.cfg")],
    v=[],
    hist=dict(n={"quick": 600, "thorough": 12000}),
    level_text=("Registry visibility is the invariant JApi!Visibility (an expression sees exactly the package-level registrations made before it was compiled plus its own), proved by TLC for all histories of <= 4 API calls and shown to fail under the registry_alias deviation; "
                "seeded histories of RegisterVars/RegisterExts (package- and Expr-level, valid and invalid names, same-named values on different expressions) interleaved with Compile and Eval are validated against JApi by TraceApi. Argument passing is the TLA+ relation JEval!Convert / ExtCall "
                "(numbers to numeric kinds, strings to string or []byte but nothing else to string, anything to interface{}/reflect.Value, Optional* unset when omitted, variadic tail, the two handlers, error and ErrUndefined results): TLC enumerates every parameter list of length 0..2 over 16 Go parameter kinds, "
                "with and without a variadic tail, x argument lists of length 0..2 (3) over 9 argument kinds incl. function and missing, plus handler and result-shape combinations; each case builds the Go function by reflection, which echoes what it received, and is validated by trace validation. An argument error names the function (rule E3): 120 programs reach the extension through an alias or a lambda parameter first and then fail by another route (direct call, higher-order built-in, chain, partial application, block callee); the name must be the registered one."),
    level_note=_SEM_NOTE + " Out-of-range and fractional numeric conversions and JSON null arguments are left open by the statement (the specification abstains).",
)


FAMILIES["C06"] = dict(
    custom="c06",
    models=[("MC_Call", "MC_Call_nested_design.cfg", "hold"), ("MC_Call", "MC_Call_two_design.cfg", "hold"), ("MC_Call", "MC_Call_three_design.cfg", "hold"),
            ("MC_Call", "MC_Call_deep_design.cfg", "hold"), ("MC_Call", "MC_Call_nested_shared.cfg", "Invariant OwnContext"), ("MC_Call", "MC_Call_two_shared.cfg", "Invariant OwnContext"),
            ("MC_Api", "MC_Api_none.cfg", "hold"), ("MC_Api", "MC_Api_registry_alias.cfg", "Visibility")],
    sched_cfgs={"quick": ["MC_CallSched_nested.cfg", "MC_CallSched_two.cfg", "MC_CallSched_twosame.cfg", "MC_CallSched_three.cfg"],
                "thorough": ["MC_CallSched_nested.cfg", "MC_CallSched_two.cfg", "MC_CallSched_twosame.cfg", "MC_CallSched_three.cfg", "MC_CallSched_deep.cfg"]},
    conc={"quick": {"goroutines": [2, 8, 32], "dur": "3s"}, "thorough": {"goroutines": [2, 4, 8, 16, 32], "dur": "30s"}},
    level_text=("A function call is refined in TLA+ into the steps the evaluator takes (JCall: SetCtx, Descend, Invoke per goroutine and call frame). TLC proves OwnContext (every built-in reads the context item of its own call site) and termination for every interleaving of 1-3 goroutines "
                "with call trees up to depth 3, and shows that keeping the context in the shared callable (the pinned defect) violates it both by nesting and by interleaving. Every interleaving TLC enumerates (MC_CallSched) is forced on the real code through a blocking gate hook placed before each protocol step "
                "(token passing, sequence numbers issued under the gate's mutex), on private and on shared compiled expressions; the recorded steps are validated as a behaviour of JCall (TraceCall, with the context actually read recorded from a hook) and each goroutine's outcome is validated against the sequential semantics. "
                "Free-running goroutines (2..32) looping over generated programs with goroutine-specific inputs, alongside Compile and package-level registration, run in a -race build: every distinct outcome is validated against the sequential semantics and any race-detector report is a violation."),
    level_note="Data-race freedom in the sense of the Go memory model is observed by the race detector under these schedules and loads; it is not derived from the TLA+ model (DESIGN.md section 7). The gate hook is build-tag guarded.",
)


FAMILIES["C19"] = dict(
    famtag="C19",
    trace_module="TraceDate",
    trace_by_ev={"Eval": "TraceEval"},
    g=[G("MC_C19", "MC_C19_quick.cfg", "MC_C19_thorough.cfg")],
    v=[dict(profile="dates", n={"quick": 40000, "thorough": 3400000}), dict(profile="clock", n={"quick": 300, "thorough": 3000})],
    rule="a case is one $fromMillis / $toMillis call (instant, picture, offset); non-trivial when the specification pins the rendered fields or the parsed instant; distinct by arguments",
    level_text=("The proleptic Gregorian calendar (Civil/DaysFromCivil by the 400/100/4-year cycle), weekday, day of year, ISO week (Thursday rule), the 12-hour clock 12,1..11, AM/PM, English names, width/ordinal/name modifiers, fraction digits, offsets and the default ISO-8601 picture are a TLA+ specification (JLibDate) of what every picture component must show; "
                "$toMillis on the default layouts is its inverse (ParseIso). TLC checks Civil/DaysFromCivil inversion, known ISO-week edge years and weekdays on the specification and enumerates 73 component markers x 33 edge instants (epoch, leap days, year boundaries, ISO-week edge years, years 1000 and 9999, the 64-bit-nanosecond limits) x times of day x offsets "
                "(-1400..+1400, every 15 minutes in thorough), the round trip through three pictures, malformed pictures and offsets; a sweep over the days 1000-01-01..9999-12-31 (every 97th day quick, every day thorough) checks year/month/day/weekday/day-of-year/ISO-week and the round trip; every call goes through the real Compile/Eval and is validated by TLC (TraceDate). "
                "The clock clause ($now/$millis constant within one evaluation and inside the Eval bracket) is checked by the clock events of the same trace."),
    level_note=_SEM_NOTE + " Abbreviated names under a width modifier are checked relationally (an abbreviation of the English name that fits the width); [F] as a number, [w], [C], [E] and non-decimal presentations are outside JLibDate (the specification abstains).",
)

FAMILIES["C18"] = dict(
    g=[G("MC_C18", "MC_C18_quick.cfg", "MC_C18_thorough.cfg"), G("MC_C18N", "MC_C18N_quick.cfg", "MC_C18N_thorough.cfg")],
    v=[dict(profile="num", n={"quick": 4000, "thorough": 80000}), dict(profile="numfmt", n={"quick": 6000, "thorough": 150000})],
    trace_by_ev={"Num": "TraceNum"},
    level_text=("$number is an acceptor (-? digits (. digits)? ([eE][-+]? digits)?) plus an exact value, $round is half-to-even on the decimal form at digit p (negative p allowed), $floor/$ceil/$abs/$sqrt/$power are exact on rationals with errors instead of NaN/infinity, $formatBase is repeated division of the half-even rounded integer - all TLA+ operators on exact rationals (JLibNum). "
                "TLC checks the round trip $number($string(x)) = x and the tie rules on the specification and enumerates every string of <= 4 (6 thorough) characters over {0 1 9 - + . e E} for $number, 184 decimals incl. exact ties x precisions -4..6 for $round, integers and halves x bases 0..40 incl. fractional for $formatBase; every case is replayed into the real code and validated. "
                "$formatNumber is specified on decimal digit sequences (JNumFmt) and validated by its own trace module."),
    level_note=_SEM_NOTE + " Doubles are identified with the unique small rational whose nearest double they are; values with more than 9 significant digits are outside this part of the model (see JNumFmt for the digit model).",
)

# (program, input) pairs evaluated by blues/jsonata-go's own tests (collected through the verif Eval hook), filed under the one
# property whose constructs they use; only pairs whose outcome the specification pins are kept (tools/build_corpus.py, DESIGN.md 13.6)
import os as _os
for _p in ("C01", "C02", "C03", "C12", "C13", "C14", "C15", "C16", "C17", "C18", "C19"):
    _f = "spec/cases/suite_%s.ndjson" % _p
    if _os.path.exists(_os.path.join(_os.path.dirname(_os.path.dirname(_os.path.abspath(__file__))), _f)):
        FAMILIES[_p].setdefault("files", [])
        FAMILIES[_p]["files"] = list(FAMILIES[_p]["files"]) + [_f]

# families whose TLC-enumerated programs all compile on the unchanged tree: a parse error on one of them is a violation
for _p in ("C01", "C02", "C13", "C14", "C17", "C18"):
    FAMILIES[_p]["compile_must_succeed"] = True
