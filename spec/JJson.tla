-------------------------------- MODULE JJson --------------------------------
(***************************************************************************)
(* JSON texts (RFC 8259) as byte sequences: an acceptor and the value a    *)
(* text denotes, in the value domain of JV.  Used for the input of         *)
(* Expr.EvalBytes (C10): a byte string is decoded exactly when JsonParse   *)
(* accepts it, and the decoded value is the one it denotes.                *)
(*   ws      = space, tab, LF, CR                                          *)
(*   value   = object | array | string | number | true | false | null      *)
(*   number  = optional minus, 0 or a digit string without leading zero,   *)
(*             optional fraction, optional exponent                        *)
(*   string  = quote, bytes >= 0x20 other than quote and backslash or      *)
(*             escapes, quote                                              *)
(*   escape  = \" \\ \/ \b \f \n \r \t \uXXXX                              *)
(* Raw bytes that are not UTF-8 and unpaired surrogate escapes are left    *)
(* open (clean = FALSE): decoders replace them rather than reject them.    *)
(***************************************************************************)
EXTENDS JLibNum

IsJWs(b) == b \in {32, 9, 10, 13}
RECURSIVE JSkip(_, _)
JSkip(s, i) == IF i <= Len(s) /\ IsJWs(s[i]) THEN JSkip(s, i + 1) ELSE i

JFail == [ok |-> FALSE, v |-> Null, n |-> 0, clean |-> TRUE]
JOk(v, n, cl) == [ok |-> TRUE, v |-> v, n |-> n, clean |-> cl]
Hex4(s, i) == IF i + 3 > Len(s) \/ \E k \in 0..3 : HexVal(s[i + k]) < 0 THEN 0 - 1
              ELSE HexVal(s[i]) * 4096 + HexVal(s[i + 1]) * 256 + HexVal(s[i + 2]) * 16 + HexVal(s[i + 3])

\* the body of a string, from the byte after the opening quote; acc collects UTF-8 bytes
RECURSIVE JStrBody(_, _, _, _)
JStrBody(s, i, acc, cl) ==
    IF i > Len(s) THEN JFail
    ELSE LET b == s[i] IN
         IF b = 34 THEN (LET D == Utf8Decode(acc) IN IF D.ok THEN JOk(Str(D.s), i + 1, cl) ELSE JOk(Str(<<>>), i + 1, FALSE))
         ELSE IF b < 32 THEN JFail
         ELSE IF b # 92 THEN JStrBody(s, i + 1, Append(acc, b), cl)
         ELSE IF i + 1 > Len(s) THEN JFail
         ELSE LET e == s[i + 1] IN
              IF e \in {34, 92, 47} THEN JStrBody(s, i + 2, Append(acc, e), cl)
              ELSE IF e = 98 THEN JStrBody(s, i + 2, Append(acc, 8), cl)
              ELSE IF e = 102 THEN JStrBody(s, i + 2, Append(acc, 12), cl)
              ELSE IF e = 110 THEN JStrBody(s, i + 2, Append(acc, 10), cl)
              ELSE IF e = 114 THEN JStrBody(s, i + 2, Append(acc, 13), cl)
              ELSE IF e = 116 THEN JStrBody(s, i + 2, Append(acc, 9), cl)
              ELSE IF e # 117 THEN JFail
              ELSE LET c == Hex4(s, i + 2) IN
                   IF c < 0 THEN JFail
                   ELSE IF c >= 55296 /\ c <= 56319 /\ i + 7 <= Len(s) /\ s[i + 6] = 92 /\ s[i + 7] = 117
                           /\ Hex4(s, i + 8) >= 56320 /\ Hex4(s, i + 8) <= 57343
                        THEN JStrBody(s, i + 12, acc \o Utf8(65536 + (c - 55296) * 1024 + (Hex4(s, i + 8) - 56320)), cl)
                   ELSE IF c >= 55296 /\ c <= 57343 THEN JStrBody(s, i + 6, acc \o Utf8(65533), FALSE)
                   ELSE JStrBody(s, i + 6, acc \o Utf8(c), cl)

IsNumByte(b) == (b >= 48 /\ b <= 57) \/ b \in {45, 43, 46, 101, 69}
RECURSIVE NumRun(_, _)
NumRun(s, i) == IF i <= Len(s) /\ IsNumByte(s[i]) THEN NumRun(s, i + 1) ELSE i
JNum(s, i) == LET j == NumRun(s, i)
                  txt == SubSeq(s, i, j - 1)
                  P == ParseNumeral(txt)
              IN  IF ~P.ok \/ (Len(P.ip) > 1 /\ P.ip[1] = 48) THEN JFail
                  ELSE JOk(IF NumeralTooBig(P) THEN NumX ELSE NumeralValue(P), j, ~NumeralTooBig(P))

Lit(s, i, w) == i + Len(w) - 1 <= Len(s) /\ SubSeq(s, i, i + Len(w) - 1) = w

RECURSIVE JVal(_, _), JArrRest(_, _, _, _), JObjRest(_, _, _, _)
JVal(s, i0) ==
    LET i == JSkip(s, i0) IN
    IF i > Len(s) THEN JFail
    ELSE LET b == s[i] IN
         IF b = 34 THEN JStrBody(s, i + 1, <<>>, TRUE)
         ELSE IF b = 45 \/ (b >= 48 /\ b <= 57) THEN JNum(s, i)
         ELSE IF Lit(s, i, <<116, 114, 117, 101>>) THEN JOk(Bool(TRUE), i + 4, TRUE)
         ELSE IF Lit(s, i, <<102, 97, 108, 115, 101>>) THEN JOk(Bool(FALSE), i + 5, TRUE)
         ELSE IF Lit(s, i, <<110, 117, 108, 108>>) THEN JOk(Null, i + 4, TRUE)
         ELSE IF b = 91 THEN (LET j == JSkip(s, i + 1) IN IF j <= Len(s) /\ s[j] = 93 THEN JOk(Arr(<<>>), j + 1, TRUE) ELSE JArrRest(s, i + 1, <<>>, TRUE))
         ELSE IF b = 123 THEN (LET j == JSkip(s, i + 1) IN IF j <= Len(s) /\ s[j] = 125 THEN JOk(Obj(<<>>), j + 1, TRUE) ELSE JObjRest(s, i + 1, <<>>, TRUE))
         ELSE JFail
\* an element, then ',' and more, or ']'
JArrRest(s, i, acc, cl) ==
    LET E == JVal(s, i) IN
    IF ~E.ok THEN JFail
    ELSE LET j == JSkip(s, E.n) IN
         IF j > Len(s) THEN JFail
         ELSE IF s[j] = 93 THEN JOk(Arr(Append(acc, E.v)), j + 1, cl /\ E.clean)
         ELSE IF s[j] = 44 THEN JArrRest(s, j + 1, Append(acc, E.v), cl /\ E.clean)
         ELSE JFail
\* a member "key" : value, then ',' and more, or '}'   (a repeated key keeps its last value)
JObjRest(s, i, m, cl) ==
    LET k == JSkip(s, i) IN
    IF k > Len(s) \/ s[k] # 34 THEN JFail
    ELSE LET K == JStrBody(s, k + 1, <<>>, TRUE) IN
         IF ~K.ok THEN JFail
         ELSE LET c == JSkip(s, K.n) IN
              IF c > Len(s) \/ s[c] # 58 THEN JFail
              ELSE LET E == JVal(s, c + 1) IN
                   IF ~E.ok THEN JFail
                   ELSE LET j == JSkip(s, E.n)
                            m2 == InsertPair(m, K.v.s, E.v)
                            cl2 == cl /\ K.clean /\ E.clean
                        IN  IF j > Len(s) THEN JFail
                            ELSE IF s[j] = 125 THEN JOk(Obj(m2), j + 1, cl2)
                            ELSE IF s[j] = 44 THEN JObjRest(s, j + 1, m2, cl2)
                            ELSE JFail

\* a JSON text: one value between optional white space, and nothing else
JsonParse(s) == LET R == JVal(s, 1) IN
                IF ~R.ok THEN JFail
                ELSE IF JSkip(s, R.n) # Len(s) + 1 THEN JFail
                ELSE R
=============================================================================
