------------------------------ MODULE JLibNum ------------------------------
(***************************************************************************)
(* Number functions on exact rationals (C18, core part): $number $abs      *)
(* $floor $ceil $round $power $sqrt $formatBase.  The decimal-digit model  *)
(* for large values and $formatNumber lives in JNumFmt.                    *)
(***************************************************************************)
EXTENDS JLibStr

IsDigitC(c) == c >= 48 /\ c <= 57
RECURSIVE DigitsVal(_, _)
DigitsVal(ds, acc) == IF ds = <<>> THEN acc ELSE DigitsVal(Tail(ds), acc * 10 + (Head(ds) - 48))
RECURSIVE TakeDigits(_)
TakeDigits(s) == IF s # <<>> /\ IsDigitC(Head(s)) THEN <<Head(s)>> \o TakeDigits(Tail(s)) ELSE <<>>

\* N1 acceptor: -? digits (. digits)? ([eE] [-+]? digits)?   returns [ok, neg, ip, fp, eneg, ex, hasExp]
ParseNumeral(s) ==
    LET neg == s # <<>> /\ s[1] = 45
        s1 == IF neg THEN Tail(s) ELSE s
        ip == TakeDigits(s1)
        s2 == SubSeq(s1, Len(ip) + 1, Len(s1))
        hasF == s2 # <<>> /\ s2[1] = 46
        fp == IF hasF THEN TakeDigits(Tail(s2)) ELSE <<>>
        s3 == IF hasF THEN SubSeq(s2, Len(fp) + 2, Len(s2)) ELSE s2
        hasE == s3 # <<>> /\ s3[1] \in {69, 101}
        s4 == IF hasE THEN Tail(s3) ELSE s3
        esgn == hasE /\ s4 # <<>> /\ s4[1] \in {43, 45}
        eneg == esgn /\ s4[1] = 45
        s5 == IF esgn THEN Tail(s4) ELSE s4
        ex == IF hasE THEN TakeDigits(s5) ELSE <<>>
        rest == IF hasE THEN SubSeq(s5, Len(ex) + 1, Len(s5)) ELSE s3
    IN  [ok |-> ip # <<>> /\ (~hasF \/ fp # <<>>) /\ (~hasE \/ ex # <<>>) /\ rest = <<>>,
         neg |-> neg, ip |-> ip, fp |-> fp, eneg |-> eneg, ex |-> ex]

RECURSIVE StripLeadingZeros(_)
StripLeadingZeros(ds) == IF Len(ds) > 1 /\ Head(ds) = 48 THEN StripLeadingZeros(Tail(ds)) ELSE ds

\* order of magnitude of an accepted numeral: the position of its leading significant digit
\* (value in [10^(mag-1), 10^mag)); certainly beyond the double range (~1.8e308) when mag > 309
NumeralTooBig(P) ==
    LET ds == StripLeadingZeros(P.ip \o P.fp)
        allZero == \A i \in 1..Len(ds) : ds[i] = 48
        exd == StripLeadingZeros(P.ex)
        e0 == IF P.ex = <<>> THEN 0 ELSE IF Len(exd) > 4 THEN 100000 ELSE DigitsVal(exd, 0)
        ex == IF P.eneg THEN 0 - e0 ELSE e0
        mag == Len(StripLeadingZeros(P.ip)) + ex     \* for ip = "0" this over-estimates by at most the leading fraction zeros
    IN  ~allZero /\ StripLeadingZeros(P.ip) # <<48>> /\ mag > 309

\* exact value of an accepted numeral when it fits the model
NumeralValue(P) ==
    LET ds == StripLeadingZeros(P.ip \o P.fp)
        e0 == IF P.ex = <<>> \/ Len(StripLeadingZeros(P.ex)) > 3 THEN 0 ELSE DigitsVal(P.ex, 0)
        e  == (IF P.eneg THEN 0 - e0 ELSE e0) - Len(P.fp)
        allZero == \A i \in 1..Len(ds) : ds[i] = 48
    IN  IF allZero THEN (IF P.neg THEN ZeroU ELSE IntV(0))
        ELSE IF Len(StripLeadingZeros(P.ex)) > 3 \/ Len(ds) > 9 THEN NumX
        ELSE LET m == DigitsVal(ds, 0) IN
             IF e >= 0 THEN (IF e <= 9 /\ MulFits(m, PowI(10, e)) THEN IntV((IF P.neg THEN 0 - 1 ELSE 1) * m * PowI(10, e)) ELSE NumX)
             ELSE IF 0 - e <= 9 THEN Num((IF P.neg THEN 0 - 1 ELSE 1) * m, PowI(10, 0 - e)) ELSE NumX

\* largest k <= 9 such that d divides 10^k, or -1
RECURSIVE DecPlaces(_, _)
DecPlaces(d, k) == IF k > 9 THEN 0 - 1 ELSE IF (PowI(10, k) % d) = 0 THEN k ELSE DecPlaces(d, k + 1)

\* N2: half-even rounding of the rational x at the p-th fraction digit
RoundHalfEven(n, d) ==   \* nearest integer to n/d, ties to even; d > 0
    LET q == n \div d   r == n % d      \* floor division, 0 <= r < d
    IN  IF 2 * r < d THEN q ELSE IF 2 * r > d THEN q + 1 ELSE IF (q % 2) = 0 THEN q ELSE q + 1
RoundAt(x, p) ==
    IF DecPlaces(x.d, 0) < 0 THEN NumX             \* no finite decimal form in the model
    ELSE IF p >= 0 THEN
         (IF p > 9 \/ ~MulFits(x.n, PowI(10, p)) THEN NumX
          ELSE Num(RoundHalfEven(x.n * PowI(10, p), x.d), PowI(10, p)))
    ELSE IF 0 - p > 9 \/ ~MulFits(x.d, PowI(10, 0 - p)) THEN NumX
    ELSE LET r == RoundHalfEven(x.n, x.d * PowI(10, 0 - p)) IN
         IF MulFits(r, PowI(10, 0 - p)) THEN IntV(r * PowI(10, 0 - p)) ELSE NumX

RECURSIVE ISqrt(_, _)
ISqrt(n, k) == IF k * k > n THEN k - 1 ELSE IF k > 40000 THEN 0 - 1 ELSE ISqrt(n, k + 1)
RECURSIVE NumPowI(_, _)
NumPowI(x, e) == IF e = 0 THEN IntV(1) ELSE LET r == NumPowI(x, e - 1) IN IF r.t = "numx" THEN r ELSE NumMul(r, x)

RECURSIVE BaseDigits(_, _)
BaseDigits(n, b) == LET d == n % b   c == IF d < 10 THEN 48 + d ELSE 87 + d
                    IN  IF n < b THEN <<c>> ELSE BaseDigits(n \div b, b) \o <<c>>

NumFnNames == {"number", "abs", "floor", "ceil", "round", "power", "sqrt", "formatBase"}

NumCall(nm, a, md) ==
    LET n == Len(a)
        A(i) == IF i <= n THEN a[i] ELSE Undef
        N(i) == IsNum(A(i))
        opt(i) == n >= i /\ ~IsUndef(a[i])
    IN
    CASE nm = "number" ->
           IF n # 1 THEN LArgCount
           ELSE IF IsBool(a[1]) THEN LVal(IntV(IF a[1].b THEN 1 ELSE 0))
           ELSE IF IsNum(a[1]) THEN LVal(a[1])
           ELSE IF IsStr(a[1]) THEN
                (LET P == ParseNumeral(a[1].s) IN IF ~P.ok THEN LErr ELSE LVal(NumeralValue(P)))
           ELSE LArgType(1)
      [] nm = "abs"   -> IF n # 1 THEN LArgCount ELSE IF ~N(1) THEN LArgType(1) ELSE LVal([a[1] EXCEPT !.n = AbsI(@)])
      [] nm = "floor" -> IF n # 1 THEN LArgCount ELSE IF ~N(1) THEN LArgType(1) ELSE LVal(IntV(NumFloor(a[1])))
      [] nm = "ceil"  -> IF n # 1 THEN LArgCount ELSE IF ~N(1) THEN LArgType(1) ELSE LVal(IF a[1].n < 0 /\ NumFloor(NumNeg(a[1])) = 0 THEN ZeroU ELSE IntV(0 - NumFloor(NumNeg(a[1]))))
      [] nm = "round" -> IF n < 1 \/ n > 2 THEN LArgCount ELSE IF ~N(1) THEN LArgType(1)
                         ELSE IF opt(2) /\ ~N(2) THEN LArgType(2)
                         ELSE IF opt(2) /\ ~IsInteger(a[2]) THEN LTop("fractional precision")
                         ELSE LVal(RoundAt(a[1], IF opt(2) THEN a[2].n ELSE 0))
      [] nm = "power" -> IF n # 2 THEN LArgCount ELSE IF ~N(1) THEN LArgType(1) ELSE IF ~N(2) THEN LArgType(2)
                         ELSE IF ~IsInteger(a[2]) \/ a[2].n < 0 \/ a[2].n > 30 \/ ~Dyadic(a[1]) THEN
                              (IF NumIsZero(a[1]) /\ a[2].n < 0 THEN LErr ELSE LTop("power outside the model"))
                         ELSE LVal(NumPowI(a[1], a[2].n))
      [] nm = "sqrt"  -> IF n # 1 THEN LArgCount ELSE IF ~N(1) THEN LArgType(1)
                         ELSE IF a[1].n < 0 THEN LErr
                         ELSE LET rn == ISqrt(a[1].n, 0)  rd == ISqrt(a[1].d, 0) IN
                              IF rn >= 0 /\ rd >= 0 /\ rn * rn = a[1].n /\ rd * rd = a[1].d THEN LVal(Num(rn, rd))
                              ELSE LTop("irrational square root")
      [] nm = "formatBase" ->
           IF n < 1 \/ n > 2 THEN LArgCount ELSE IF ~N(1) THEN LArgType(1)
           ELSE IF opt(2) /\ ~N(2) THEN LArgType(2)
           ELSE LET b == IF opt(2) THEN RoundHalfEven(a[2].n, a[2].d) ELSE 10
                    v == RoundHalfEven(a[1].n, a[1].d)
                \* "for 2 <= b <= 36 and an error otherwise": the base as given, not the base after rounding (1.5 and 36.25 are outside)
                IN  IF b < 2 \/ b > 36 \/ (opt(2) /\ (a[2].n < 2 * a[2].d \/ a[2].n > 36 * a[2].d)) THEN LErr
                    ELSE LVal(Str((IF v < 0 THEN <<45>> ELSE <<>>) \o BaseDigits(AbsI(v), b)))
      [] OTHER -> LTop("unmodelled number function")

BuiltinArity(nm) ==
    CASE nm \in {"string", "length", "uppercase", "lowercase", "trim", "base64encode", "base64decode",
                 "decodeUrl", "decodeUrlComponent", "encodeUrl", "encodeUrlComponent", "number", "abs",
                 "floor", "ceil", "sqrt", "sum", "max", "min", "average", "boolean", "not", "exists",
                 "distinct", "count", "reverse", "shuffle", "keys", "spread", "merge", "toMillis", "type",
                 "error"} -> 1
      [] nm \in {"substringBefore", "substringAfter", "contains", "join", "power", "round", "formatBase",
                 "sort", "append", "map", "filter", "single", "each", "sift", "lookup", "zip"} -> 2
      [] nm \in {"substring", "pad", "split", "match", "formatNumber", "reduce", "fromMillis"} -> 3
      [] nm = "replace" -> 4
      [] nm = "random" -> 0
      [] OTHER -> 1

=============================================================================
