------------------------------ MODULE JSyntax ------------------------------
(***************************************************************************)
(* The grammar of JSONata expressions (C04, C11): a precedence-climbing    *)
(* parser over BYTES, driven by the scanner specification JLexFn exactly   *)
(* as the port's parser drives its lexer (a regular expression is allowed  *)
(* where an operand is expected), followed by the tree normalisation       *)
(* (path flattening, predicate attachment, [] marker, literal folding).    *)
(*                                                                         *)
(* Precedence rows, tightest first (statement of C04):                     *)
(*   ( [   .   {   * / %   + - &   = != < <= > >= in ^( ~>   and   or   ?  :=  *)
(* equal precedence groups left; := and the else-branch group right;       *)
(* a parenthesised expression is a Block.                                  *)
(*                                                                         *)
(*   Parse(B) = [ok |-> "yes", ast |-> tree] | [ok |-> "no"]               *)
(*            | [ok |-> "abstain"]  (regex literals, lambda signatures:    *)
(*                                   outside this module)                  *)
(***************************************************************************)
EXTENDS JLexFn, JLibNum

Slice(B, s, e) == SubSeq(B, s + 1, e)
KeywordOf(bs) == CASE bs = <<97, 110, 100>> -> "and" [] bs = <<111, 114>> -> "or" [] bs = <<105, 110>> -> "in"
                   [] bs = <<116, 114, 117, 101>> -> "boolean" [] bs = <<102, 97, 108, 115, 101>> -> "boolean"
                   [] bs = <<110, 117, 108, 108>> -> "null" [] OTHER -> "name"
TT(B, tok) == IF tok.ty = "name" THEN KeywordOf(Slice(B, tok.s, tok.e)) ELSE tok.ty
Txt(B, tok) == Slice(B, tok.s, tok.e)

Bp(ty) == CASE ty \in {"(", "["} -> 100 [] ty = "." -> 90 [] ty = "{" -> 80 [] ty \in {"*", "/", "%"} -> 70
            [] ty \in {"+", "-", "&"} -> 60 [] ty \in {"=", "!=", "<", "<=", ">", ">=", "in", "^", "~>"} -> 50
            [] ty = "and" -> 40 [] ty = "or" -> 30 [] ty = "?" -> 20 [] ty = ":=" -> 10 [] OTHER -> 0

\* ---- string literals (G6): JSON escapes, \uXXXX, surrogate pairs ----
HexV(c) == IF c >= 48 /\ c <= 57 THEN c - 48 ELSE IF c >= 65 /\ c <= 70 THEN c - 55 ELSE IF c >= 97 /\ c <= 102 THEN c - 87 ELSE 0 - 1
Hex4(cs, i) == IF i + 3 > Len(cs) \/ (\E j \in i..i + 3 : HexV(cs[j]) < 0) THEN 0 - 1
               ELSE HexV(cs[i]) * 4096 + HexV(cs[i + 1]) * 256 + HexV(cs[i + 2]) * 16 + HexV(cs[i + 3])
RECURSIVE Unescape(_, _, _)
\* cs: code points between the quotes; returns [ok, s]
Unescape(cs, i, acc) ==
    IF i > Len(cs) THEN [ok |-> TRUE, s |-> acc]
    ELSE IF cs[i] # 92 THEN Unescape(cs, i + 1, Append(acc, cs[i]))
    ELSE IF i = Len(cs) THEN [ok |-> FALSE, s |-> <<>>]
    ELSE LET c == cs[i + 1] IN
         IF c \in {34, 92, 47} THEN Unescape(cs, i + 2, Append(acc, c))
         ELSE IF c = 98 THEN Unescape(cs, i + 2, Append(acc, 8))
         ELSE IF c = 102 THEN Unescape(cs, i + 2, Append(acc, 12))
         ELSE IF c = 110 THEN Unescape(cs, i + 2, Append(acc, 10))
         ELSE IF c = 114 THEN Unescape(cs, i + 2, Append(acc, 13))
         ELSE IF c = 116 THEN Unescape(cs, i + 2, Append(acc, 9))
         ELSE IF c = 117 THEN
              LET h == Hex4(cs, i + 2) IN
              IF h < 0 THEN [ok |-> FALSE, s |-> <<>>]
              ELSE IF h >= 56320 /\ h <= 57343 THEN [ok |-> FALSE, s |-> <<>>]                 \* lone low surrogate
              ELSE IF h >= 55296 /\ h <= 56319 THEN                                               \* high surrogate: needs its pair
                   (IF i + 11 <= Len(cs) /\ cs[i + 6] = 92 /\ cs[i + 7] = 117 /\ Hex4(cs, i + 8) >= 56320 /\ Hex4(cs, i + 8) <= 57343
                    THEN Unescape(cs, i + 12, Append(acc, 65536 + (h - 55296) * 1024 + (Hex4(cs, i + 8) - 56320)))
                    ELSE [ok |-> FALSE, s |-> <<>>])
              ELSE Unescape(cs, i + 6, Append(acc, h))
         ELSE [ok |-> FALSE, s |-> <<>>]

\* ---- results ----
PErr(P) == [err |-> TRUE, abst |-> FALSE, P |-> P]
PAbst(P) == [err |-> TRUE, abst |-> TRUE, P |-> P]
POk(n, P) == [err |-> FALSE, abst |-> FALSE, node |-> n, P |-> P]

Advance(B, P, ar) == LET T == LexToken(B, P.L, ar) IN [L |-> T.L, tok |-> T.tok]
IsTy(B, P, ty) == TT(B, P.tok) = ty

None == [k |-> "None"]
Raw(k, l, r) == [k |-> k, l |-> l, r |-> r]

RECURSIVE ParseExpr(_, _, _), LedLoop(_, _, _, _), Nud(_, _, _), Led(_, _, _, _), ParseList(_, _, _, _, _),
          ParsePairs(_, _, _), ParseBlockItems(_, _, _), ParseArgs(_, _, _, _), ParseSortTerms(_, _, _), ParseParams(_, _, _)

\* consume a token of type ty (then advance with allowRegex = ar)
Consume(B, P, ty, ar) == IF IsTy(B, P, ty) THEN [ok |-> TRUE, P |-> Advance(B, P, ar)] ELSE [ok |-> FALSE, P |-> P]

ParseExpr(B, P, rbp) ==
    IF P.tok.ty \in {"eof", "error"} THEN PErr(P)
    ELSE LET t == P.tok
             \* an operand follows an opening parenthesis or bracket: a slash there starts a regular expression
             N == Nud(B, Advance(B, P, t.ty \in {"(", "["}), t)
         IN  IF N.err THEN N ELSE LedLoop(B, N.P, N.node, rbp)

LedLoop(B, P, lhs, rbp) ==
    IF P.tok.ty = "error" THEN PErr(P)
    ELSE IF rbp < Bp(TT(B, P.tok)) THEN
         LET t == P.tok
             R == Led(B, Advance(B, P, TRUE), t, lhs)
         IN  IF R.err THEN R ELSE LedLoop(B, R.P, R.node, rbp)
    ELSE POk(lhs, P)

\* items separated by commas up to the closing token `close`; trailing commas are not allowed
ParseList(B, P, close, acc, rangeOk) ==
    IF IsTy(B, P, close) /\ acc = <<>> THEN POk(acc, P)
    ELSE LET E == ParseExpr(B, P, 0) IN
         IF E.err THEN E
         ELSE LET E2 == IF rangeOk /\ IsTy(B, E.P, "..")
                        THEN LET R == ParseExpr(B, Advance(B, E.P, TRUE), 0) IN
                             IF R.err THEN R ELSE POk([k |-> "Range", l |-> E.node, r |-> R.node], R.P)
                        ELSE E
              IN  IF E2.err THEN E2
                  ELSE IF IsTy(B, E2.P, ",") THEN ParseList(B, Advance(B, E2.P, TRUE), "never", Append(acc, E2.node), rangeOk)
                  ELSE POk(Append(acc, E2.node), E2.P)

ParsePairs(B, P, acc) ==
    IF IsTy(B, P, "}") /\ acc = <<>> THEN POk(acc, P)
    ELSE LET K == ParseExpr(B, P, 0) IN
         IF K.err THEN K
         ELSE LET C == Consume(B, K.P, ":", TRUE) IN
              IF ~C.ok THEN PErr(K.P)
              ELSE LET V == ParseExpr(B, C.P, 0) IN
                   IF V.err THEN V
                   ELSE IF IsTy(B, V.P, ",") THEN ParsePairs(B, Advance(B, V.P, TRUE), Append(acc, <<K.node, V.node>>))
                   ELSE POk(Append(acc, <<K.node, V.node>>), V.P)

ParseBlockItems(B, P, acc) ==     \* trailing semicolons are allowed
    IF IsTy(B, P, ")") THEN POk(acc, P)
    ELSE LET E == ParseExpr(B, P, 0) IN
         IF E.err THEN E
         ELSE IF IsTy(B, E.P, ";") THEN ParseBlockItems(B, Advance(B, E.P, TRUE), Append(acc, E.node))
         ELSE POk(Append(acc, E.node), E.P)

ParseArgs(B, P, acc, partial) ==
    IF IsTy(B, P, ")") /\ acc = <<>> THEN [err |-> FALSE, abst |-> FALSE, node |-> acc, P |-> P, partial |-> partial]
    ELSE LET isPh == IsTy(B, P, "?")
             E == IF isPh THEN POk([k |-> "Placeholder"], Advance(B, P, TRUE)) ELSE ParseExpr(B, P, 0)
         IN  IF E.err THEN E
             ELSE IF IsTy(B, E.P, ",") THEN ParseArgs(B, Advance(B, E.P, TRUE), Append(acc, E.node), partial \/ isPh)
             ELSE [err |-> FALSE, abst |-> FALSE, node |-> Append(acc, E.node), P |-> E.P, partial |-> partial \/ isPh]

ParseSortTerms(B, P, acc) ==
    LET dir == IF IsTy(B, P, "<") THEN "<" ELSE IF IsTy(B, P, ">") THEN ">" ELSE ""
        P1 == IF dir # "" THEN Advance(B, P, TRUE) ELSE P
        E == ParseExpr(B, P1, 0)
    IN  IF E.err THEN E
        ELSE IF IsTy(B, E.P, ",") THEN ParseSortTerms(B, Advance(B, E.P, TRUE), Append(acc, [dir |-> dir, e |-> E.node]))
        ELSE POk(Append(acc, [dir |-> dir, e |-> E.node]), E.P)

\* parameter names of a lambda: $a, $b ... up to ")"
ParseParams(B, P, acc) ==
    IF IsTy(B, P, ")") /\ acc = <<>> THEN POk(acc, P)
    ELSE LET E == ParseExpr(B, P, 0) IN
         IF E.err THEN E
         ELSE IF E.node.k # "VariableCps" \/ (\E i \in 1..Len(acc) : acc[i] = E.node.s) THEN PErr(E.P)
         ELSE IF IsTy(B, E.P, ",") THEN ParseParams(B, Advance(B, E.P, TRUE), Append(acc, E.node.s))
         ELSE POk(Append(acc, E.node.s), E.P)

Utf8Text(bs) == Utf8Decode(bs)      \* [ok, s]

Nud(B, P, t) ==
    LET ty == TT(B, t) IN
    CASE ty = "string" -> LET U == Utf8Text(Txt(B, t)) IN
                          IF ~U.ok THEN PAbst(P)
                          ELSE LET S == Unescape(U.s, 1, <<>>) IN IF S.ok THEN POk([k |-> "String", s |-> S.s], P) ELSE PErr(P)
      [] ty = "number" -> LET N == ParseNumeral(Txt(B, t)) IN
                          IF ~N.ok THEN PErr(P)
                          \* G7: a numeral whose magnitude exceeds the double range is a compile error
                          ELSE IF NumeralTooBig(N) THEN PErr(P)
                          ELSE LET v == NumeralValue(N) IN IF v.t = "numx" THEN POk([k |-> "Number", num |-> NumX], P) ELSE POk([k |-> "Number", num |-> v], P)
      [] ty = "boolean" -> POk([k |-> "Boolean", b |-> (Txt(B, t) = <<116, 114, 117, 101>>)], P)
      [] ty = "null" -> POk([k |-> "Null"], P)
      [] ty = "variable" -> LET U == Utf8Text(Txt(B, t)) IN IF U.ok THEN POk([k |-> "VariableCps", s |-> U.s], P) ELSE PAbst(P)
      [] ty \in {"name", "and", "or", "in"} -> LET U == Utf8Text(Txt(B, t)) IN IF U.ok THEN POk([k |-> "Name", s |-> U.s, esc |-> FALSE], P) ELSE PAbst(P)
      [] ty = "nameesc" -> LET U == Utf8Text(Txt(B, t)) IN IF U.ok THEN POk([k |-> "Name", s |-> U.s, esc |-> TRUE], P) ELSE PAbst(P)
      \* a regex literal: /pattern/flags; the pattern text handed to the engine is "(?flags)pattern";
      \* an empty pattern is a compile error; whether a non-empty pattern is valid is the engine's say
      [] ty = "regex" -> LET U == Utf8Text(Txt(B, t))  Fl == Slice(B, t.fs, t.fe) IN
                         IF ~U.ok THEN PAbst(P)
                         ELSE IF U.s = <<>> THEN PErr(P)
                         ELSE POk([k |-> "Regex", s |-> (IF Fl = <<>> THEN <<>> ELSE <<40, 63>> \o Fl \o <<41>>) \o U.s], P)
      [] ty = "*" -> POk([k |-> "Wildcard"], P)
      [] ty = "**" -> POk([k |-> "Descendent"], P)
      \* G1: a prefix minus takes the operand that follows it and nothing more: postfix ( ) [ ], . and { } bind tighter, every
      \* infix operator of the table is looser, so the infix operators around a negated operand group as the table says
      \* (8 / -2 / 2 is (8 / -2) / 2: "operators of equal precedence group to the left")
      [] ty = "-" -> LET E == ParseExpr(B, P, 70) IN IF E.err THEN E ELSE POk([k |-> "Negation", e |-> E.node], E.P)
      [] ty = "[" -> LET L == ParseList(B, P, "]", <<>>, TRUE) IN
                     IF L.err THEN L
                     ELSE LET C == Consume(B, L.P, "]", FALSE) IN IF C.ok THEN POk([k |-> "Array", items |-> L.node], C.P) ELSE PErr(L.P)
      [] ty = "{" -> LET L == ParsePairs(B, P, <<>>) IN
                     IF L.err THEN L
                     ELSE LET C == Consume(B, L.P, "}", FALSE) IN IF C.ok THEN POk([k |-> "Object", pairs |-> L.node], C.P) ELSE PErr(L.P)
      [] ty = "(" -> LET L == ParseBlockItems(B, P, <<>>) IN
                     IF L.err THEN L
                     ELSE LET C == Consume(B, L.P, ")", FALSE) IN IF C.ok THEN POk([k |-> "Block", exprs |-> L.node], C.P) ELSE PErr(L.P)
      [] ty = "|" -> LET Pt == ParseExpr(B, P, 0) IN
                     IF Pt.err THEN Pt
                     ELSE LET C1 == Consume(B, Pt.P, "|", TRUE) IN
                          IF ~C1.ok THEN PErr(Pt.P)
                          ELSE LET U == ParseExpr(B, C1.P, 0) IN
                               IF U.err THEN U
                               ELSE LET hasD == IsTy(B, U.P, ",")
                                        D == IF hasD THEN ParseExpr(B, Advance(B, U.P, TRUE), 0) ELSE POk(None, U.P)
                                    IN  IF D.err THEN D
                                        ELSE LET C2 == Consume(B, D.P, "|", FALSE) IN     \* a transform is an operand: a slash after it is division
                                             IF C2.ok THEN POk([k |-> "Transform", pat |-> Pt.node, upd |-> U.node, del |-> D.node], C2.P) ELSE PErr(D.P)
      [] OTHER -> PErr(P)

IsLambdaName(n) == n.k = "Name" /\ ~n.esc /\ n.s \in {<<102, 117, 110, 99, 116, 105, 111, 110>>, <<955>>}

Led(B, P, t, lhs) ==
    LET ty == TT(B, t)
        Bin(kind, op) == LET R == ParseExpr(B, P, Bp(ty)) IN IF R.err THEN R ELSE POk([k |-> kind, op |-> op, l |-> lhs, r |-> R.node], R.P)
    IN
    CASE ty \in {"+", "-", "*", "/", "%"} -> Bin("NumOp", ty)
      [] ty \in {"=", "!=", "<", "<=", ">", ">=", "in"} -> Bin("CmpOp", ty)
      [] ty \in {"and", "or"} -> Bin("BoolOp", ty)
      [] ty = "&" -> LET R == ParseExpr(B, P, 60) IN IF R.err THEN R ELSE POk([k |-> "Concat", l |-> lhs, r |-> R.node], R.P)
      [] ty = "~>" -> LET R == ParseExpr(B, P, 50) IN IF R.err THEN R ELSE POk([k |-> "Apply", l |-> lhs, r |-> R.node], R.P)
      [] ty = "." -> LET R == ParseExpr(B, P, 90) IN IF R.err THEN R ELSE POk(Raw("Dot", lhs, R.node), R.P)
      [] ty = ":=" -> IF lhs.k # "VariableCps" THEN PErr(P)
                      ELSE LET R == ParseExpr(B, P, 9) IN IF R.err THEN R ELSE POk([k |-> "AssignCps", s |-> lhs.s, e |-> R.node], R.P)
      [] ty = "?" -> LET Th == ParseExpr(B, P, 0) IN
                     IF Th.err THEN Th
                     ELSE IF IsTy(B, Th.P, ":") THEN
                          (LET El == ParseExpr(B, Advance(B, Th.P, TRUE), 0) IN
                           IF El.err THEN El ELSE POk([k |-> "Cond", c |-> lhs, th |-> Th.node, el |-> El.node], El.P))
                     ELSE POk([k |-> "Cond", c |-> lhs, th |-> Th.node, el |-> None], Th.P)
      [] ty = "[" -> IF IsTy(B, P, "]") THEN POk([k |-> "KeepRaw", l |-> lhs], Advance(B, P, FALSE))
                     ELSE LET R == ParseExpr(B, P, 0) IN
                          IF R.err THEN R
                          ELSE LET C == Consume(B, R.P, "]", FALSE) IN IF C.ok THEN POk(Raw("PredRaw", lhs, R.node), C.P) ELSE PErr(R.P)
      [] ty = "{" -> LET L == ParsePairs(B, P, <<>>) IN
                     IF L.err THEN L
                     ELSE LET C == Consume(B, L.P, "}", FALSE) IN IF C.ok THEN POk([k |-> "Group", e |-> lhs, pairs |-> L.node], C.P) ELSE PErr(L.P)
      [] ty = "^" -> LET C0 == Consume(B, P, "(", TRUE) IN
                     IF ~C0.ok THEN PErr(P)
                     ELSE LET Ts == ParseSortTerms(B, C0.P, <<>>) IN
                          IF Ts.err THEN Ts
                          ELSE LET C == Consume(B, Ts.P, ")", FALSE) IN IF C.ok THEN POk([k |-> "Sort", e |-> lhs, terms |-> Ts.node], C.P) ELSE PErr(Ts.P)
      [] ty = "(" ->
           IF IsLambdaName(lhs) THEN
                LET Ps == ParseParams(B, P, <<>>) IN
                IF Ps.err THEN Ps
                ELSE LET C == Consume(B, Ps.P, ")", FALSE) IN
                     IF ~C.ok THEN PErr(Ps.P)
                     ELSE IF IsTy(B, C.P, "<") THEN PAbst(C.P)              \* typed lambda: signature grammar not modelled here
                     ELSE LET C1 == Consume(B, C.P, "{", TRUE) IN
                          IF ~C1.ok THEN PErr(C.P)
                          ELSE LET Bd == ParseExpr(B, C1.P, 0) IN
                               IF Bd.err THEN Bd
                               ELSE LET C2 == Consume(B, Bd.P, "}", FALSE) IN      \* and so is a function definition
                                    IF C2.ok THEN POk([k |-> "LambdaCps", params |-> Ps.node, body |-> Bd.node, short |-> (lhs.s = <<955>>)], C2.P) ELSE PErr(Bd.P)
           ELSE LET A == ParseArgs(B, P, <<>>, FALSE) IN
                IF A.err THEN A
                ELSE LET C == Consume(B, A.P, ")", FALSE) IN
                     IF ~C.ok THEN PErr(A.P)
                     ELSE POk([k |-> IF A.partial THEN "Partial" ELSE "Call", fn |-> lhs, args |-> A.node], C.P)
      [] OTHER -> PErr(P)

\* ---- normalisation (the port's optimize pass) ----
IsLit(n) == n.k \in {"Number", "String", "Boolean", "Null"}
RECURSIVE Opt(_), OptSeq(_, _, _)
OErr == [ok |-> FALSE]
OOk(n) == [ok |-> TRUE, n |-> n]
OptSeq(ns, i, acc) == IF i > Len(ns) THEN [ok |-> TRUE, ns |-> acc]
                      ELSE LET O == Opt(ns[i]) IN IF ~O.ok THEN OErr ELSE OptSeq(ns, i + 1, Append(acc, O.n))
OptPairs(ps) == LET Ks == OptSeq([i \in 1..Len(ps) |-> ps[i][1]], 1, <<>>)
                    Vs == OptSeq([i \in 1..Len(ps) |-> ps[i][2]], 1, <<>>)
                IN  IF ~Ks.ok \/ ~Vs.ok THEN OErr ELSE [ok |-> TRUE, ps |-> [i \in 1..Len(ps) |-> <<Ks.ns[i], Vs.ns[i]>>]]
Opt2(n, mk(_, _)) == LET A == Opt(n.l)  Bb == Opt(n.r) IN IF ~A.ok \/ ~Bb.ok THEN OErr ELSE OOk(mk(A.n, Bb.n))
\* names cannot be converted back to strings for non-ASCII; variables keep code points in the harness comparison too
Opt(n) ==
    CASE n.k \in {"String", "Number", "Boolean", "Null", "Wildcard", "Descendent", "Placeholder", "None", "Regex"} -> OOk(n)
      [] n.k = "VariableCps" -> OOk([k |-> "Variable", s |-> n.s])
      [] n.k = "Name" -> OOk([k |-> "Path", steps |-> <<n>>, keep |-> FALSE])
      [] n.k = "Negation" -> LET A == Opt(n.e) IN
                             IF ~A.ok THEN OErr
                             \* (the sign of a zero literal is outside the model: trees are compared with every zero written 0/1)
                             ELSE IF A.n.k = "Number" THEN OOk([k |-> "Number", num |-> IF A.n.num.n = 0 THEN [t |-> "num", n |-> 0, d |-> 1] ELSE NumNeg(A.n.num)])
                             ELSE OOk([k |-> "Negation", e |-> A.n])
      [] n.k = "Range" -> Opt2(n, LAMBDA a, b : [k |-> "Range", l |-> a, r |-> b])
      [] n.k = "Array" -> LET S == OptSeq(n.items, 1, <<>>) IN IF S.ok THEN OOk([k |-> "Array", items |-> S.ns]) ELSE OErr
      [] n.k = "Object" -> LET Pp == OptPairs(n.pairs) IN IF Pp.ok THEN OOk([k |-> "Object", pairs |-> Pp.ps]) ELSE OErr
      [] n.k = "Block" -> LET S == OptSeq(n.exprs, 1, <<>>) IN IF S.ok THEN OOk([k |-> "Block", exprs |-> S.ns]) ELSE OErr
      [] n.k = "Transform" -> LET A == Opt(n.pat)  U == Opt(n.upd)  D == Opt(n.del) IN
                              IF A.ok /\ U.ok /\ D.ok THEN OOk([k |-> "Transform", pat |-> A.n, upd |-> U.n, del |-> D.n]) ELSE OErr
      [] n.k = "LambdaCps" -> LET Bd == Opt(n.body) IN IF Bd.ok THEN OOk([k |-> "Lambda", ps |-> n.params, body |-> Bd.n, short |-> n.short]) ELSE OErr
      [] n.k \in {"Partial", "Call"} -> LET F == Opt(n.fn)  S == OptSeq(n.args, 1, <<>>) IN
                                        IF F.ok /\ S.ok THEN OOk([k |-> n.k, fn |-> F.n, args |-> S.ns]) ELSE OErr
      [] n.k = "Group" -> LET E == Opt(n.e)  Pp == OptPairs(n.pairs) IN
                          IF ~E.ok \/ ~Pp.ok THEN OErr
                          ELSE IF E.n.k = "Group" THEN OErr                                   \* one grouping per step
                          ELSE OOk([k |-> "Group", e |-> E.n, pairs |-> Pp.ps])
      [] n.k = "Cond" -> LET C == Opt(n.c)  T == Opt(n.th)  E == Opt(n.el) IN
                         IF C.ok /\ T.ok /\ E.ok THEN OOk([k |-> "Cond", c |-> C.n, th |-> T.n, el |-> E.n]) ELSE OErr
      [] n.k = "AssignCps" -> LET E == Opt(n.e) IN IF E.ok THEN OOk([k |-> "Assign", s |-> n.s, e |-> E.n]) ELSE OErr
      [] n.k \in {"NumOp", "CmpOp", "BoolOp"} -> Opt2(n, LAMBDA a, b : [k |-> n.k, op |-> n.op, l |-> a, r |-> b])
      [] n.k = "Concat" -> Opt2(n, LAMBDA a, b : [k |-> "Concat", l |-> a, r |-> b])
      [] n.k = "Apply" -> Opt2(n, LAMBDA a, b : [k |-> "Apply", l |-> a, r |-> b])
      [] n.k = "Sort" -> LET E == Opt(n.e)  S == OptSeq([i \in 1..Len(n.terms) |-> n.terms[i].e], 1, <<>>) IN
                         IF E.ok /\ S.ok THEN OOk([k |-> "Sort", e |-> E.n, terms |-> [i \in 1..Len(n.terms) |-> [dir |-> n.terms[i].dir, e |-> S.ns[i]]]]) ELSE OErr
      \* G3: a.b chains flatten into one Path; literals cannot be path steps
      [] n.k = "Dot" -> LET A == Opt(n.l)  Bb == Opt(n.r) IN
                        IF ~A.ok \/ ~Bb.ok \/ IsLit(A.n) \/ IsLit(Bb.n) THEN OErr
                        ELSE LET ls == IF A.n.k = "Path" THEN A.n.steps ELSE <<A.n>>
                                 rs == IF Bb.n.k = "Path" THEN Bb.n.steps ELSE <<Bb.n>>
                                 kp == (A.n.k = "Path" /\ A.n.keep) \/ (Bb.n.k = "Path" /\ Bb.n.keep)
                             IN  OOk([k |-> "Path", steps |-> ls \o rs, keep |-> kp])
      [] n.k = "KeepRaw" -> LET A == Opt(n.l) IN
                            IF ~A.ok THEN OErr
                            ELSE IF A.n.k = "Path" THEN OOk([A.n EXCEPT !.keep = TRUE])
                            ELSE OOk([k |-> "Path", steps |-> <<A.n>>, keep |-> TRUE])
      \* a predicate attaches to the last step of a Path (stacking) and otherwise wraps its head
      [] n.k = "PredRaw" -> LET A == Opt(n.l)  F == Opt(n.r) IN
                            IF ~A.ok \/ ~F.ok THEN OErr
                            ELSE IF A.n.k = "Group" THEN OErr
                            ELSE IF A.n.k = "Path" THEN
                                 LET m == Len(A.n.steps)  last == A.n.steps[m]
                                     step == IF last.k = "Predicate" THEN [last EXCEPT !.filters = Append(@, F.n)]
                                             ELSE [k |-> "Predicate", e |-> last, filters |-> <<F.n>>]
                                 IN  OOk([A.n EXCEPT !.steps = SubSeq(A.n.steps, 1, m - 1) \o <<step>>])
                            ELSE OOk([k |-> "Predicate", e |-> A.n, filters |-> <<F.n>>])
      [] OTHER -> OErr

Parse(B) ==
    LET P0 == Advance(B, [L |-> LInit, tok |-> [ty |-> "eof", s |-> 0, e |-> 0]], TRUE)
        E == ParseExpr(B, P0, 0)
    IN  IF E.err THEN (IF E.abst THEN [ok |-> "abstain"] ELSE [ok |-> "no"])
        ELSE IF E.P.tok.ty # "eof" THEN [ok |-> "no"]
        ELSE LET O == Opt(E.node) IN IF O.ok THEN [ok |-> "yes", ast |-> O.n] ELSE [ok |-> "no"]
=============================================================================
