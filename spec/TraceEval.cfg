SPECIFICATION Spec
CONSTANT TraceFile = "trace.ndjson"
INVARIANT Report
CHECK_DEADLOCK FALSE
