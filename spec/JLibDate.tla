------------------------------ MODULE JLibDate ------------------------------
(***************************************************************************)
(* Calendar and picture semantics of $fromMillis / $toMillis (C19).        *)
(* An instant is (day, ms): days since 1970-01-01 and millisecond of the   *)
(* day (both fit TLC's 32-bit integers for the years 1000..9999).          *)
(*                                                                         *)
(*   Civil(day)            proleptic Gregorian (year, month, day)          *)
(*   Pieces(pic, day, ms, off)   what each picture component must show     *)
(*   Matches(out, pieces)  the rendered text agrees with it                *)
(*   ParseIso(s)           the default layouts of $toMillis                *)
(***************************************************************************)
EXTENDS JLibNum

FloorDiv(a, b) == a \div b           \* b > 0; TLC's \div floors
Mod(a, b) == a % b

\* D1: civil date from days since the epoch (the 400/100/4-year cycle)
Civil(day) ==
    LET z == day + 719468
        era == FloorDiv(z, 146097)
        doe == z - era * 146097
        yoe == (doe - (doe \div 1460) + (doe \div 36524) - (doe \div 146096)) \div 365
        y0 == yoe + era * 400
        doy == doe - (365 * yoe + (yoe \div 4) - (yoe \div 100))
        mp == (5 * doy + 2) \div 153
        d == doy - ((153 * mp + 2) \div 5) + 1
        m == IF mp < 10 THEN mp + 3 ELSE mp - 9
    IN  [y |-> IF m <= 2 THEN y0 + 1 ELSE y0, m |-> m, d |-> d]
DaysFromCivil(y, m, d) ==
    LET y1 == IF m <= 2 THEN y - 1 ELSE y
        era == FloorDiv(y1, 400)
        yoe == y1 - era * 400
        doy == ((153 * (IF m > 2 THEN m - 3 ELSE m + 9) + 2) \div 5) + d - 1
        doe == yoe * 365 + (yoe \div 4) - (yoe \div 100) + doy
    IN  era * 146097 + doe - 719468
IsLeap(y) == ((y % 4) = 0 /\ (y % 100) # 0) \/ (y % 400) = 0
DaysInMonth(y, m) == CASE m \in {1, 3, 5, 7, 8, 10, 12} -> 31 [] m \in {4, 6, 9, 11} -> 30 [] OTHER -> IF IsLeap(y) THEN 29 ELSE 28
Weekday(day) == Mod(day + 4, 7)                   \* 0 = Sunday ... 6 = Saturday
DayOfYear(day) == LET c == Civil(day) IN day - DaysFromCivil(c.y, 1, 1) + 1
\* ISO 8601 week number: the week with the year's first Thursday is week 1
IsoWeek(day) ==
    LET wd == LET w == Weekday(day) IN IF w = 0 THEN 7 ELSE w            \* Monday = 1 ... Sunday = 7
        thursday == day - wd + 4                                          \* the Thursday of this ISO week
        c == Civil(thursday)
    IN  ((thursday - DaysFromCivil(c.y, 1, 1)) \div 7) + 1

MonthNames == << <<74,97,110,117,97,114,121>>, <<70,101,98,114,117,97,114,121>>, <<77,97,114,99,104>>, <<65,112,114,105,108>>, <<77,97,121>>, <<74,117,110,101>>,
                 <<74,117,108,121>>, <<65,117,103,117,115,116>>, <<83,101,112,116,101,109,98,101,114>>, <<79,99,116,111,98,101,114>>, <<78,111,118,101,109,98,101,114>>, <<68,101,99,101,109,98,101,114>> >>
DayNames == << <<83,117,110,100,97,121>>, <<77,111,110,100,97,121>>, <<84,117,101,115,100,97,121>>, <<87,101,100,110,101,115,100,97,121>>, <<84,104,117,114,115,100,97,121>>, <<70,114,105,100,97,121>>, <<83,97,116,117,114,100,97,121>> >>

LowerC(c) == IF c >= 65 /\ c <= 90 THEN c + 32 ELSE c
UpperC(c) == IF c >= 97 /\ c <= 122 THEN c - 32 ELSE c
Cased(name, style) == CASE style = "N" -> [i \in 1..Len(name) |-> UpperC(name[i])]
                        [] style = "n" -> [i \in 1..Len(name) |-> LowerC(name[i])]
                        [] OTHER -> [i \in 1..Len(name) |-> IF i = 1 THEN UpperC(name[i]) ELSE LowerC(name[i])]

OrdSuffix(n) == LET m10 == n % 10  m100 == n % 100 IN
                IF m10 = 1 /\ m100 # 11 THEN <<115, 116>> ELSE IF m10 = 2 /\ m100 # 12 THEN <<110, 100>> ELSE IF m10 = 3 /\ m100 # 13 THEN <<114, 100>> ELSE <<116, 104>>

\* a non-negative integer with at least w digits
PadInt(n, w) == PadLeftZeros(NatCps(n), w)

---------------------------------------------------------------------------
(* Variable markers.  A parsed marker: [c |-> component letter, fmt |-> presentation format (cps),    *)
(* mod |-> "" | "o" | "c" | "a" | "t", minw, maxw |-> width modifier (0 = none)]                      *)

IsDig(c) == c >= 48 /\ c <= 57
AllDigits(s) == s # <<>> /\ \A i \in 1..Len(s) : IsDig(s[i])
StripWs(s) == SeqFilter(LAMBDA c : c \notin {32, 9, 10, 13, 11}, s)
RECURSIVE LastIndexOf(_, _, _)
LastIndexOf(s, c, i) == IF i = 0 THEN 0 ELSE IF s[i] = c THEN i ELSE LastIndexOf(s, c, i - 1)
DigitsToNat(ds) == DigitsVal(ds, 0)

\* width modifier "min", "min-max", "*-max", "*": [ok, min, max]
ParseWidthPart(p) == IF p = <<42>> THEN [ok |-> TRUE, n |-> 0]
                     ELSE IF AllDigits(p) /\ Len(p) <= 3 /\ DigitsToNat(p) >= 1 THEN [ok |-> TRUE, n |-> DigitsToNat(p)] ELSE [ok |-> FALSE, n |-> 0]
ParseWidth(w) ==
    LET dash == LastIndexOf(w, 45, Len(w)) IN
    IF dash = 0 THEN LET a == ParseWidthPart(w) IN [ok |-> a.ok, min |-> a.n, max |-> 0]
    ELSE LET a == ParseWidthPart(SubSeq(w, 1, dash - 1))  b == ParseWidthPart(SubSeq(w, dash + 1, Len(w)))
         IN  [ok |-> a.ok /\ b.ok /\ (b.n = 0 \/ b.n >= a.n) /\ LastIndexOf(SubSeq(w, 1, dash - 1), 45, dash - 1) = 0, min |-> a.n, max |-> b.n]

ParseMarker(raw) ==
    LET s == StripWs(raw) IN
    IF s = <<>> THEN [ok |-> FALSE]
    ELSE LET c == s[1]
             rest == Tail(s)
             comma == LastIndexOf(rest, 44, Len(rest))
             pm == IF comma = 0 THEN rest ELSE SubSeq(rest, 1, comma - 1)
             wm == IF comma = 0 THEN <<>> ELSE SubSeq(rest, comma + 1, Len(rest))
             W == IF comma = 0 THEN [ok |-> TRUE, min |-> 0, max |-> 0] ELSE (IF wm = <<>> THEN [ok |-> FALSE, min |-> 0, max |-> 0] ELSE ParseWidth(wm))
             hasMod == Len(pm) >= 2 /\ Last(pm) \in {97, 116, 99, 111}
             fmt == IF hasMod THEN Front(pm) ELSE pm
             md == IF hasMod THEN (CASE Last(pm) = 97 -> "a" [] Last(pm) = 116 -> "t" [] Last(pm) = 99 -> "c" [] Last(pm) = 111 -> "o") ELSE ""
         IN  IF ~W.ok THEN [ok |-> FALSE] ELSE [ok |-> TRUE, c |-> c, fmt |-> fmt, mod |-> md, minw |-> W.min, maxw |-> W.max]

DefaultFmt(c) == CASE c \in {89, 77, 68, 100, 87, 119, 72, 104, 102} -> <<49>>          \* Y M D d W w H h f : "1"
                   [] c \in {70, 80, 67, 69} -> <<110>>                                  \* F P C E : "n"
                   [] c \in {109, 115} -> <<48, 49>>                                     \* m s : "01"
                   [] c \in {90, 122} -> <<48, 49, 58, 48, 49>>                          \* Z z : "01:01"
                   [] OTHER -> <<>>

\* pieces: [k |-> "lit", s] exact text | [k |-> "name", name, style, maxw, minw] | [k |-> "open"] the specification abstains
Lit(s) == [k |-> "lit", s |-> s]
OpenPiece == [k |-> "open"]
NamePiece(name, style, maxw, minw) == [k |-> "name", s |-> name, style |-> style, maxw |-> maxw, minw |-> minw]
IntPiece(n, mk) ==     \* decimal formats made of digits only: the digit count is the minimum width
    IF ~AllDigits(mk.fmt) THEN OpenPiece
    ELSE Lit(PadInt(n, Len(mk.fmt)) \o (IF mk.mod = "o" THEN OrdSuffix(n) ELSE <<>>))
IsNameFmt(f) == f \in {<<78>>, <<110>>, <<78, 110>>}
StyleOf(f) == IF f = <<78>> THEN "N" ELSE IF f = <<110>> THEN "n" ELSE "Nn"

TzPiece(c, mk, off) ==          \* off: offset in minutes
    LET h == AbsI(off) \div 60   m == AbsI(off) % 60
        sign == IF off < 0 THEN <<45>> ELSE <<43>>
        prefix == IF c = 122 THEN <<71, 77, 84>> ELSE <<>>               \* [z] is prefixed with GMT
        f == mk.fmt
    IN  IF mk.minw # 0 THEN OpenPiece
        ELSE IF mk.mod = "t" /\ off = 0 /\ (AllDigits(f) \/ (Len(f) = 5 /\ AllDigits(SubSeq(f, 1, 2)) /\ AllDigits(SubSeq(f, 4, 5)))) THEN Lit(<<90>>)
        ELSE IF Len(f) = 5 /\ AllDigits(SubSeq(f, 1, 2)) /\ AllDigits(SubSeq(f, 4, 5)) /\ ~IsDig(f[3]) /\ ~((f[3] >= 65 /\ f[3] <= 90) \/ (f[3] >= 97 /\ f[3] <= 122))
             THEN Lit(prefix \o sign \o PadInt(h, 2) \o <<f[3]>> \o PadInt(m, 2))
        ELSE IF AllDigits(f) /\ Len(f) = 4 THEN Lit(prefix \o sign \o PadInt(h * 100 + m, 4))
        \* [ZZ]: the military letter of a whole-hour offset within twelve hours - Z for UTC, A..I for +1..+9, K..M for +10..+12
        \* (there is no J), N..Y for -1..-12; other offsets fall back to a numeric form (left open)
        ELSE IF f = <<90>> /\ mk.mod = "" /\ m = 0 /\ h <= 12
             THEN Lit(<<(IF h = 0 THEN 90 ELSE IF off > 0 THEN (IF h <= 9 THEN 64 + h ELSE 65 + h) ELSE 77 + h)>>)
        ELSE OpenPiece

ComponentPiece(mk0, day, ms, off) ==
    LET mk == IF mk0.fmt = <<>> THEN [mk0 EXCEPT !.fmt = DefaultFmt(mk0.c), !.mod = ""] ELSE mk0
        c == mk.c
        \* local time
        lms == ms + off * 60000
        lday == day + FloorDiv(lms, 86400000)
        tod == Mod(lms, 86400000)
        cv == Civil(lday)
        hh == tod \div 3600000   mi == (tod \div 60000) % 60   ss == (tod \div 1000) % 60   mil == tod % 1000
    IN
    CASE c = 89 -> IF ~AllDigits(mk.fmt) THEN OpenPiece                                             \* Y
                   ELSE LET size == IF mk.maxw > 0 THEN mk.maxw ELSE IF Len(mk.fmt) >= 2 THEN Len(mk.fmt) ELSE 0
                        IN  IF size > 9 \/ size = 1 THEN OpenPiece
                            ELSE IntPiece(IF size > 0 THEN cv.y % PowI(10, size) ELSE cv.y, mk)
      [] c = 77 -> IF IsNameFmt(mk.fmt) THEN NamePiece(MonthNames[cv.m], StyleOf(mk.fmt), mk.maxw, mk.minw) ELSE IntPiece(cv.m, mk)   \* M
      [] c = 68 -> IntPiece(cv.d, mk)                                                                \* D
      [] c = 100 -> IntPiece(DayOfYear(lday), mk)                                                    \* d
      [] c = 70 -> IF IsNameFmt(mk.fmt) THEN NamePiece(DayNames[Weekday(lday) + 1], StyleOf(mk.fmt), mk.maxw, mk.minw)
                   ELSE OpenPiece                                                                    \* F as a number: numbering not fixed by the statement
      [] c = 87 -> IntPiece(IsoWeek(lday), mk)                                                       \* W
      [] c = 72 -> IntPiece(hh, mk)                                                                  \* H
      [] c = 104 -> IntPiece(IF (hh % 12) = 0 THEN 12 ELSE hh % 12, mk)                             \* h : 12, 1 .. 11
      [] c = 80 -> IF IsNameFmt(mk.fmt) /\ mk.maxw = 0 THEN NamePiece(IF hh >= 12 THEN <<112, 109>> ELSE <<97, 109>>, StyleOf(mk.fmt), 0, mk.minw) ELSE OpenPiece   \* P
      [] c = 109 -> IntPiece(mi, mk)                                                                 \* m
      [] c = 115 -> IntPiece(ss, mk)                                                                 \* s
      [] c = 102 -> IF ~AllDigits(mk.fmt) THEN OpenPiece                                             \* f : leading digits of the fraction
                    ELSE IF Len(mk.fmt) = 1 THEN Lit(PadInt(mil, 3) \o <<48, 48, 48, 48, 48, 48>>)
                    ELSE IF Len(mk.fmt) <= 3 THEN Lit(SubSeq(PadInt(mil, 3), 1, Len(mk.fmt)))
                    ELSE Lit(PadInt(mil, 3) \o [i \in 1..(MinI(Len(mk.fmt), 9) - 3) |-> 48])
      [] c \in {90, 122} -> TzPiece(c, mk, off)                                                      \* Z z
      [] OTHER -> OpenPiece

\* scan a picture: [ok, ps] ; "[[" and "]]" are literal brackets
RECURSIVE ScanPicture(_, _, _, _, _, _, _)
ScanPicture(p, i, lit, acc, day, ms, off) ==
    IF i > Len(p) THEN [ok |-> TRUE, ps |-> IF lit = <<>> THEN acc ELSE Append(acc, Lit(lit))]
    ELSE IF p[i] = 91 THEN
         (IF i < Len(p) /\ p[i + 1] = 91 THEN ScanPicture(p, i + 2, Append(lit, 91), acc, day, ms, off)
          ELSE LET closeSet == {j \in i + 1..Len(p) : p[j] = 93}
               IN  IF closeSet = {} THEN [ok |-> FALSE, ps |-> <<>>]
                   ELSE LET j == CHOOSE j \in closeSet : \A k \in closeSet : j <= k
                            body == SubSeq(p, i + 1, j - 1)
                            mk == ParseMarker(body)
                        \* the component letters of XPath: Y M D d F W w H h P m s f Z z C E ; any other letter is an error
                        IN  IF (\E k \in 1..Len(body) : body[k] = 91) \/ ~mk.ok \/ mk.c \notin {89, 77, 68, 100, 70, 87, 119, 72, 104, 80, 109, 115, 102, 90, 122, 67, 69}
                            THEN [ok |-> FALSE, ps |-> <<>>]
                            ELSE ScanPicture(p, j + 1, <<>>, (IF lit = <<>> THEN acc ELSE Append(acc, Lit(lit))) \o <<ComponentPiece(mk, day, ms, off)>>, day, ms, off))
    ELSE IF p[i] = 93 THEN
         (IF i < Len(p) /\ p[i + 1] = 93 THEN ScanPicture(p, i + 2, Append(lit, 93), acc, day, ms, off) ELSE [ok |-> FALSE, ps |-> <<>>])
    ELSE ScanPicture(p, i + 1, Append(lit, p[i]), acc, day, ms, off)

HasMarker(p) == \E i \in 1..Len(p) : p[i] = 91 /\ (i = Len(p) \/ p[i + 1] # 91) /\ (i = 1 \/ p[i - 1] # 91)

\* does the rendered text agree with the pieces?  "yes" | "no" | "open"
IsSubseq(a, b) == \* a is a subsequence of b (case-insensitively)
    LET F[i \in 0..Len(a), j \in 0..Len(b)] ==
          IF i = 0 THEN TRUE ELSE IF j = 0 THEN FALSE
          ELSE (LowerC(a[i]) = LowerC(b[j]) /\ F[i - 1, j - 1]) \/ F[i, j - 1]
    IN  F[Len(a), Len(b)]
NameOk(txt, pc) ==       \* txt is what was rendered for a name piece (without padding)
    IF pc.maxw = 0 \/ Len(pc.s) <= pc.maxw THEN txt = Cased(pc.s, pc.style)
    ELSE Len(txt) >= 1 /\ Len(txt) <= pc.maxw /\ txt = Cased(txt, pc.style) /\ LowerC(txt[1]) = LowerC(pc.s[1]) /\ IsSubseq(txt, pc.s)
RECURSIVE Matches(_, _, _)
Matches(out, ps, i) ==
    IF i > Len(ps) THEN (IF out = <<>> THEN "yes" ELSE "no")
    ELSE LET pc == ps[i] IN
         IF pc.k = "open" THEN "open"
         ELSE IF pc.k = "lit" THEN
              (IF Len(out) >= Len(pc.s) /\ SubSeq(out, 1, Len(pc.s)) = pc.s THEN Matches(SubSeq(out, Len(pc.s) + 1, Len(out)), ps, i + 1) ELSE "no")
         ELSE \* a name, possibly abbreviated and padded with spaces to minw: try every split
              LET lens == {n \in 1..Len(out) : LET t == SubSeq(out, 1, n)
                                                    core == IF pc.minw > 0 THEN LET k == {m \in 1..n : \A q \in m + 1..n : t[q] = 32} IN SubSeq(t, 1, CHOOSE m \in k : \A m2 \in k : m <= m2) ELSE t
                                                IN  NameOk(core, pc) /\ (pc.minw = 0 \/ n >= pc.minw \/ n = Len(core)) /\ (pc.minw = 0 \/ n = MaxI(Len(core), pc.minw))}
                  res == {Matches(SubSeq(out, n + 1, Len(out)), ps, i + 1) : n \in lens}
              IN  IF "yes" \in res THEN "yes" ELSE IF "open" \in res THEN "open" ELSE "no"

DefaultPicture == <<91,89,93,45,91,77,48,49,93,45,91,68,48,49,93,84,91,72,48,49,93,58,91,109,93,58,91,115,93,46,91,102,48,48,49,93,91,90,48,49,58,48,49,116,93>>

\* D4: offset "+HHMM" / "-HHMM": [ok, off]
ParseOffset(tz) ==
    IF Len(tz) # 5 \/ tz[1] \notin {43, 45} \/ ~AllDigits(SubSeq(tz, 2, 5)) THEN [ok |-> FALSE, off |-> 0]
    ELSE [ok |-> TRUE, off |-> (IF tz[1] = 45 THEN 0 - 1 ELSE 1) * (DigitsToNat(SubSeq(tz, 2, 3)) * 60 + DigitsToNat(SubSeq(tz, 4, 5)))]

\* verdict for a recorded $fromMillis(ms, picture, tz) = out : "yes" | "no" | "open" | "error-expected"
FromMillisVerdict(day, ms, pic, hasPic, tz, hasTz, out) ==
    LET O == IF hasTz /\ tz # <<>> THEN ParseOffset(tz) ELSE [ok |-> TRUE, off |-> 0]
        p == IF hasPic /\ pic # <<>> THEN pic ELSE DefaultPicture
    IN  IF ~O.ok THEN "error-expected"
        ELSE LET S == ScanPicture(p, 1, <<>>, <<>>, day, ms, O.off) IN
             IF ~S.ok \/ ~HasMarker(p) THEN "error-expected"
             \* a component the specification leaves open may also be one the implementation does not support
             ELSE IF \E i \in 1..Len(S.ps) : S.ps[i].k = "open" THEN (IF Matches(out, S.ps, 1) = "no" /\ out # <<>> THEN "no" ELSE "open")
             ELSE Matches(out, S.ps, 1)

---------------------------------------------------------------------------
(* $toMillis on the default layouts: YYYY-MM-DDTHH:MM:SS(.fff)?(Z|+HH:MM|+HHMM)?, YYYY-MM-DD, YYYY   *)
Dg(s, i, n) == DigitsToNat(SubSeq(s, i, i + n - 1))
DgOk(s, i, n) == i + n - 1 <= Len(s) /\ AllDigits(SubSeq(s, i, i + n - 1))
ParseIso(s) ==
    LET bad == [ok |-> FALSE, day |-> 0, ms |-> 0]
        dateOk == DgOk(s, 1, 4) /\ Len(s) >= 10 /\ s[5] = 45 /\ DgOk(s, 6, 2) /\ s[8] = 45 /\ DgOk(s, 9, 2)
    IN  IF Len(s) = 4 /\ DgOk(s, 1, 4) THEN [ok |-> TRUE, day |-> DaysFromCivil(Dg(s, 1, 4), 1, 1), ms |-> 0]
        ELSE IF ~dateOk THEN bad
        ELSE LET y == Dg(s, 1, 4)  mo == Dg(s, 6, 2)  d == Dg(s, 9, 2) IN
             IF mo < 1 \/ mo > 12 \/ d < 1 \/ d > DaysInMonth(y, mo) THEN bad
             ELSE IF Len(s) = 10 THEN [ok |-> TRUE, day |-> DaysFromCivil(y, mo, d), ms |-> 0]
             ELSE IF ~(Len(s) >= 19 /\ s[11] = 84 /\ DgOk(s, 12, 2) /\ s[14] = 58 /\ DgOk(s, 15, 2) /\ s[17] = 58 /\ DgOk(s, 18, 2)) THEN bad
             ELSE LET hh == Dg(s, 12, 2)  mi == Dg(s, 15, 2)  ss == Dg(s, 18, 2)
                      hasF == Len(s) >= 21 /\ s[20] = 46
                      fd == IF hasF THEN TakeDigits(SubSeq(s, 21, Len(s))) ELSE <<>>
                      fms == IF fd = <<>> THEN 0 ELSE DigitsToNat(SubSeq(fd \o <<48, 48, 48>>, 1, 3))
                      z == SubSeq(s, 20 + (IF hasF THEN 1 + Len(fd) ELSE 0), Len(s))
                      zoff == IF z = <<>> \/ z = <<90>> THEN [ok |-> TRUE, off |-> 0]
                              ELSE IF Len(z) = 6 /\ z[4] = 58 THEN ParseOffset(SubSeq(z, 1, 3) \o SubSeq(z, 5, 6))
                              ELSE ParseOffset(z)
                  IN  IF hh > 23 \/ mi > 59 \/ ss > 59 \/ (hasF /\ (fd = <<>> \/ Len(fd) > 9)) \/ ~zoff.ok THEN bad
                      ELSE LET t == hh * 3600000 + mi * 60000 + ss * 1000 + fms - zoff.off * 60000
                               dd == DaysFromCivil(y, mo, d) + FloorDiv(t, 86400000)
                           IN  [ok |-> TRUE, day |-> dd, ms |-> Mod(t, 86400000)]
=============================================================================
