------------------------------- MODULE JLex -------------------------------
(***************************************************************************)
(* The scanner of jparse as a step machine: one step = one token           *)
(* (JLexFn!LexToken).  Properties Bounds, Progress and Termination (C08).  *)
(***************************************************************************)
EXTENDS JLexFn

---------------------------------------------------------------------------
(* The step machine                                                         *)
VARIABLES input, lx, mode, ntok
lexvars == <<input, lx, mode, ntok>>

LexStep == /\ mode = "run"
           /\ \E ar \in BOOLEAN :
                LET T == LexToken(input, lx, ar) IN
                /\ lx' = T.L
                /\ mode' = IF T.tok.ty = "eof" THEN "eof" ELSE IF T.tok.ty = "error" THEN "err" ELSE "run"
           /\ UNCHANGED <<input, ntok>>

Bounds == 0 <= lx.start /\ lx.start <= lx.cur /\ lx.cur <= Len(input)
Progress == [][(mode = "run" /\ mode' = "run") => lx'.cur > lx.cur]_lexvars
Termination == <>(mode # "run")
=============================================================================
