SPECIFICATION Spec
CONSTANTS
  MaxArgs = 3
  Fns = {"string", "length", "substring", "substringBefore", "substringAfter", "uppercase", "lowercase",
  "pad", "trim", "contains", "split", "join", "match", "replace", "formatNumber", "formatBase",
  "base64encode", "base64decode", "decodeUrl", "decodeUrlComponent", "encodeUrl", "encodeUrlComponent",
  "number", "abs", "floor", "ceil", "round", "power", "sqrt", "random",
  "sum", "max", "min", "average", "boolean", "not", "exists",
  "distinct", "count", "reverse", "sort", "shuffle", "zip", "append", "map", "filter", "reduce", "single",
  "each", "sift", "keys", "lookup", "spread", "merge", "fromMillis", "toMillis", "type", "error",
  "millis", "now"}
INVARIANTS Emit SpecIsTotal
CHECK_DEADLOCK FALSE
