SPECIFICATION Spec
CONSTANTS
  MaxT = 5
INVARIANTS Emit TemplateLaws NoDollarIsVerbatim
CHECK_DEADLOCK FALSE
