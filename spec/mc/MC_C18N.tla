------------------------------ MODULE MC_C18N ------------------------------
(***************************************************************************)
(* C18, decimal-digit part.  TLC enumerates                                *)
(*  - $round: ties, neighbours of ties (the adjacent doubles), integers,   *)
(*    decimal fractions and powers of ten x precisions -6..12              *)
(*  - $string / $number($string(x)) on the same doubles and on the powers  *)
(*    of ten 1e-12..1e21 and the double-range extremes                     *)
(*  - $formatNumber: pictures generated from the decimal-format grammar    *)
(*    (integer and fraction digit patterns, regular and irregular          *)
(*    grouping, percent, per-mille, exponent, prefix/suffix, two           *)
(*    sub-pictures), each mutated by inserting one character at every      *)
(*    position, under the default and custom formats, and sequences of two *)
(*    calls with one picture text under two different formats              *)
(* and checks theorems of the specification itself (RoundDec on ties,      *)
(* DecText round trip, big-digit arithmetic).                              *)
(***************************************************************************)
EXTENDS JNumFmt, Json

CONSTANT Depth        \* 1 = quick, 2 = thorough

VARIABLES c, done
vars == <<c, done>>

X(sg, ds, e) == [sg |-> sg, ds |-> ds, e |-> e]
Call(f) == [mode |-> "num", flags |-> [calls |-> <<f>>]]
Seq2(f, g) == [mode |-> "num", flags |-> [calls |-> <<f, g>>]]

\* ---- numbers ----
TieHeads == {<<5>>, <<1, 5>>, <<2, 5>>, <<3, 5>>, <<4, 5>>, <<1, 2, 5>>, <<1, 3, 5>>, <<9, 9, 5>>, <<9, 5>>, <<1, 0, 0, 5>>, <<1, 0, 1, 5>>, <<4, 5, 2, 5>>, <<8, 5>>, <<7, 5>>, <<6, 5>>, <<5, 5>>, <<1, 0, 5>>, <<1, 1, 5>>}
Ties == {X(sg, h, e) : sg \in {1, 0 - 1}, h \in TieHeads, e \in (0 - 7)..3}
Plain == {X(sg, h, e) : sg \in {1, 0 - 1}, h \in {<<1>>, <<7>>, <<1, 2>>, <<1, 2, 3>>, <<1, 2, 3, 4, 5, 6>>, <<9, 9, 9, 9>>, <<4, 9, 9, 9>>, <<5, 0, 0, 1>>, <<1, 4, 9>>, <<1, 5, 1>>, <<9, 9, 9, 9, 9, 9>>}, e \in (0 - 6)..2}
Pow10 == {X(1, <<1>>, e) : e \in (0 - 12)..21}
Zeros2 == {X(1, <<0>>, 0), X(0 - 1, <<0>>, 0)}
Extremes == {X(1, <<1, 7, 9, 7, 6, 9, 3, 1, 3, 4, 8, 6, 2, 3, 1, 5, 7>>, 292), X(1, <<5>>, 0 - 324), X(1, <<2, 2, 2, 5, 0, 7, 3, 8, 5, 8, 5, 0, 7, 2, 0, 1, 4>>, 0 - 324),
             X(1, <<9, 0, 0, 7, 1, 9, 9, 2, 5, 4, 7, 4, 0, 9, 9, 2>>, 0), X(1, <<9, 0, 0, 7, 1, 9, 9, 2, 5, 4, 7, 4, 0, 9, 9, 3>>, 0), X(1, <<1, 2, 3, 4, 5, 6, 7, 8, 9, 0, 1, 2, 3, 4, 5, 6, 8>>, 4),
             X(1, <<1>>, 22), X(1, <<1>>, 0 - 7), X(1, <<9, 9, 9, 9, 9, 9, 9, 9, 9, 9, 9, 9, 9, 9, 9, 9, 9>>, 4), X(0 - 1, <<1, 5>>, 0 - 8), X(1, <<1, 2, 3, 4, 5, 6, 7>>, 15)}
Precisions == (0 - 6)..12

\* |x| * 10^p below 2^53 (taken as 15 digits) and not so small that the precision is pointless
InRoundScope(x, p) == Len(x.ds) + x.e + p <= 15 /\ Len(x.ds) + x.e + p >= 0 - 2

\* ---- pictures ----
\* pictures are written as code-point tuples: # 35, 0 48, comma 44, dot 46, ; 59, % 37, per-mille 8240, e 101
IntPats == {<<48>>, <<35>>, <<48, 48>>, <<35, 48>>, <<35, 35, 48>>, <<35, 44, 35, 35, 48>>, <<35, 44, 35, 35, 35>>, <<48, 44, 48, 48, 48>>, <<48, 48, 44, 48, 48>>,
            <<35, 44, 35, 35, 44, 35, 35, 48>>, <<35, 44, 35, 35, 35, 44, 35, 48>>, <<35, 44, 35, 44, 35, 35, 48>>, <<35, 44, 35, 35, 48, 44, 48>>, <<48, 48, 48, 48, 44, 48, 48, 48>>, <<>>}
FracPats == {<<>>, <<46, 48>>, <<46, 48, 48>>, <<46, 35>>, <<46, 48, 35>>, <<46, 35, 35>>, <<46, 48, 48, 48>>, <<46, 48, 44, 48>>, <<46, 48, 44, 48, 48, 44, 48>>, <<46, 48, 48, 44, 48, 35>>, <<46, 35, 35, 35, 35, 35, 35>>, <<46>>}
ExpPats == {<<>>, <<101, 48>>, <<101, 48, 48>>}
Prefixes == {<<>>, <<36>>, <<97, 32>>, <<102, 101, 101, 32>>}
Suffixes == {<<>>, <<37>>, <<8240>>, <<32, 117>>, <<37, 32, 117>>}
Mantissas == {i \o f : i \in IntPats, f \in FracPats}
SubPics == IF Depth >= 2 THEN {p \o m \o e \o s : p \in Prefixes, m \in Mantissas, e \in ExpPats, s \in Suffixes}
           ELSE {m \o s : m \in Mantissas, s \in {<<>>, <<37>>, <<8240>>}} \cup {p \o m \o e \o s : p \in {<<36>>}, m \in {<<48>>, <<35, 44, 35, 35, 48, 46, 48, 48>>, <<48, 48, 46, 48, 35>>, <<35>>, <<46, 48>>, <<35, 46, 35>>}, e \in ExpPats, s \in {<<>>, <<32, 117>>}}
              \* exponent-separator characters in the prefix and in the suffix are passive: "fee 0", "0 each", "rate 0%", "e0", "0e", "0.0e0 each", "0% per year"
              \cup {p \o m \o s : p \in {<<>>, <<102, 101, 101, 32>>, <<101>>}, m \in {<<48>>, <<35, 44, 35, 35, 48, 46, 48, 48>>, <<48, 46, 48, 101, 48>>, <<48, 37>>}, s \in {<<>>, <<32, 101, 97, 99, 104>>, <<101>>, <<32, 112, 101, 114, 32, 121, 101, 97, 114>>}}
FmtNumbers == {X(1, <<0>>, 0), X(0 - 1, <<0>>, 0), X(1, <<5>>, 0 - 1), X(1, <<1, 5>>, 0 - 1), X(1, <<2, 5>>, 0 - 1), X(1, <<2, 8, 5>>, 0 - 3), X(1, <<1, 2, 3, 4, 5>>, 0 - 1), X(0 - 1, <<1, 2, 3, 4, 5>>, 0 - 1),
               X(1, <<7>>, 0 - 2), X(1, <<1, 2, 3, 4, 5, 6, 7, 8>>, 0), X(1, <<1>>, 21), X(1, <<1>>, 0 - 7), X(0 - 1, <<4>>, 0 - 1), X(1, <<9, 9, 9, 9, 9, 9, 6>>, 0 - 4), X(1, <<1, 2, 3>>, 0 - 6),
               X(1, <<1, 2, 3, 4, 5, 6, 7, 8, 9>>, 0 - 3), X(1, <<5>>, 0), X(1, <<9, 9, 5>>, 0 - 2), X(0 - 1, <<1>>, 3)}
FewNumbers == {X(1, <<1, 2, 3, 4, 5>>, 0 - 1), X(0 - 1, <<1, 2, 3, 4, 5, 6, 7, 8>>, 0 - 2), X(1, <<5>>, 0 - 1), X(1, <<0>>, 0), X(1, <<2, 5>>, 0 - 2)}
\* one character inserted at every position
MutChars == {46, 44, 120, 35, 48, 59, 37, 101, 49}
Mutations(p) == {SubSeq(p, 1, i) \o <<ch>> \o SubSeq(p, i + 1, Len(p)) : i \in 0..Len(p), ch \in MutChars}
MutBase == {<<35, 44, 35, 35, 48, 46, 48, 48>>, <<48, 46, 48, 35>>, <<36, 35, 48, 37>>, <<48, 46, 48, 101, 48>>, <<35, 48, 59, 40, 35, 48, 41>>}

\* custom formats and the same pictures written in them
Swap == [dec |-> 44, grp |-> 46]
Arabic == [zero |-> 1632]
Odd == [digit |-> 64, psep |-> 124, minus |-> 126, exp |-> 69]
PcOpt == [pct |-> <<112, 99>>, pml |-> <<112, 109>>]
Translate(p, F) == [i \in 1..Len(p) |-> LET ch == p[i] IN
                      IF ch = 46 THEN F.dec ELSE IF ch = 44 THEN F.grp ELSE IF ch = 35 THEN F.digit ELSE IF ch = 59 THEN F.psep ELSE IF ch = 101 THEN F.exp
                      ELSE IF ch >= 48 /\ ch <= 57 THEN F.zero + (ch - 48) ELSE ch]
FullFormat(o) == [k \in FormatKeys |-> IF k \in DOMAIN o THEN o[k] ELSE DefaultFormat[k]]
OptSets == {Swap, Arabic, Odd}
SeqPics == {<<35, 44, 35, 35, 48, 46, 48, 48>>, <<35, 46, 35, 35, 48, 44, 48, 48>>, <<48, 46, 48>>, <<48, 44, 48>>, <<35, 44, 35, 35, 35>>, <<48, 37>>, <<48, 112, 99>>, <<64, 48>>, <<35, 48, 124, 40, 35, 48, 41>>, <<48, 46, 48, 69, 48>>}
SeqOpts == {<<>>, Swap, Odd, PcOpt}
Fmt(x, p, o) == [fn |-> "fmt", xd |-> x, pic |-> p] @@ (IF o = <<>> THEN <<>> ELSE [opts |-> o])

Init == /\ \/ \E x \in Ties \cup Plain \cup Pow10 \cup Zeros2, p \in Precisions : InRoundScope(x, p) /\ c = Call([fn |-> "round", xd |-> x, p |-> p])
           \/ \E x \in Ties, p \in Precisions, nd \in {1, 0 - 1} : InRoundScope(x, p) /\ x.e + p = 0 - 1 /\ c = Call([fn |-> "round", xd |-> x, p |-> p, nudge |-> nd])
           \/ \E x \in Ties \cup Zeros2 : c = Call([fn |-> "round", xd |-> x])
           \* the ends of the double range: the result is a number (never an infinity)
           \/ \E x \in Extremes \cup {X(0 - 1, <<1, 7>>, 307), X(1, <<1, 7>>, 307), X(1, <<9>>, 307)}, p \in {0 - 308, 0 - 307, 0 - 300, 0 - 292, 0, 12} : c = Call([fn |-> "round", xd |-> x, p |-> p])
           \/ \E x \in Ties \cup Plain \cup Pow10 \cup Zeros2 \cup Extremes, f \in {"string", "numrt"} : c = Call([fn |-> f, xd |-> x])
           \/ \E x \in Ties \cup Extremes, nd \in {1, 0 - 1}, f \in {"string", "numrt"} : c = Call([fn |-> f, xd |-> x, nudge |-> nd])
           \/ \E sp \in SubPics, x \in (IF Depth >= 2 THEN FmtNumbers ELSE FewNumbers) : c = Call(Fmt(x, sp, <<>>))
           \/ \E m \in {<<35, 44, 35, 35, 48, 46, 48, 48>>, <<48>>, <<35, 48, 46, 35>>, <<48, 46, 48, 101, 48>>}, n \in {<<40, 35, 44, 35, 35, 48, 46, 48, 48, 41>>, <<45, 48>>, <<48, 32, 67, 82>>}, x \in FmtNumbers :
                    c = Call(Fmt(x, m \o <<59>> \o n, <<>>))
           \/ \E b \in MutBase : \E p \in Mutations(b), x \in {X(1, <<1, 2, 3, 4, 5>>, 0 - 1), X(0 - 1, <<2, 5>>, 0 - 1)} : c = Call(Fmt(x, p, <<>>))
           \/ \E sp \in {<<35, 44, 35, 35, 48, 46, 48, 48>>, <<48, 46, 48, 35>>, <<35, 48, 59, 40, 35, 48, 41>>, <<48, 46, 48, 101, 48>>, <<35, 44, 35, 35, 35, 44, 35, 48>>, <<48, 37>>}, o \in OptSets, x \in FmtNumbers :
                    c = Call(Fmt(x, Translate(sp, FullFormat(o)), o))
           \/ \E x \in FewNumbers : c = Call(Fmt(x, <<48, 112, 99>>, PcOpt)) \/ c = Call(Fmt(x, <<48, 112, 109>>, PcOpt)) \/ c = Call(Fmt(x, <<48, 37>>, PcOpt))
           \* one picture text read under two formats, in both orders (state kept between calls must not leak)
           \/ \E p \in SeqPics, o1, o2 \in SeqOpts, x \in {X(1, <<1, 2, 3, 4, 5>>, 0 - 1), X(0 - 1, <<2, 5>>, 0 - 2)} : o1 # o2 /\ c = Seq2(Fmt(x, p, o1), Fmt(x, p, o2))
           \/ \E p \in {<<>>, <<59>>, <<48, 59>>, <<59, 48>>, <<48, 59, 48, 59, 48>>, <<97, 98, 99>>, <<37>>, <<46>>, <<44>>, <<101>>, <<35, 35, 35, 35, 35, 35, 35, 35, 35, 35, 35, 35, 35, 35, 35, 35, 35, 35, 35, 35, 46, 35, 35, 35, 35, 35, 35, 35, 35, 35, 35, 35, 35, 35, 35, 35, 35, 35, 35, 35, 35>>},
                 x \in FmtNumbers \cup Extremes : c = Call(Fmt(x, p, <<>>))
           \/ \E p \in {<<48>>, <<35, 44, 35, 35, 48, 46, 35, 35>>, <<48, 46, 48, 48, 101, 48>>, <<48, 48, 46, 48, 101, 48, 48>>, <<35, 46, 48, 48, 48, 48, 48, 48, 48, 48, 48, 48, 48, 48, 48, 48, 48, 48, 48, 48, 48, 48>>}, x \in Extremes \cup Pow10 : c = Call(Fmt(x, p, <<>>))
        /\ done = FALSE
Next == ~done /\ done' = TRUE /\ UNCHANGED c
Spec == Init /\ [][Next]_vars

Emit == done => PrintT("CASE " \o ToJson(c))

\* ---- theorems on the specification ----
DecOfInt(n) == Dec(IF n < 0 THEN 0 - 1 ELSE 1, NatDigits(IF n < 0 THEN 0 - n ELSE n), 0)
RECURSIVE DigitsInt(_, _)
DigitsInt(ds, acc) == IF ds = <<>> THEN acc ELSE DigitsInt(Tail(ds), acc * 10 + Head(ds))
\* big-digit arithmetic agrees with integer arithmetic
ArithOk == \A a, b \in {0, 1, 9, 10, 99, 100, 101, 999, 1000, 12345, 54321, 99999} :
              /\ DigitsInt(BigAdd(NatDigits(a), NatDigits(b)), 0) = a + b
              /\ (a >= b => DigitsInt(BigSub(NatDigits(a), NatDigits(b)), 0) = a - b)
              /\ BigLt(NatDigits(a), NatDigits(b)) = (a < b)
\* half-to-even on ties: k.5 rounds to the even neighbour, for both signs, at every precision
TiesToEven == \A k \in 0..30, p \in (0 - 3)..3, sg \in {1, 0 - 1} :
                 LET x == Dec(sg, NatDigits(10 * k + 5), (0 - p) - 1)
                     want == IF k % 2 = 0 THEN k ELSE k + 1
                 IN  DecEq(RoundDec(x, p), Dec(sg, NatDigits(want), 0 - p))
\* rounding is idempotent and moves the value by at most half a unit
RoundLaws == \A n \in {0, 1, 4, 5, 6, 14, 15, 16, 25, 149, 150, 151, 250, 251, 999, 1249, 1250, 1251, 99950, 99949}, e \in (0 - 4)..1, p \in (0 - 2)..4 :
                 LET x == Dec(1, NatDigits(n), e)  r == RoundDec(x, p) IN
                 /\ DecEq(RoundDec(r, p), r)
                 /\ AbsWithin(x, IF r.sg = 0 THEN Dec(1, <<0>>, 0) ELSE r, Dec(1, <<5>>, (0 - p) - 1))
\* the text of a decimal parses back to it (plain layout)
TextOk == /\ DecText(Dec(1, <<1, 2, 3>>, 0 - 1)) = <<49, 50, 46, 51>>
          /\ DecText(Dec(0 - 1, <<5>>, 0 - 3)) = <<45, 48, 46, 48, 48, 53>>
          /\ DecText(Dec(1, <<1>>, 21)) = <<49, 101, 43, 50, 49>>
          /\ DecText(Dec(1, <<1>>, 20)) = <<49>> \o [i \in 1..20 |-> 48]
          /\ DecText(Dec(1, <<1>>, 0 - 7)) = <<49, 101, 45, 55>>
          /\ DecText(Dec(1, <<1, 5>>, 0 - 8)) = <<49, 46, 53, 101, 45, 55>>
          /\ DecText(Dec(1, <<1>>, 0 - 6)) = <<48, 46, 48, 48, 48, 48, 48, 49>>
\* known pictures
PictureFacts ==
    /\ PictureValid(<<35, 44, 35, 35, 48, 46, 48, 48>>, DefaultFormat) = "yes"
    /\ PictureValid(<<>>, DefaultFormat) = "no"
    /\ PictureValid(<<48, 59>>, DefaultFormat) = "no"
    /\ PictureValid(<<48, 59, 48, 59, 48>>, DefaultFormat) = "no"
    /\ PictureValid(<<48, 46, 48, 46, 48>>, DefaultFormat) = "no"
    /\ PictureValid(<<48, 35>>, DefaultFormat) = "no"
    /\ PictureValid(<<46, 35, 48>>, DefaultFormat) = "no"
    /\ PictureValid(<<48, 44, 46, 48>>, DefaultFormat) = "no"
    /\ PictureValid(<<48, 120, 48>>, DefaultFormat) = "no"
    /\ PictureValid(<<37, 48, 37>>, DefaultFormat) = "no"
    /\ ReadsBack(<<49, 44, 50, 51, 52, 46, 53, 48>>, Dec(1, <<1, 2, 3, 4, 5>>, 0 - 1), <<35, 44, 35, 35, 48, 46, 48, 48>>, DefaultFormat) = "yes"
    /\ ReadsBack(<<49, 50, 51, 52, 46, 53, 48>>, Dec(1, <<1, 2, 3, 4, 5>>, 0 - 1), <<35, 44, 35, 35, 48, 46, 48, 48>>, DefaultFormat) = "no:grouping"
    /\ ReadsBack(<<49, 44, 50, 51, 52, 46, 54, 48>>, Dec(1, <<1, 2, 3, 4, 5>>, 0 - 1), <<35, 44, 35, 35, 48, 46, 48, 48>>, DefaultFormat) = "no:value"
    /\ ReadsBack(<<55, 37>>, Dec(1, <<7>>, 0 - 2), <<48, 37>>, DefaultFormat) = "yes"
    /\ ReadsBack(<<49, 46, 50, 101, 51>>, Dec(1, <<1, 2, 3, 4>>, 0), <<48, 46, 48, 101, 48>>, DefaultFormat) = "yes"
ASSUME ArithOk /\ TiesToEven /\ RoundLaws /\ TextOk /\ PictureFacts
=============================================================================
