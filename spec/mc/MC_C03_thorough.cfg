SPECIFICATION Spec
CONSTANTS
  Depth2 = TRUE
INVARIANTS Emit Total CmpIsBoolean CmpNeverUndef
CHECK_DEADLOCK FALSE
