------------------------------- MODULE MC_C11 -------------------------------
(***************************************************************************)
(* C11 - JSON texts.  Exhaustive: all string literals of up to MaxUnits    *)
(* units over an alphabet of escape forms and representative characters    *)
(* (every JSON escape, \uXXXX for BMP, surrogate pairs, raw 1-4 byte       *)
(* characters, JSONata metacharacters, both quote characters), malformed   *)
(* escapes and unpaired surrogates; all number syntaxes -? int frac? exp?  *)
(* over small digit strings plus edge numerals; containers up to depth 3   *)
(* incl. empty and array-in-array; whitespace variants.                    *)
(* Theorems: an escaped text denotes what the same text written raw        *)
(* denotes; single- and double-quoted forms denote the same value.         *)
(***************************************************************************)
EXTENDS JSyntax, JOutcome, Json

CONSTANT MaxUnits

VARIABLES txt, kind, done
vars == <<txt, kind, done>>

\* units of string bodies: <<bytes as written in a double-quoted literal, well-formed?>>
U(bs) == [b |-> bs, ok |-> TRUE]
Bad(bs) == [b |-> bs, ok |-> FALSE]
Units == { U(<<97>>), U(<<92, 34>>), U(<<92, 92>>), U(<<92, 47>>), U(<<92, 98>>), U(<<92, 102>>), U(<<92, 110>>), U(<<92, 114>>), U(<<92, 116>>),
           U(<<92, 117, 48, 48, 101, 57>>), U(<<92, 117, 48, 48, 52, 49>>), U(<<92, 117, 50, 48, 65, 67>>),          \* é A €
           U(<<92, 117, 100, 56, 51, 100, 92, 117, 100, 101, 48, 48>>),                                                 \* 😀
           U(<<195, 169>>), U(<<226, 130, 172>>), U(<<240, 159, 152, 128>>),                                             \* é € U+1F600 raw
           U(<<36>>), U(<<46>>), U(<<91>>), U(<<96>>), U(<<39>>), U(<<123>>), U(<<32>>),
           U(<<47>>), U(<<42>>), U(<<47, 42>>), U(<<42, 47>>), U(<<124>>), U(<<58, 61>>), U(<<126, 62>>),        \* / * /* */ | := ~> : characters that mean something outside a string
           U(<<239, 191, 189>>), U(<<92, 117, 70, 70, 70, 68>>), U(<<92, 117, 48, 48, 48, 48>>), U(<<92, 117, 48, 48, 49, 102>>), U(<<92, 117, 48, 48, 55, 102>>),   \* U+FFFD raw and escaped, NUL, U+001F, DEL
           U(<<92, 117, 100, 98, 102, 102, 92, 117, 100, 102, 102, 102>>),                                               \* U+10FFFF
           Bad(<<92, 117, 43, 48, 52, 49>>), Bad(<<92, 117, 45, 48, 48, 48>>),                                          \* \u+041  \u-000 : a sign is not a hex digit
           Bad(<<92, 117, 100, 56, 51, 100>>), Bad(<<92, 117, 100, 101, 48, 48>>), Bad(<<92, 113>>), Bad(<<92, 117, 48, 48, 103, 49>>) }
UnitSeqs == UNION {[1..n -> Units] : n \in 0..MaxUnits}
Body(us) == SeqConcatAll([i \in 1..Len(us) |-> us[i].b])
DQ(us) == <<34>> \o Body(us) \o <<34>>
\* the single-quoted form of the same literal: a raw ' must be written \' ... JSONata has no \' escape,
\* so bodies containing a raw ' are only written in double quotes; an escaped " may be written raw
SQ(us) == <<39>> \o Body(us) \o <<39>>
HasRawSq(us) == \E i \in 1..Len(us) : us[i].b = <<39>>

\* numbers
Ints == {<<48>>, <<49>>, <<49, 50>>, <<49, 50, 48>>, <<57, 57, 57>>}
Fracs == {<<>>, <<46, 48>>, <<46, 53>>, <<46, 50, 53>>, <<46, 49, 50, 53>>, <<46, 49>>}
Exps == {<<>>, <<101, 48>>, <<101, 49>>, <<69, 43, 50>>, <<101, 45, 49>>, <<101, 45, 50>>, <<69, 51>>, <<101, 48, 49>>, <<69, 43, 48, 50>>, <<101, 45, 48, 48, 49>>, <<101, 48, 48>>}
Numerals == {s \o i \o f \o x : s \in {<<>>, <<45>>}, i \in Ints, f \in Fracs, x \in Exps}
EdgeNumerals == { <<49, 50, 51, 52, 53, 54, 55, 56, 57, 48, 49, 50, 51, 52, 53, 54, 55>>,                \* 17 digits
                  <<57, 48, 48, 55, 49, 57, 57, 50, 53, 52, 55, 52, 48, 57, 57, 51>>,                    \* 2^53 + 1
                  <<49, 101, 51, 48, 56>>, <<49, 101, 51, 48, 57>>, <<49, 101, 52, 48, 48>>, <<45, 49, 101, 52, 48, 48>>,   \* 1e308 1e309 1e400
                  <<52, 46, 57, 101, 45, 51, 50, 52>>, <<49, 101, 45, 52, 48, 48>>,                      \* subnormal, underflow
                  <<45, 48>>, <<45, 48, 46, 48>>, <<48, 46, 49>>, <<48, 46, 51>>, <<49, 46, 48, 101, 49, 48>>,
                  <<48, 49>>, <<49, 46>>, <<46, 53>>, <<49, 101>>, <<43, 49>>, <<49, 101, 43>>, <<48, 120, 49>> }   \* malformed

\* containers
Leaves == {<<49>>, <<34, 97, 34>>, <<116, 114, 117, 101>>, <<110, 117, 108, 108>>, <<91, 93>>, <<123, 125>>, <<102, 97, 108, 115, 101>>}
ArrOf(xs) == <<91>> \o (IF Len(xs) = 0 THEN <<>> ELSE IF Len(xs) = 1 THEN xs[1] ELSE xs[1] \o <<44>> \o xs[2]) \o <<93>>
ObjOf(xs) == <<123>> \o (IF Len(xs) = 0 THEN <<>> ELSE IF Len(xs) = 1 THEN <<34, 97, 34, 58>> \o xs[1] ELSE <<34, 97, 34, 58>> \o xs[1] \o <<44, 34, 98, 34, 58>> \o xs[2]) \o <<125>>
Level(S) == S \cup {ArrOf(<<x>>) : x \in S} \cup {ArrOf(<<x, y>>) : x \in S, y \in S} \cup {ObjOf(<<x>>) : x \in S} \cup {ObjOf(<<x, y>>) : x \in S, y \in S}
C1 == Level(Leaves)
C2 == {ArrOf(<<x>>) : x \in C1} \cup {ObjOf(<<x>>) : x \in C1} \cup {ArrOf(<<x, <<49>>>>) : x \in C1} \cup {ObjOf(<<<<49>>, x>>) : x \in C1}
C3 == {ArrOf(<<x>>) : x \in C2}
\* whitespace between all structural characters
RECURSIVE Ws(_)
Ws(bs) == IF bs = <<>> THEN <<>> ELSE (IF Head(bs) \in {91, 93, 123, 125, 44, 58} THEN <<32, Head(bs), 10, 9>> ELSE <<Head(bs)>>) \o Ws(Tail(bs))

\* the same with carriage returns (CRLF-formatted documents): CR LF after every structural character and after every literal
RECURSIVE WsCr(_)
WsCr(bs) == IF bs = <<>> THEN <<>> ELSE (IF Head(bs) \in {91, 93, 123, 125, 44, 58} THEN <<13, 10, Head(bs), 13, 10>> ELSE <<Head(bs)>>) \o WsCr(Tail(bs))

Init == /\ \/ \E us \in UnitSeqs : txt = DQ(us) /\ kind = "dq"
           \/ \E c \in C1 \cup C2 : txt = WsCr(c) \o <<13, 10>> /\ kind = "json"
           \/ \E c \in Leaves : \E w \in {<<13>>, <<13, 10>>, <<9>>, <<10>>, <<32>>} : txt = w \o c \o w /\ kind = "json"
           \/ \E us \in UnitSeqs : ~HasRawSq(us) /\ txt = SQ(us) /\ kind = "sq"
           \/ \E n \in Numerals \cup EdgeNumerals : txt = n /\ kind = "num"
           \/ \E c \in C1 \cup C2 \cup C3 : txt = c /\ kind = "json"
           \/ \E c \in C1 \cup C3 : txt = Ws(c) /\ kind = "json"
        /\ done = FALSE
Next == ~done /\ done' = TRUE /\ UNCHANGED <<txt, kind>>
Spec == Init /\ [][Next]_vars

Emit == done => PrintT("CASE " \o ToJson([bytes |-> txt, mode |-> "denote"]))

\* ---- theorems on the specification ----
Den(B) == LET S == Parse(B) IN IF S.ok = "yes" THEN Expected(S.ast, Null, <<>>) ELSE [o |-> S.ok]
\* single- and double-quoted forms denote the same value
QuoteInsensitive == (done /\ kind = "sq") => Den(txt) = Den(<<34>> \o SubSeq(txt, 2, Len(txt) - 1) \o <<34>>)
\* a well-formed string literal denotes a string; a literal with a malformed unit is rejected
StringsDenoteStrings == (done /\ kind = "dq") => LET d == Den(txt) IN d.o \in {"val", "no"} /\ (d.o = "val" => d.r.t = "str")
\* whitespace is insignificant
WsInsensitive == (done /\ kind = "json") => Den(txt) = Den(Ws(txt))
=============================================================================
