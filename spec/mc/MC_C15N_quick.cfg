SPECIFICATION Spec
CONSTANTS
  MaxLen = 2
INVARIANTS Emit
CHECK_DEADLOCK FALSE
