SPECIFICATION SSpec
CONSTANTS
  Gs = {1}
  Tree <- TreeNested
  Fns = {"f", "h"}
  Shared = FALSE
INVARIANTS OwnContext EmitSchedule
CHECK_DEADLOCK FALSE
