SPECIFICATION Spec
CONSTANTS
  MaxLen = 2
  ParamRange = 4
INVARIANTS Emit Laws LengthIsCodePoints
CHECK_DEADLOCK FALSE
