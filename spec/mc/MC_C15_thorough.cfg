SPECIFICATION Spec
CONSTANTS
  MaxLen = 4
INVARIANTS Emit Laws DistinctShrinks
CHECK_DEADLOCK FALSE
