SPECIFICATION Spec
CONSTANTS
  MaxLen = 4
INVARIANTS Emit IsStableSortedPerm
CHECK_DEADLOCK FALSE
