------------------------------- MODULE MC_C18 -------------------------------
(***************************************************************************)
(* C18 (exact-rational part) - $number, $string, $round, $floor, $ceil,    *)
(* $abs, $sqrt, $power, $formatBase.  Exhaustive: every string of up to    *)
(* MaxChars characters over {0 1 9 - + . e E} for $number; decimals of up  *)
(* to 4 digits incl. exact ties x precisions -4..6 for $round; integers    *)
(* and halves x bases 0..40 incl. fractional for $formatBase.  The         *)
(* picture formatter $formatNumber is specified in JNumFmt (digit model).  *)
(***************************************************************************)
EXTENDS MCBase

CONSTANT MaxChars

NumChars == {48, 49, 57, 45, 43, 46, 101, 69}
NumStrings == UNION {[1..n -> NumChars] : n \in 0..MaxChars}
F(nm, args) == NCall(NVar(nm), args)
S == NVar("")

\* decimals m / 10^k with up to 4 digits, both signs: ties at every digit
Decimals == {Num(m, PowI(10, k)) : m \in {0, 5, 15, 25, 35, 45, 125, 135, 145, 155, 250, 350, 1250, 1350, 1251, 1249, 9995, 9985, 5000, 4999, 1, 10, 100}, k \in 0..3}
SignedDecimals == Decimals \cup {NumNeg(x) : x \in Decimals}
Precisions == (0 - 4)..6
Ints == {IntV(n) : n \in {0, 1, 2, 7, 10, 35, 36, 255, 256, 1023, 65535, 1000000}} \cup {IntV(0 - n) : n \in {1, 10, 255}}
Bases == {IntV(b) : b \in 0..40} \cup {Num(5, 2), Num(31, 2), Num(73, 2), Num(3, 2)}

Init == /\ \/ \E s \in NumStrings : case = MkCase(F("number", <<S>>), Str(s))
           \/ \E x \in SignedDecimals, p \in Precisions : case = MkCase(F("round", <<S, NNum(IntV(p))>>), x)
           \/ \E x \in SignedDecimals : case = MkCase(F("round", <<S>>), x)
           \/ \E x \in SignedDecimals, nm \in {"floor", "ceil", "abs", "sqrt", "string"} : case = MkCase(F(nm, <<S>>), x)
           \/ \E x \in SignedDecimals : case = MkCase(NCmpOp("=", F("number", <<F("string", <<S>>)>>), S), x)
           \/ \E x \in Ints \cup {Num(5, 2), Num(7, 2), Num(0 - 5, 2), Num(1, 4)}, b \in Bases : case = MkCase(F("formatBase", <<S, NNum(b)>>), x)
           \/ \E x \in Ints : case = MkCase(F("formatBase", <<S>>), x)
           \/ \E x \in {IntV(0), IntV(2), IntV(0 - 2), Num(1, 2), IntV(10), Num(0 - 3, 2)}, e \in {IntV(0), IntV(1), IntV(2), IntV(3), IntV(10), IntV(0 - 1), Num(1, 2), IntV(30)} : case = MkCase(F("power", <<S, NNum(e)>>), x)
           \/ \E x \in {IntV(0), IntV(1), IntV(4), IntV(9), Num(1, 4), Num(9, 4), IntV(2), IntV(0 - 1), IntV(0 - 4), IntV(144), IntV(1000000)} : case = MkCase(F("sqrt", <<S>>), x)
           \/ \E b \in {TRUE, FALSE} : case = MkCase(F("number", <<S>>), Bool(b))
        /\ out = Pending
Next == EvaluateCase
Spec == Init /\ [][Next]_mcvars

\* theorems: the round trip holds in the specification; half-even rounding at ties
RoundTrip == (out # Pending /\ case.ast.k = "CmpOp" /\ out.o = "val") => out.r = Bool(TRUE)
HalfEven == /\ RoundAt(Num(5, 2), 0) = IntV(2) /\ RoundAt(Num(7, 2), 0) = IntV(4) /\ RoundAt(Num(0 - 5, 2), 0) = IntV(0 - 2)
            /\ RoundAt(Num(125, 100), 1) = Num(12, 10) /\ RoundAt(Num(135, 100), 1) = Num(14, 10) /\ RoundAt(IntV(15), 0 - 1) = IntV(20) /\ RoundAt(IntV(25), 0 - 1) = IntV(20)
ASSUME HalfEven
=============================================================================
