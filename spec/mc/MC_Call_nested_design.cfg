SPECIFICATION CallSpec
CONSTANTS
  Gs = {1}
  Tree <- TreeNested
  Fns = {"f", "h"}
  Shared = FALSE
INVARIANT OwnContext
PROPERTY AllDone
CHECK_DEADLOCK FALSE
