SPECIFICATION Spec
CONSTANTS
  OffStep = 8
INVARIANTS Emit
CHECK_DEADLOCK FALSE
