SPECIFICATION Spec
CONSTANTS
  OffStep = 8
INVARIANTS Emit CivilInverse WeeksInRange KnownWeeks Weekdays
CHECK_DEADLOCK FALSE
