------------------------------- MODULE MC_C16 -------------------------------
(***************************************************************************)
(* C16 - string functions on code points.  Exhaustive over all strings of  *)
(* length <= MaxLen over an alphabet with 1-, 2-, 3- and 4-byte            *)
(* characters, whitespace and the separator, crossed with start / length / *)
(* width / limit parameters incl. negative and fractional values and pad / *)
(* separator strings of length 0..2.  The inverse laws of the statement    *)
(* are checked on the specification for every enumerated string and are    *)
(* also evaluated by the real code as JSONata equalities.                  *)
(***************************************************************************)
EXTENDS MCBase

CONSTANTS MaxLen, ParamRange

CA == 97  COMMA == 44  SP == 32  EA == 233  EUR == 8364  GRIN == 128512  TAB == 9
Alpha == {CA, COMMA, SP, EA, EUR, GRIN}
SmallAlpha == {CA, COMMA, EA, GRIN}
Strs(A, n) == UNION {[1..k -> A] : k \in 0..n}
AllStrs == Strs(Alpha, MaxLen)
SmallStrs == Strs(SmallAlpha, MaxLen)
Seps == Strs({CA, COMMA, GRIN}, 2)
Pads == {<<>>, <<CA>>, <<CA, EA>>, <<GRIN, COMMA, CA>>, <<COMMA, CA>>, <<CA, CA>>, <<CA, COMMA>>}

Half(n) == Num(n, 2)
Params == {IntV(n) : n \in (0 - ParamRange)..ParamRange} \cup {Half(1), Half(0 - 1), Half(3), Half(0 - 3), Half(5)}
S == NVar("")
L(v) == IF v.t = "num" THEN NNum(v) ELSE NStr(v.s)
F(nm, args) == NCall(NVar(nm), args)
C(cs) == MkCase(cs, Undef)     \* placeholder, not used

StrCase(prog, s) == MkCase(prog, Str(s))

Init == /\ \/ \E s \in AllStrs, nm \in {"length", "uppercase", "lowercase", "trim", "base64encode", "encodeUrlComponent"} : case = StrCase(F(nm, <<S>>), s)
           \/ \E s \in SmallStrs, a \in Params : case = StrCase(F("substring", <<S, NNum(a)>>), s)
           \/ \E s \in SmallStrs, a \in Params, b \in Params : case = StrCase(F("substring", <<S, NNum(a), NNum(b)>>), s)
           \/ \E s \in SmallStrs, w \in Params, p \in Pads : case = StrCase(F("pad", <<S, NNum(w), NStr(p)>>), s)
           \/ \E s \in SmallStrs, w \in Params : case = StrCase(F("pad", <<S, NNum(w)>>), s)
           \/ \E s \in AllStrs, c \in Seps, nm \in {"substringBefore", "substringAfter", "contains"} : case = StrCase(F(nm, <<S, NStr(c)>>), s)
           \/ \E s \in AllStrs, c \in Seps : case = StrCase(F("split", <<S, NStr(c)>>), s)
           \/ \E s \in SmallStrs, c \in Seps, lim \in {IntV(0), IntV(1), IntV(2), IntV(5), IntV(0 - 1), Half(3)} : case = StrCase(F("split", <<S, NStr(c), NNum(lim)>>), s)
           \/ \E s \in SmallStrs, c \in Seps, r \in Pads : case = StrCase(F("replace", <<S, NStr(c), NStr(r)>>), s)
           \/ \E s \in SmallStrs, c \in Seps, lim \in {IntV(0), IntV(1), IntV(2), IntV(0 - 1)} : case = StrCase(F("replace", <<S, NStr(c), NStr(<<95>>), NNum(lim)>>), s)
           \* U+FFFD inside a longer string is an ordinary character of the URL codec (only the string that is just U+FFFD is refused)
           \/ \E s \in {<<65533>>, <<CA, 65533>>, <<65533, CA>>, <<65533, 65533>>, <<EA, 65533, SP>>} :
                  \/ case = StrCase(F("encodeUrlComponent", <<S>>), s)
                  \/ (s # <<65533>> /\ case = StrCase(NCmpOp("=", F("decodeUrlComponent", <<F("encodeUrlComponent", <<S>>)>>), S), s))
                  \/ case = StrCase(F("length", <<S>>), s) \/ case = StrCase(NCmpOp("=", F("base64decode", <<F("base64encode", <<S>>)>>), S), s)
           \* overlapping occurrences: replacement, split and search resume after the END of the previous match
           \/ \E n \in 0..5, pat \in {<<CA>>, <<CA, CA>>, <<CA, CA, CA>>, <<EA, EA>>}, rep \in {<<COMMA, CA>>, <<CA, CA>>, <<CA, COMMA>>, <<>>, <<CA>>, <<EA, EA>>, <<95, EA>>} :
                  \/ case = StrCase(F("replace", <<S, NStr(pat), NStr(rep)>>), [i \in 1..n |-> pat[1]])
                  \/ case = StrCase(F("replace", <<S, NStr(pat), NStr(rep), NNum(IntV(2))>>), [i \in 1..n |-> pat[1]])
                  \/ case = StrCase(F("split", <<S, NStr(pat)>>), [i \in 1..n |-> pat[1]])
                  \/ case = StrCase(F("substringAfter", <<S, NStr(pat)>>), [i \in 1..n |-> pat[1]])
           \* whitespace normalisation
           \/ \E s \in Strs({CA, SP, TAB, 10}, MaxLen + 1) : case = StrCase(F("trim", <<S>>), s)
           \* the inverse laws as JSONata equalities
           \/ \E s \in AllStrs, c \in Seps : c # <<>> /\ case = StrCase(NCmpOp("=", F("join", <<F("split", <<S, NStr(c)>>), NStr(c)>>), S), s)
           \/ \E s \in AllStrs, c \in Seps : case = StrCase(NCond(F("contains", <<S, NStr(c)>>),
                                                   NCmpOp("=", NConcat(NConcat(F("substringBefore", <<S, NStr(c)>>), NStr(c)), F("substringAfter", <<S, NStr(c)>>)), S), NBool(TRUE)), s)
           \/ \E s \in SmallStrs, w \in Params : w.d = 1 /\ case = StrCase(NCmpOp("=", F("length", <<F("pad", <<S, NNum(w)>>)>>),
                                                   F("max", <<NArray(<<F("abs", <<NNum(w)>>), F("length", <<S>>)>>)>>)), s)
           \/ \E s \in AllStrs : case = StrCase(NCmpOp("=", F("base64decode", <<F("base64encode", <<S>>)>>), S), s)
           \/ \E s \in AllStrs : case = StrCase(NCmpOp("=", F("decodeUrlComponent", <<F("encodeUrlComponent", <<S>>)>>), S), s)
           \* context defaulting: the string is the context item
           \/ \E s \in SmallStrs, nm \in {"length", "uppercase", "trim"} : case = MkCase(NPath(<<NName(ka), F(nm, <<>>)>>, FALSE), Obj(<< <<ka, Str(s)>> >>))
           \/ \E s \in SmallStrs, a \in Params : case = MkCase(NPath(<<NName(ka), F("substring", <<NNum(a)>>)>>, FALSE), Obj(<< <<ka, Str(s)>> >>))
        /\ out = Pending
Next == EvaluateCase
Spec == Init /\ [][Next]_mcvars

\* the laws hold in the specification
Laws == (out # Pending /\ case.ast.k \in {"CmpOp", "Cond"}) => out = [o |-> "val", r |-> Bool(TRUE)]
\* lengths are code-point counts
LengthIsCodePoints == (out # Pending /\ case.ast.k = "Call" /\ case.ast.fn.nm = "length" /\ case.inp.t = "str") => out = [o |-> "val", r |-> IntV(Len(case.inp.s))]
=============================================================================
