SPECIFICATION Spec
CONSTANTS
  MaxLen = 3
INVARIANTS Emit Laws DistinctShrinks
CHECK_DEADLOCK FALSE
