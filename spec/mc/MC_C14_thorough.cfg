SPECIFICATION Spec
CONSTANTS
  MaxItems = 4
  MaxMembersC = 3
INVARIANTS Emit Identities Partition
CHECK_DEADLOCK FALSE
