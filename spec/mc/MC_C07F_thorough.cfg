SPECIFICATION Spec
INVARIANTS Emit
CHECK_DEADLOCK FALSE
