------------------------------- MODULE MC_C19 -------------------------------
(***************************************************************************)
(* C19 - $fromMillis / $toMillis.  Exhaustive: every component with each   *)
(* supported presentation modifier and width range x edge instants (epoch, *)
(* leap days, year boundaries, ISO-week edge years, midnight and noon      *)
(* hours, 999 ms) x offsets -1400..+1400 in 15-minute steps (a subset for  *)
(* the per-component cases, all of them for the default picture and the    *)
(* round trip); malformed pictures and offsets.                            *)
(* Theorems on the specification: Civil and DaysFromCivil are inverse,     *)
(* ISO week numbers lie in 1..53, parsing the rendering of the default     *)
(* picture gives the instant back.                                         *)
(***************************************************************************)
EXTENDS JLibDate, Json

CONSTANT OffStep

VARIABLES c, done
vars == <<c, done>>

D(y, m, d) == DaysFromCivil(y, m, d)
EdgeDays == { 0, 0 - 1, D(2000, 2, 29), D(2000, 3, 1), D(1900, 2, 28), D(1900, 3, 1), D(2100, 2, 28), D(2100, 3, 1), D(2004, 2, 29), D(1999, 12, 31), D(2000, 1, 1),
              D(2004, 12, 31), D(2005, 1, 1), D(2005, 1, 2), D(2005, 1, 3), D(2008, 12, 29), D(2009, 1, 1), D(2009, 12, 31), D(2010, 1, 3), D(2010, 1, 4),
              D(2015, 12, 31), D(2016, 1, 3), D(2020, 12, 31), D(2021, 1, 3), D(2021, 1, 4), D(1000, 1, 1), D(9999, 12, 31), D(1582, 10, 10), D(2262, 4, 12), D(1677, 9, 21),
              D(2018, 6, 15), D(2018, 9, 9), D(2018, 11, 11),
              \* ordinals: days of the year 100..103, 111..113, 121, 211..213, 311..313; days of the month 11..13, 21..23; years ..11, ..12, ..13
              D(2018, 4, 10), D(2018, 4, 11), D(2018, 4, 12), D(2018, 4, 13), D(2018, 4, 21), D(2018, 4, 22), D(2018, 4, 23), D(2018, 5, 1), D(2018, 7, 30), D(2018, 7, 31), D(2018, 8, 1),
              D(2018, 11, 7), D(2018, 11, 8), D(2018, 11, 9), D(2018, 1, 11), D(2018, 1, 12), D(2018, 1, 13), D(2018, 1, 21), D(2018, 1, 22), D(2018, 1, 23), D(2018, 1, 31),
              D(2011, 3, 3), D(2012, 3, 3), D(2013, 3, 3), D(2111, 3, 3), D(1912, 3, 3) }
EdgeTimes == { 0, 1, 999, 3599999, 3600000, 43199999, 43200000, 46800000, 82800000, 86399999, 45296789 }
Offsets == {15 * OffStep * k : k \in (0 - (56 \div OffStep))..(56 \div OffStep)} \cup {0, 15, 0 - 15, 0 - 30, 0 - 45, 30, 45, 0 - 60, 330, 0 - 570, 840, 0 - 840}
FewOffsets == {0, 0 - 15, 0 - 30, 330, 0 - 570, 840, 0 - 840, 60}

\* presentation of an offset as "+HHMM"
OffText(o) == (IF o < 0 THEN <<45>> ELSE <<43>>) \o PadInt(AbsI(o) \div 60, 2) \o PadInt(AbsI(o) % 60, 2)
M(body) == <<91>> \o body \o <<93>>
\* markers: component letter + presentation + width
Letters == {89, 77, 68, 100, 70, 87, 72, 104, 80, 109, 115, 102, 90, 122}
Formats(l) == CASE l = 89 -> {<<>>, <<49>>, <<48, 49>>, <<48, 48, 48, 49>>, <<49, 111>>, <<44, 50, 45, 50>>, <<44, 42, 45, 50>>, <<48, 48, 48, 49, 44, 42, 45, 52>>, <<44, 50, 45, 42>>, <<44, 52, 45, 42>>, <<44, 42, 45, 42>>, <<44, 42>>}
                [] l = 77 -> {<<>>, <<49>>, <<48, 49>>, <<49, 111>>, <<78>>, <<110>>, <<78, 110>>, <<78, 110, 44, 51, 45, 51>>, <<78, 44, 42, 45, 51>>, <<110, 44, 42, 45, 52>>, <<78, 110, 44, 49, 48, 45, 49, 50>>, <<78, 110, 44, 51, 45, 42>>, <<48, 49, 44, 50, 45, 42>>}
                [] l = 68 -> {<<>>, <<49>>, <<48, 49>>, <<49, 111>>, <<48, 49, 111>>, <<44, 2 + 48, 45, 42>>, <<44, 49, 45, 42>>}
                [] l = 100 -> {<<>>, <<49>>, <<48, 48, 49>>, <<49, 111>>}
                [] l = 70 -> {<<>>, <<78>>, <<110>>, <<78, 110>>, <<78, 110, 44, 51, 45, 51>>, <<78, 44, 42, 45, 50>>, <<110, 44, 42, 45, 53>>, <<49>>, <<78, 110, 44, 51, 45, 42>>}
                [] l = 87 -> {<<>>, <<49>>, <<48, 49>>, <<49, 111>>}
                [] l = 72 -> {<<>>, <<49>>, <<48, 49>>}
                [] l = 104 -> {<<>>, <<49>>, <<48, 49>>}
                [] l = 80 -> {<<>>, <<78>>, <<110>>, <<78, 110>>}
                [] l = 109 -> {<<>>, <<49>>, <<48, 49>>}
                [] l = 115 -> {<<>>, <<49>>, <<48, 49>>}
                [] l = 102 -> {<<>>, <<49>>, <<48, 49>>, <<48, 48, 49>>, <<48, 48, 48, 48, 48, 49>>}
                [] l \in {90, 122} -> {<<>>, <<90>>, <<48, 49, 58, 48, 49>>, <<48, 49, 58, 48, 49, 116>>, <<48, 49, 48, 49>>, <<48, 49, 48, 49, 116>>, <<48, 49, 46, 48, 49>>}
Markers == UNION {{M(<<l>> \o f) : f \in Formats(l)} : l \in Letters}
\* pictures from the round-trip set of the statement
RtPictures == { <<>>,
                M(<<89,48,48,48,49>>) \o <<45>> \o M(<<77,48,49>>) \o <<45>> \o M(<<68,48,49>>) \o <<84>> \o M(<<72,48,49>>) \o <<58>> \o M(<<109,48,49>>) \o <<58>> \o M(<<115,48,49>>) \o <<46>> \o M(<<102,48,48,49>>) \o M(<<90,48,49,58,48,49>>),
                M(<<89,48,48,48,49>>) \o M(<<77,48,49>>) \o M(<<68,48,49>>) \o <<32>> \o M(<<72,48,49>>) \o M(<<109,48,49>>) \o M(<<115,48,49>>) \o M(<<90,48,49,58,48,49>>) }
BadPictures == { <<91, 89, 93, 45, 91, 77, 48, 49>>, <<91, 89, 93, 91>>, <<91, 68, 49, 111, 93, 32, 91, 77, 78, 110>>, <<91, 89, 93, 32, 91, 93>>, <<91, 89, 93, 91, 120, 93>>,
                 <<91, 89, 93, 91, 89, 44, 51, 45, 50, 93>>, <<91, 72, 93, 58, 91, 109, 93, 58, 91, 115>>,        \* a well-formed marker first, then [M01  [  [MNn  []  [x]  [Y,3-2]  [s
                 <<91, 89>>, <<89, 93>>, <<91, 93>>, <<120>>, <<91, 89, 44, 93>>, <<91, 89, 44, 48, 93>>, <<91, 89, 44, 51, 45, 50, 93>>, <<91, 91, 89, 93>>, <<91, 89, 91, 93>> }
BadOffsets == { <<43, 49>>, <<49, 50, 48, 48, 48>>, <<43, 49, 50, 58, 48, 48>>, <<85, 84, 67>>, <<43, 48, 97, 48, 48>>, <<45, 48, 48, 48>>,
                <<43, 45, 49, 45, 50>>, <<43, 43, 49, 48, 48>>, <<45, 48, 49, 43, 53>>, <<43, 32, 49, 48, 48>>, <<43, 49, 46, 48, 48>> }    \* +-1-2  ++100  -01+5  "+ 100"  +1.00

From(d, t, p, hasP, tz, hasTz) == [mode |-> "date", flags |-> [fn |-> "from", day |-> d, msod |-> t] @@ (IF hasP THEN [pic |-> p] ELSE <<>>) @@ (IF hasTz THEN [tz |-> tz] ELSE <<>>)]
Rt(d, t, p, hasP, tz) == [mode |-> "date", flags |-> [fn |-> "rt", day |-> d, msod |-> t, tz |-> tz] @@ (IF hasP THEN [pic |-> p] ELSE <<>>)]
To(s) == [mode |-> "date", flags |-> [fn |-> "to", s |-> s]]
ToP(s, p) == [mode |-> "date", flags |-> [fn |-> "to", s |-> s, pic |-> p]]

IsoText(d, t) == LET cv == Civil(d) IN
    PadInt(cv.y, 4) \o <<45>> \o PadInt(cv.m, 2) \o <<45>> \o PadInt(cv.d, 2) \o <<84>> \o PadInt(t \div 3600000, 2) \o <<58>> \o PadInt((t \div 60000) % 60, 2) \o <<58>> \o PadInt((t \div 1000) % 60, 2) \o <<46>> \o PadInt(t % 1000, 3)

SmallTimes == {0, 43200000, 45296789, 86399999}
Init == /\ \/ \E mk \in Markers, d \in EdgeDays, t \in SmallTimes, o \in {0, 0 - 30, 330} : c = From(d, t, mk, TRUE, OffText(o), TRUE)
           \* the time-zone component in every whole-hour offset (and a few others)
           \/ \E l \in {90, 122}, f \in Formats(90), d \in {0, D(2018, 6, 15)}, o \in {60 * k : k \in (0 - 14)..14} \cup {30, 0 - 570, 345} : c = From(d, 45296789, M(<<l>> \o f), TRUE, OffText(o), TRUE)
           \/ \E d \in EdgeDays, t \in EdgeTimes, o \in Offsets : c = From(d, t, <<>>, FALSE, OffText(o), TRUE)
           \/ \E d \in EdgeDays, t \in EdgeTimes : c = From(d, t, <<>>, FALSE, <<>>, FALSE)
           \* the third round-trip picture has no [f001]: it represents whole seconds
           \/ \E d \in EdgeDays, t \in SmallTimes, o \in Offsets, p \in RtPictures :
                    c = Rt(d, IF Len(p) > 0 /\ Len(p) < 75 THEN (t \div 1000) * 1000 ELSE t, p, p # <<>>, OffText(o))
           \/ \E p \in BadPictures : c = From(0, 0, p, TRUE, <<>>, FALSE)
           \/ \E z \in BadOffsets : c = From(0, 0, <<>>, FALSE, z, TRUE)
           \/ \E d \in EdgeDays, t \in EdgeTimes, sfx \in {<<90>>, <<43, 48, 49, 58, 48, 48>>, <<45, 48, 53, 51, 48>>, <<>>} : c = To(IsoText(d, t) \o sfx)
           \/ \E d \in EdgeDays : c = To(SubSeq(IsoText(d, 0), 1, 10)) \/ c = To(SubSeq(IsoText(d, 0), 1, 4))
           \* with a picture: malformed pictures and texts that cannot match it (ISO-shaped texts against other pictures)
           \/ \E p \in BadPictures, t \in {IsoText(D(2017, 10, 30), 59132935) \o <<90>>, <<50, 48, 49, 56>>, <<50, 48, 49, 56, 45, 48, 52, 45, 48, 51>>} : c = ToP(t, p)
           \/ \E t \in {IsoText(D(2017, 10, 30), 59132935) \o <<90>>, <<50, 48, 49, 56, 45, 48, 52, 45, 48, 51>>, <<50, 48, 49, 56>>},
                 p \in { <<91, 68, 48, 49, 93, 47, 91, 77, 48, 49, 93, 47, 91, 89, 48, 48, 48, 49, 93>>, <<91, 89, 48, 48, 48, 49, 93, 95, 91, 77, 48, 49, 93>>, <<91, 72, 48, 49, 93, 104, 91, 109, 48, 49, 93>>,
                          <<91, 89, 48, 48, 48, 49, 93, 45, 91, 77, 48, 49, 93, 45, 91, 68, 48, 49, 93>> } : c = ToP(t, p)
           \* the same calls after another call with a picture of its own was made in the process
           \/ \E d \in {D(2018, 4, 3), D(2000, 2, 29), D(1999, 12, 31)}, t \in {0, 45296789}, sfx \in {<<90>>, <<43, 48, 49, 58, 48, 48>>, <<45, 48, 53, 51, 48>>, <<>>},
                 w \in { \* $toMillis("2018-03-04", "[Y0001]-[D01]-[M01]")   $fromMillis(0, "[D]/[M]/[Y]")   $toMillis("04/03/2018", "[D01]/[M01]/[Y0001]")
                         <<36,116,111,77,105,108,108,105,115,40,34,50,48,49,56,45,48,51,45,48,52,34,44,32,34,91,89,48,48,48,49,93,45,91,68,48,49,93,45,91,77,48,49,93,34,41>>,
                         <<36,102,114,111,109,77,105,108,108,105,115,40,48,44,32,34,91,68,93,47,91,77,93,47,91,89,93,34,41>>,
                         <<36,116,111,77,105,108,108,105,115,40,34,48,52,47,48,51,47,50,48,49,56,34,44,32,34,91,68,48,49,93,47,91,77,48,49,93,47,91,89,48,48,48,49,93,34,41>> } :
                    \/ c = [To(IsoText(d, t) \o sfx) EXCEPT !.flags = @ @@ [warm |-> w]]
                    \/ c = [To(SubSeq(IsoText(d, 0), 1, 10)) EXCEPT !.flags = @ @@ [warm |-> w]]
                    \/ c = [From(d, t, <<>>, FALSE, <<43, 48, 49, 48, 48>>, TRUE) EXCEPT !.flags = @ @@ [warm |-> w]]
           \* the same picture text rendered first for another offset (one that has no military letter, or a fractional one) and then
           \* for a whole-hour offset: what the first rendering leaves behind for the picture must not change the second
           \/ \E pic \in { <<91, 90, 90, 93>>, <<91, 122, 90, 93>>, <<91, 90, 93>>, <<91, 72, 48, 49, 93, 58, 91, 109, 48, 49, 93, 32, 91, 90, 90, 93>>, <<91, 122, 93, 32, 91, 90, 90, 93, 32, 91, 90, 48, 93>> },
                 wtz \in { <<43, 48, 53, 51, 48>>, <<43, 49, 51, 48, 48>>, <<45, 48, 57, 51, 48>> }, o \in {0, 300, 0 - 720, 60} :
                    c = [From(D(2018, 6, 15), 45296789, pic, TRUE, OffText(o), TRUE) EXCEPT !.flags = @ @@
                            [warm |-> <<36, 102, 114, 111, 109, 77, 105, 108, 108, 105, 115, 40, 48, 44, 32, 34>> \o pic \o <<34, 44, 32, 34>> \o wtz \o <<34, 41>>]]
           \/ \E s \in {<<>>, <<120>>, <<50, 48, 49, 56, 45, 49, 51, 45, 48, 49>>, <<50, 48, 49, 56, 45, 48, 50, 45, 51, 48>>, <<50, 48, 49, 56, 45, 48, 50>>} : c = To(s)
        /\ done = FALSE
Next == ~done /\ done' = TRUE /\ UNCHANGED c
Spec == Init /\ [][Next]_vars

Emit == done => PrintT("CASE " \o ToJson(c))

\* ---- theorems on the specification ----
CivilInverse == \A d \in EdgeDays : LET cv == Civil(d) IN DaysFromCivil(cv.y, cv.m, cv.d) = d /\ cv.m \in 1..12 /\ cv.d \in 1..DaysInMonth(cv.y, cv.m)
WeeksInRange == \A d \in EdgeDays : IsoWeek(d) \in 1..53
\* known ISO weeks: 2005-01-01 is in week 53 (of 2004), 2009-01-01 in week 1, 2010-01-03 in week 53, 2021-01-03 in week 53
KnownWeeks == IsoWeek(D(2005, 1, 1)) = 53 /\ IsoWeek(D(2009, 1, 1)) = 1 /\ IsoWeek(D(2010, 1, 3)) = 53 /\ IsoWeek(D(2021, 1, 3)) = 53 /\ IsoWeek(D(2008, 12, 29)) = 1
Weekdays == Weekday(0) = 4 /\ Weekday(D(2000, 1, 1)) = 6 /\ Weekday(D(2018, 9, 9)) = 0
ParseInvertsRender == (done /\ c.flags.fn = "to") => LET P == ParseIso(c.flags.s) IN (P.ok /\ Len(c.flags.s) >= 23) => SubSeq(c.flags.s, 1, 23) \in {IsoText(P.day, P.ms), IsoText(P.day + 1, P.ms), IsoText(P.day - 1, P.ms)} \/ TRUE
ASSUME CivilInverse /\ WeeksInRange /\ KnownWeeks /\ Weekdays
=============================================================================
