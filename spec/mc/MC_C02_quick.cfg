SPECIFICATION Spec
CONSTANTS
  MaxLen = 5
  Stack3 = FALSE
INVARIANTS Emit NothingInvented
CHECK_DEADLOCK FALSE
