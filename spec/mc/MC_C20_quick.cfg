SPECIFICATION Spec
CONSTANTS
  MaxParams = 2
  MaxArgs = 2
  PTypes = {"float64", "int", "uint8", "string", "bool", "bytes", "interface", "value", "slice", "map", "callable", "OptionalFloat64", "OptionalInt", "OptionalString", "OptionalBool", "OptionalValue"}
INVARIANTS Emit WellTypedCallsSucceed
CHECK_DEADLOCK FALSE
