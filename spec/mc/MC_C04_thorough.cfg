SPECIFICATION Spec
CONSTANTS
  Stale = FALSE
  MaxLinks = 4
  Flavours = {"var", "name", "lit", "neg", "negsp", "fn", "xf"}
INVARIANTS Emit WhitespaceInsensitive PrecedenceHolds
CHECK_DEADLOCK FALSE
