SPECIFICATION Spec
CONSTANTS
  Stale = FALSE
  MaxLinks = 4
  Flavours = {"var", "name", "neg", "negsp"}
INVARIANTS Emit WhitespaceInsensitive PrecedenceHolds
CHECK_DEADLOCK FALSE
