------------------------------ MODULE MC_C11N ------------------------------
(***************************************************************************)
(* C11, number literals beyond the rational model: integers of 15 to 19    *)
(* digits around 2^53 and powers of ten, long fractions, exponents of both *)
(* signs and cases.  Each numeral is compiled and evaluated as a program;  *)
(* TraceNum requires the result to be a double nearest to the decimal the  *)
(* numeral spells (exact digit arithmetic on the result's and its          *)
(* neighbours' binary expansions).                                         *)
(***************************************************************************)
EXTENDS JNumFmt, Json

CONSTANT Depth

VARIABLES c, done
vars == <<c, done>>

D(ds) == [i \in 1..Len(ds) |-> 48 + ds[i]]
Nines(n) == [i \in 1..n |-> 57]
OneZeros(n) == <<49>> \o [i \in 1..n |-> 48]
Ints == { Nines(n) : n \in 15..19 } \cup { OneZeros(n) : n \in 15..22 } \cup { OneZeros(n - 1) \o <<49>> : n \in 15..19 }
        \cup { D(<<9, 0, 0, 7, 1, 9, 9, 2, 5, 4, 7, 4, 0, 9, 9, k>>) : k \in 0..9 }                          \* 2^53 - 2 .. 2^53 + 7
        \cup { D(<<1, 8, 0, 1, 4, 3, 9, 8, 5, 0, 9, 4, 8, 1, 9, 8, k>>) : k \in 0..9 }                       \* 2^54 +- : spacing 4
        \cup { D(<<1, 2, 3, 4, 5, 6, 7, 8, 9, 0, 1, 2, 3, 4, 5, 6, 7, 8>>), D(<<1, 2, 3, 4, 5, 6, 7, 8, 9, 0, 1, 2, 3, 4, 5, 6, 7>>),
             D(<<9, 2, 2, 3, 3, 7, 2, 0, 3, 6, 8, 5, 4, 7, 7, 5, 8, 0, 7>>), D(<<1, 8, 4, 4, 6, 7, 4, 4, 0, 7, 3, 7, 0, 9, 5, 5, 1, 6, 1, 5>>),
             D(<<7, 2, 0, 5, 7, 5, 9, 4, 0, 3, 7, 9, 2, 7, 9, 3, 5>>), D(<<4, 5, 0, 3, 5, 9, 9, 6, 2, 7, 3, 7, 0, 4, 9, 7>>) }
Fracs == { <<48, 46>> \o D(<<1, 2, 3, 4, 5, 6, 7, 8, 9, 0, 1, 2, 3, 4, 5, 6, 7, 8, 9>>), <<48, 46>> \o Nines(17), <<49, 46>> \o [i \in 1..16 |-> 48] \o <<49>>,
           <<48, 46, 49>>, <<48, 46, 51>>, <<50, 46, 53>>, <<49, 46, 48, 48, 53>>, <<48, 46, 48, 48, 48, 48, 48, 48, 49>>,
           D(<<9, 0, 0, 7, 1, 9, 9, 2, 5, 4, 7, 4, 0, 9, 9, 2>>) \o <<46, 53>>, D(<<4, 5, 0, 3, 5, 9, 9, 6, 2, 7, 3, 7, 0, 4, 9, 6>>) \o <<46, 50, 53>> }
Exps == { <<49, 101, 50, 49>>, <<49, 69, 43, 50, 50>>, <<49, 101, 50, 51>>, <<49, 46, 53, 101, 45, 55>>, <<49, 50, 51, 101, 45, 50>>, <<49, 101, 45, 55>>,
          <<53, 101, 45, 51, 50, 52>>, <<49, 101, 51, 48, 56>>, <<49, 101, 45, 51, 48, 48>>, <<50, 46, 53, 69, 48>>, <<48, 101, 53>>, <<49, 101, 48, 48, 50>>,
          <<57, 57, 57, 57, 57, 57, 57, 57, 57, 57, 57, 57, 57, 57, 57, 57, 57, 101, 45, 49, 55>> }
Numerals == Ints \cup Fracs \cup Exps \cup (IF Depth >= 2 THEN { i \o <<46>> \o D(<<k>>) : i \in Ints, k \in {0, 5} } \cup { i \o <<101>> \o D(<<k>>) : i \in Ints, k \in {0, 3} } ELSE {})

Lit(s) == [mode |-> "num", flags |-> [calls |-> <<[fn |-> "literal", s |-> s]>>]]
Init == (\E n \in Numerals : c = Lit(n)) /\ done = FALSE
Next == ~done /\ done' = TRUE /\ UNCHANGED c
Spec == Init /\ [][Next]_vars
Emit == done => PrintT("CASE " \o ToJson(c))
=============================================================================
