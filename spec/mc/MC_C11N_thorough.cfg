SPECIFICATION Spec
CONSTANTS
  Depth = 2
INVARIANTS Emit
CHECK_DEADLOCK FALSE
