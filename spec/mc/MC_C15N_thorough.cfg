SPECIFICATION Spec
CONSTANTS
  MaxLen = 3
INVARIANTS Emit
CHECK_DEADLOCK FALSE
