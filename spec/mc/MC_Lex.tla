------------------------------- MODULE MC_Lex -------------------------------
(* All byte strings of length <= MaxLen over a byte alphabet that contains    *)
(* every character class of the scanner, with 1-, 2-, 3-byte characters       *)
(* and a stray continuation byte.                                             *)
EXTENDS JLex
CONSTANTS MaxLen, Alphabet
Strings == UNION {[1..n -> Alphabet] : n \in 0..MaxLen}
LexInit == input \in Strings /\ lx = LInit /\ mode = "run" /\ ntok = 0
LexSpec == LexInit /\ [][LexStep]_lexvars /\ WF_lexvars(LexStep)
=============================================================================
