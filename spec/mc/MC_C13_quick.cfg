SPECIFICATION Spec
CONSTANTS
  MaxLen = 3
INVARIANTS Emit IsStableSortedPerm
CHECK_DEADLOCK FALSE
