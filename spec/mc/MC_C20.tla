------------------------------- MODULE MC_C20 -------------------------------
(***************************************************************************)
(* C20 - extensions: argument passing.  Exhaustive over parameter lists of *)
(* length 0..MaxParams drawn from the Go parameter kinds of the statement  *)
(* (float64, int, uint8, string, bool, []byte, interface{}, reflect.Value, *)
(* []interface{}, map[string]interface{}, jtypes.Callable, the Optional types), *)
(* with and without a variadic tail, x argument lists of length            *)
(* 0..MaxArgs over every JSONata value kind (incl. function and missing)   *)
(* x the two handlers x the result shapes (one result, two results, error, *)
(* jtypes.ErrUndefined).  Registry visibility histories are model-checked  *)
(* in MC_Api and validated by TraceApi.                                    *)
(***************************************************************************)
EXTENDS MCBase

CONSTANTS MaxParams, MaxArgs, PTypes

V(nm) == NVar(nm)
ArgNodes == << NNum(IntV(2)), NNum(Num(3, 2)), NStr(kx), NBool(TRUE), NArray(<<NNum(IntV(1))>>), NObject(<< <<NStr(ka), NNum(IntV(1))>> >>),
               V("sum"), NPath(<<NName(<<110, 111>>)>>, FALSE), NNum(IntV(300)) >>
ArgLists == UNION {[1..n -> 1..Len(ArgNodes)] : n \in 0..MaxArgs}
ParamLists == UNION {[1..n -> PTypes] : n \in 0..MaxParams}
IsOpt(p) == p \in {"OptionalFloat64", "OptionalInt", "OptionalString", "OptionalBool", "OptionalValue"}
\* registration-time rules (E4): optionals trail, the variadic tail is not optional
ValidParams(ps, variadic) == /\ \A i \in 1..Len(ps) : IsOpt(ps[i]) => \A j \in i..Len(ps) : IsOpt(ps[j])
                             /\ (variadic => (ps # <<>> /\ ~IsOpt(ps[Len(ps)])))
Ext(ps, variadic, uh, ch, res) == [t |-> "fn", k |-> "ext", ps |-> ps, variadic |-> variadic, uh |-> uh, ch |-> ch, res |-> res]
CallF(al) == NPath(<<NName(kc), NCall(V("f"), [i \in 1..Len(al) |-> ArgNodes[al[i]]])>>, FALSE)
Doc == Obj(<< <<kc, Str(<<99, 116, 120>>)>> >>)

\* E3: the name carried by an argument error.  First a call that reaches $f under another name (an alias, a lambda
\* parameter) and succeeds, then a failing call that reaches it directly, through a higher-order built-in, a chain, a
\* partial application or a block: the error names f.
NameProgs ==
    LET f == V("f")   g == V("g")   bad == NNum(IntV(1))   good == NStr(kx)
        fails == << NCall(V("map"), <<NArray(<<bad>>), f>>), NApply(bad, f), NCall(NPartial(f, <<NPlace>>), <<bad>>), NCall(f, <<bad>>),
                    NCall(f, <<good, good>>), NCall(V("filter"), <<NArray(<<bad, bad>>), f>>), NCall(NBlock(<<f>>), <<bad>>),
                    NCall(V("single"), <<NArray(<<bad>>), f>>), NCall(f, <<>>), NApply(NArray(<<bad>>), NCall(V("map"), <<f>>)) >>
        pres == << <<>>, <<NAssign("g", f), NCall(g, <<good>>)>>, <<NCall(NLambda(<<"h">>, NCall(V("h"), <<good>>)), <<f>>)>>,
                   <<NAssign("g", f), NCall(V("map"), <<NArray(<<good>>), g>>), NCall(g, <<good>>)>> >>
    IN  {NBlock(pres[i] \o <<fails[j]>>) : i \in 1..Len(pres), j \in 1..Len(fails)}

Init == /\ \/ \E prog \in NameProgs, ps \in {<<"string">>, <<"bytes">>, <<"string", "OptionalString">>} :
                 case = MkCaseB(prog, Doc, << <<"f", Ext(ps, FALSE, "none", "none", "echo")>> >>)
           \/ \E ps \in ParamLists, variadic \in BOOLEAN, al \in ArgLists :
                 ValidParams(ps, variadic) /\ case = MkCaseB(CallF(al), Doc, << <<"f", Ext(ps, variadic, "none", "none", "echo")>> >>)
           \* the handlers and the result shapes, over one- and two-parameter signatures
           \/ \E ps \in {<<"string">>, <<"interface">>, <<"float64", "OptionalString">>, <<"string", "float64">>, <<"value", "interface">>}, variadic \in BOOLEAN,
                 uh \in {"none", "undef0"}, ch \in {"none", "count0", "count1"}, res \in {"echo", "two", "err", "undef"}, al \in ArgLists :
                 Len(al) <= 2 /\ ValidParams(ps, variadic) /\ case = MkCaseB(CallF(al), Doc, << <<"f", Ext(ps, variadic, uh, ch, res)>> >>)
        /\ out = Pending
Next == EvaluateCase
Spec == Init /\ [][Next]_mcvars

\* theorem: a call with exactly one well-typed argument per parameter is never an argument error
WellTypedCallsSucceed ==
    (out # Pending /\ case.ast.k = "Path" /\ case.binds[1][2].res = "echo" /\ ~case.binds[1][2].variadic /\ case.binds[1][2].ch = "none" /\ case.binds[1][2].uh = "none"
     /\ Len(case.ast.steps[2].args) = Len(case.binds[1][2].ps) /\ case.binds[1][2].ps # <<>>
     /\ \A i \in 1..Len(case.binds[1][2].ps) : case.binds[1][2].ps[i] = "interface") => out.o = "val"
=============================================================================
