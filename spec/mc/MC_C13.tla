------------------------------- MODULE MC_C13 -------------------------------
(***************************************************************************)
(* C13 - order-by and $sort.  Exhaustive for arrays of length 0..MaxLen    *)
(* over a 3-value key domain per sort member (two values and "absent",     *)
(* i.e. many ties and missing keys), every sort specification of 1..2      *)
(* terms with every direction combination, keys as members, computed       *)
(* expressions or $; comparators from strict weak orders; the error clause *)
(* (booleans, arrays, mixed number/string keys).                           *)
(* Theorem checked on every evaluated case: the functional sort is a       *)
(* stable, correctly ordered permutation (relational restatement of C13).  *)
(***************************************************************************)
EXTENDS MCBase

CONSTANT MaxLen

kk == <<107>>  ks == <<115>>  kid == <<105, 100>>
PA(s) == NPath(s, FALSE)
K == PA(<<NName(kk)>>)   S == PA(<<NName(ks)>>)   ID == PA(<<NName(kid)>>)

\* element i of an array: identity member plus optional k (number) and s (string)
KVals == {Undef, IntV(0), IntV(1)}
SVals == {Undef, Str(kx), Str(<<121>>)}
El(i, kv, sv) == Obj(ObjFromPairs(<< <<kid, IntV(i)>> >> \o (IF IsUndef(kv) THEN <<>> ELSE << <<kk, kv>> >>) \o (IF IsUndef(sv) THEN <<>> ELSE << <<ks, sv>> >>)))
Variants == KVals \X SVals
Arrays(n) == {Arr([i \in 1..n |-> El(i, f[i][1], f[i][2])]) : f \in [1..n -> Variants]}
AllArrays == UNION {Arrays(n) : n \in 0..MaxLen}

Term(dir, e) == [dir |-> dir, e |-> e]
Dirs == {"", "<", ">"}
KeyExprs == {K, S, NNumOp("-", NNum(IntV(0)), K), NCall(NVar("string"), <<K>>)}
TermLists == {<<Term(d, e)>> : d \in Dirs, e \in KeyExprs}
             \cup {<<Term(d1, K), Term(d2, S)>> : d1 \in Dirs, d2 \in Dirs}
             \cup {<<Term(d1, S), Term(d2, K)>> : d1 \in {"", ">"}, d2 \in {"<", ">"}}

\* programs over the array as context
SortProgs == {NSort(NVar(""), ts) : ts \in TermLists}
             \cup {PA(<<NSort(NVar(""), ts), NName(kid)>>) : ts \in {<<Term(">", K)>>, <<Term("", S), Term(">", K)>>}}
             \* a sort of a sort: the outer terms decide, the inner order only breaks their ties (stability)
             \cup {NSort(NSort(NVar(""), <<Term(d1, e1)>>), <<Term(d2, e2)>>) : d1 \in {"", ">"}, d2 \in {"", ">"}, e1 \in {K, S}, e2 \in {K, S}}
             \cup {PA(<<NSort(NSort(NVar(""), <<Term("", K)>>), <<Term(">", S)>>), NName(kid)>>), NSort(NBlock(<<NSort(NVar(""), <<Term(">", S)>>)>>), <<Term("", K)>>),
                   NCall(NVar("sort"), <<NSort(NVar(""), <<Term(">", K)>>), NLambda(<<"l", "r">>, NCmpOp(">", PA(<<NVar("l"), NName(ks)>>), PA(<<NVar("r"), NName(ks)>>)))>>),
                   NSort(NCall(NVar("reverse"), <<NVar("")>>), <<Term("", K)>>), NSort(NPred(NVar(""), <<NCmpOp(">=", K, NNum(IntV(0)))>>), <<Term(">", S), Term("", K)>>)}
\* $sort with comparators derived from strict weak orders on one or two members
Cmp(body) == NLambda(<<"l", "r">>, body)
LK == PA(<<NVar("l"), NName(kk)>>)  RK == PA(<<NVar("r"), NName(kk)>>)
LS == PA(<<NVar("l"), NName(ks)>>)  RS == PA(<<NVar("r"), NName(ks)>>)
FnSortProgs == { NCall(NVar("sort"), <<NVar(""), Cmp(NCmpOp(">", LK, RK))>>),
                 NCall(NVar("sort"), <<NVar(""), Cmp(NCmpOp("<", LK, RK))>>),
                 NCall(NVar("sort"), <<NVar(""), Cmp(NBoolOp("or", NCmpOp(">", LS, RS), NBoolOp("and", NCmpOp("=", LS, RS), NCmpOp(">", LK, RK))))>>),
                 NCall(NVar("sort"), <<PA(<<NName(kk)>>)>>), NCall(NVar("sort"), <<PA(<<NName(ks)>>)>>),
                 NCall(NVar("sort"), <<NArray(<<PA(<<NName(kk)>>), PA(<<NName(ks)>>)>>)>>) }

\* the error clause: keys of another type, mixed number/string within one key
BadEls == {Obj(<< <<kk, Bool(TRUE)>> >>), Obj(<< <<kk, Arr(<<IntV(1)>>)>> >>), Obj(<< <<kk, Str(kx)>> >>), Obj(<< <<kk, IntV(3)>> >>),
           Obj(<< <<kk, Obj(<<>>)>> >>), Obj(<<>>)}
BadArrays == {Arr(<<x, y>>) : x \in BadEls, y \in BadEls} \cup {Arr(<<x, y, z>>) : x \in BadEls, y \in BadEls, z \in {Obj(<< <<kk, IntV(1)>> >>), Obj(<< <<kk, Str(ka)>> >>)}}
PlainArrays == {Arr(<<x, y, z>>) : x \in {IntV(2), Str(kb), Bool(TRUE)}, y \in {IntV(1), Str(ka), Arr(<<IntV(1)>>)}, z \in {IntV(2), Str(kb)}}

\* strings by code point: prefixes, the empty string, upper before lower case, non-ASCII last
StrMembers == {Str(<<>>), Str(<<97>>), Str(<<97, 98>>), Str(<<98>>), Str(<<66>>), Str(<<233>>), Str(<<97, 97>>)}
StringArrays == {Arr(<<x, y, z>>) : x \in StrMembers, y \in StrMembers, z \in StrMembers} \cup {Arr(<<x, y>>) : x \in StrMembers, y \in StrMembers}
Init == /\ \/ \E p \in SortProgs \cup FnSortProgs, a \in AllArrays : case = MkCase(p, a)
           \/ \E p \in {NSort(NVar(""), <<Term("", K)>>), NSort(NVar(""), <<Term(">", K), Term("", S)>>)}, a \in BadArrays : case = MkCase(p, a)
           \/ \E a \in PlainArrays, p \in {NCall(NVar("sort"), <<NVar("")>>), NSort(NVar(""), <<Term("", NVar(""))>>), NSort(NVar(""), <<Term(">", NVar(""))>>)} : case = MkCase(p, a)
           \/ \E a \in StringArrays, p \in {NCall(NVar("sort"), <<NVar("")>>), NSort(NVar(""), <<Term("", NVar(""))>>), NSort(NVar(""), <<Term(">", NVar(""))>>),
                                            NCall(NVar("sort"), <<NVar(""), NLambda(<<"l", "r">>, NCmpOp(">", NVar("l"), NVar("r")))>>)} : case = MkCase(p, a)
        /\ out = Pending
Next == EvaluateCase
Spec == Init /\ [][Next]_mcvars

\* ---- the relational restatement, checked on the specification's own result ----
IdOf(x) == ObjGet(x, kid).n
KeyOf(x, e) == IF e = K THEN ObjGet(x, kk) ELSE IF e = S THEN ObjGet(x, ks) ELSE Undef
\* applies to order-by programs whose terms are the plain members k and/or s
PlainTerms(ts) == \A j \in 1..Len(ts) : ts[j].e \in {K, S}
Before(ts, x, y) ==   \* x strictly before y under the term list
    LET diff == {j \in 1..Len(ts) : KeyOf(x, ts[j].e) # KeyOf(y, ts[j].e)}
    IN  IF diff = {} THEN FALSE
        ELSE LET j == CHOOSE j \in diff : \A k \in diff : j <= k
                 a == KeyOf(x, ts[j].e)   b == KeyOf(y, ts[j].e)
             IN  IF IsUndef(a) THEN FALSE ELSE IF IsUndef(b) THEN TRUE
                 ELSE IF ts[j].dir = ">" THEN ValLt(b, a) ELSE ValLt(a, b)
IsStableSortedPerm ==
    (out # Pending /\ case.ast.k = "Sort" /\ case.ast.e = NVar("") /\ PlainTerms(case.ast.terms) /\ case.inp.v # <<>> /\ out.o = "val"
     /\ \A i \in 1..Len(case.inp.v) : IsObj(case.inp.v[i]) /\ ObjHas(case.inp.v[i], kid)) =>
        LET res == IF out.r.t = "arr" THEN out.r.v ELSE <<out.r>>
            inp == case.inp.v
        IN  /\ Len(res) = Len(inp)
            /\ \A x \in 1..Len(inp) : \E y \in 1..Len(res) : res[y] = inp[x]              \* permutation (ids are unique)
            /\ \A i \in 1..Len(res) - 1 :
                   /\ ~Before(case.ast.terms, res[i + 1], res[i])                         \* ordered
                   /\ (~Before(case.ast.terms, res[i], res[i + 1]) => IdOf(res[i]) < IdOf(res[i + 1]))   \* ties keep input order
=============================================================================
