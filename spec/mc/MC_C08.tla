------------------------------- MODULE MC_C08 -------------------------------
(***************************************************************************)
(* C08 - Compile is total.  Case spaces:                                   *)
(*  (i)  every byte string of length <= MaxLen over a byte alphabet that   *)
(*       covers every character class of the scanner (multi-byte and       *)
(*       invalid UTF-8 included) - the same strings MC_Lex model-checks;   *)
(*  (ii) the EDIT MACHINE: state = the bytes of a program; it starts from  *)
(*       valid seed programs and each step applies one edit - delete,      *)
(*       insert, replace, duplicate a byte, or truncate - up to MaxEdits   *)
(*       steps, with an alphabet biased to escapes, number, regex, name    *)
(*       and signature syntax.                                             *)
(* Every reachable state is emitted and compiled by the real code.         *)
(***************************************************************************)
EXTENDS Integers, Sequences, FiniteSets, TLC, Json, C08Seeds

CONSTANTS MaxLen, Alphabet, MaxEdits, EditAlphabet, HotAlphabet

VARIABLES bs, depth
vars == <<bs, depth>>

Strings == UNION {[1..n -> Alphabet] : n \in 0..MaxLen}

DeleteAt(s, i) == SubSeq(s, 1, i - 1) \o SubSeq(s, i + 1, Len(s))
InsertAt(s, i, c) == SubSeq(s, 1, i) \o <<c>> \o SubSeq(s, i + 1, Len(s))        \* after position i (0..Len)
ReplaceAt(s, i, c) == [s EXCEPT ![i] = c]
DupAt(s, i) == SubSeq(s, 1, i) \o <<s[i]>> \o SubSeq(s, i + 1, Len(s))
Truncate(s, i) == SubSeq(s, 1, i)

Edits(s, A) == {DeleteAt(s, i) : i \in 1..Len(s)}
               \cup {InsertAt(s, i, c) : i \in 0..Len(s), c \in A}
               \cup {ReplaceAt(s, i, c) : i \in 1..Len(s), c \in A}
               \cup {DupAt(s, i) : i \in 1..Len(s)}
               \cup {Truncate(s, i) : i \in 0..Len(s) - 1}

Init == /\ bs \in Strings \cup Seeds
        /\ depth = IF bs \in Seeds THEN 0 ELSE MaxEdits          \* enumerated strings are not edited further
Next == /\ depth < MaxEdits
        /\ bs' \in Edits(bs, IF depth = 0 THEN EditAlphabet ELSE HotAlphabet)
        /\ depth' = depth + 1
Spec == Init /\ [][Next]_vars

Emit == PrintT("CASE " \o ToJson([bytes |-> bs, mode |-> "compile"]))
View == bs
=============================================================================
