SPECIFICATION Spec
CONSTANTS
  Depth2 = FALSE
INVARIANTS Emit Total CmpIsBoolean CmpNeverUndef
CHECK_DEADLOCK FALSE
