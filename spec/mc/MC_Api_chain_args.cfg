SPECIFICATION ApiSpec
CONSTANTS
  ExprIds = {1, 2}
  DocIds = {1}
  Programs <- MCPrograms
  Docs <- MCDocs
  RegNames = {"x", "y"}
  RegVals <- MCRegVals
  Dev = {"chain_args"}
  MaxHist = 3
  MaxOps = 4
INVARIANTS Repeatable Visibility CompiledTreeIsEvaluated
PROPERTIES AstReadOnly InputsUntouched
CHECK_DEADLOCK FALSE
