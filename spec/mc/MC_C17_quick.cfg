SPECIFICATION Spec
CONSTANTS
  MaxT = 4
INVARIANTS Emit TemplateLaws NoDollarIsVerbatim
CHECK_DEADLOCK FALSE
