SPECIFICATION Spec
CONSTANTS
  MaxParams = 1
  MaxArgs = 2
INVARIANTS Emit ChainIsCall
CHECK_DEADLOCK FALSE
