SPECIFICATION LexSpec
CONSTANTS
  Stale = TRUE
  MaxLen = 3
  Alphabet = {33, 126, 46, 49, 48, 101, 97, 32, 34, 92, 47, 36, 96, 60, 61, 42, 195, 169, 228, 91}

PROPERTIES Termination
CHECK_DEADLOCK FALSE
