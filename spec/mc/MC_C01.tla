------------------------------- MODULE MC_C01 -------------------------------
(***************************************************************************)
(* C01 - paths.  Bounded-exhaustive case space: every path of 1..MaxSteps  *)
(* steps over the step kinds below, with and without the keep-array        *)
(* marker, over every null-free document of bounded depth and width.       *)
(***************************************************************************)
EXTENDS MCBase

CONSTANTS MaxSteps, DocDepth, StepSet

Leaves == {IntV(1), Str(kx)}
ArrsOf(S) == {Arr(<<>>)} \cup {Arr(<<x>>) : x \in S} \cup {Arr(<<x, y>>) : x \in S, y \in S}
ObjsOf(S) == {Obj(<<>>)} \cup {Obj(<< <<ka, x>> >>) : x \in S} \cup {Obj(<< <<kb, x>> >>) : x \in S}
             \cup {Obj(<< <<ka, x>>, <<kb, y>> >>) : x \in S, y \in S}
RECURSIVE ValsOf(_)
ValsOf(d) == IF d = 0 THEN Leaves ELSE LET S == ValsOf(d - 1) IN S \cup ArrsOf(S) \cup ObjsOf(S)
\* deeper, narrow documents: single-child wrappers around the bounded ones, so that arrays sit
\* directly inside arrays at every step position
Wrap1(S) == {Arr(<<x>>) : x \in S} \cup {Obj(<< <<ka, x>> >>) : x \in S}
Docs == LET S == ValsOf(DocDepth) IN S \cup Wrap1(S) \cup Wrap1(Wrap1(S))

StepOf(nm) ==
    CASE nm = "a" -> NName(ka)
      [] nm = "b" -> NName(kb)
      [] nm = "`a`" -> NEsc(ka)
      [] nm = "$" -> NVar("")
      [] nm = "$$" -> NVar("$")
      [] nm = "$v" -> NVar("v")
      [] nm = "*" -> NWild
      [] nm = "**" -> NDesc
      [] nm = "(a.b)" -> NBlock(<<NPath(<<NName(ka), NName(kb)>>, FALSE)>>)
      [] nm = "(a)" -> NBlock(<<NPath(<<NName(ka)>>, FALSE)>>)
      \* a keep-array marker inside parentheses belongs to the inner path only
      [] nm = "(a.b[])" -> NBlock(<<NPath(<<NName(ka), NName(kb)>>, TRUE)>>)
      [] nm = "(a[])" -> NBlock(<<NPath(<<NName(ka)>>, TRUE)>>)
      [] nm = "[a]" -> NArray(<<NPath(<<NName(ka)>>, FALSE)>>)
      [] nm = "[$]" -> NArray(<<NVar("")>>)
      [] nm = "{k:a}" -> NObject(<< <<NStr(kx), NPath(<<NName(ka)>>, FALSE)>> >>)
      [] nm = "$string(a)" -> NCall(NVar("string"), <<NPath(<<NName(ka)>>, FALSE)>>)
      [] nm = "$count($)" -> NCall(NVar("count"), <<NVar("")>>)

StepSeqs == UNION {[1..n -> StepSet] : n \in 1..MaxSteps}
UsesStar(sq) == \E i \in 1..Len(sq) : sq[i] \in {"*", "**"}
\* a variable step other than in first position is legal and is covered
Progs == {NPath([i \in 1..Len(sq) |-> StepOf(sq[i])], kp) : sq \in StepSeqs, kp \in BOOLEAN}

Init == /\ \E sq \in StepSeqs, kp \in BOOLEAN, d \in Docs :
              /\ (UsesStar(sq) => MaxMembers(d) <= 1)
              \* a path of one step exists in the port only for a name, or when [] is attached
              /\ (Len(sq) > 1 \/ kp \/ sq[1] \in {"a", "b", "`a`"})
              /\ case = MkCaseB(NPath([i \in 1..Len(sq) |-> StepOf(sq[i])], kp), d,
                                IF \E i \in 1..Len(sq) : sq[i] = "$v" THEN << <<"v", d>> >> ELSE <<>>)
        /\ out = Pending
Next == EvaluateCase
Spec == Init /\ [][Next]_mcvars

\* theorems about the specification's own path semantics, checked on every evaluated case
RECURSIVE NoSeqInside(_)
NoSeqInside(x) == x.t \in {"null", "bool", "num", "str", "arr", "obj", "fn", "numx"} /\
                  CASE x.t = "arr" -> \A i \in 1..Len(x.v) : NoSeqInside(x.v[i])
                    [] x.t = "obj" -> \A i \in 1..Len(x.m) : NoSeqInside(x.m[i][2])
                    [] OTHER -> TRUE
PathResultIsJson == out.o = "val" => NoSeqInside(out.r)
\* without [] a path never yields a one-element array *produced by normalisation*: if the result
\* is a one-element array, that array is a value that occurs in the document or was constructed
EmptyIsNoValue == out.o = "val" => ~(out.r.t = "arr" /\ out.r.v = <<>>)
=============================================================================
