SPECIFICATION Spec
CONSTANTS
  MaxChars = 4
INVARIANTS Emit RoundTrip HalfEven
CHECK_DEADLOCK FALSE
