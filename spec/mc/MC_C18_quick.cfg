SPECIFICATION Spec
CONSTANTS
  MaxChars = 4
INVARIANTS Emit RoundTrip
CHECK_DEADLOCK FALSE
