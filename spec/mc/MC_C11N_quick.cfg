SPECIFICATION Spec
CONSTANTS
  Depth = 1
INVARIANTS Emit
CHECK_DEADLOCK FALSE
