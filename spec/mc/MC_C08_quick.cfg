SPECIFICATION Spec
CONSTANTS
  MaxLen = 3
  Alphabet = {33, 126, 46, 49, 48, 101, 97, 32, 34, 92, 47, 36, 96, 60, 61, 42, 195, 169, 228, 91}
  MaxEdits = 1
  EditAlphabet = {34, 39, 92, 117, 100, 56, 48, 49, 46, 101, 45, 47, 96, 60, 62, 40, 41, 91, 93, 123, 125, 33, 126, 36, 63, 58, 44, 124, 32, 97, 195, 169, 10}
  HotAlphabet = {92, 34, 47, 60, 33}
INVARIANT Emit
VIEW View
CHECK_DEADLOCK FALSE
