------------------------------ MODULE MC_C03N ------------------------------
(***************************************************************************)
(* C03 on numbers of large and tiny magnitude: + - * / % & and the         *)
(* comparisons on pairs of doubles from 5e-324 to 1.8e308 (powers of two   *)
(* around 2^53 and 2^63, powers of ten, fractions, the extremes and their  *)
(* neighbouring doubles), supplied as input members.  The exact-rational   *)
(* model JV stops at 10^9; here the operands are decimal digit sequences   *)
(* (JNumFmt) and the recorded results are validated by TraceNum against    *)
(* exact decimal arithmetic.                                               *)
(***************************************************************************)
EXTENDS JNumFmt, Json

CONSTANT Depth

VARIABLES c, done
vars == <<c, done>>

X(sg, ds, e) == [sg |-> sg, ds |-> ds, e |-> e]
Core == { X(1, <<0>>, 0), X(1, <<1>>, 0), X(0 - 1, <<1>>, 0), X(1, <<7>>, 0), X(1, <<1>>, 1), X(0 - 1, <<3>>, 0), X(1, <<5>>, 0 - 1), X(0 - 1, <<2, 5>>, 0 - 1), X(1, <<1>>, 0 - 1),
          X(1, <<1>>, 19), X(1, <<1>>, 20), X(0 - 1, <<1>>, 20), X(1, <<9, 2, 2, 3, 3, 7, 2, 0, 3, 6, 8, 5, 4, 7, 7, 5, 8, 0, 8>>, 0), X(1, <<9, 0, 0, 7, 1, 9, 9, 2, 5, 4, 7, 4, 0, 9, 9, 2>>, 0),
          X(1, <<1>>, 300), X(1, <<1, 7, 9, 7, 6, 9, 3, 1, 3, 4, 8, 6, 2, 3, 1, 5, 7>>, 292), X(1, <<1>>, 0 - 300), X(1, <<1>>, 10) }
More == { X(1, <<1>>, 22), X(1, <<1>>, 23), X(1, <<1>>, 308), X(1, <<5>>, 0 - 324), X(1, <<1>>, 0 - 7), X(1, <<1, 2, 3, 4, 5, 6, 7, 8, 9, 0, 1, 2, 3, 4, 5, 6, 8>>, 4), X(0 - 1, <<1>>, 19),
          X(1, <<9, 0, 0, 7, 1, 9, 9, 2, 5, 4, 7, 4, 0, 9, 9, 4>>, 0), X(1, <<4, 5, 0, 3, 5, 9, 9, 6, 2, 7, 3, 7, 0, 4, 9, 6, 5>>, 0 - 1), X(1, <<1, 8, 4, 4, 6, 7, 4, 4, 0, 7, 3, 7, 0, 9, 5, 5, 1, 6, 1, 6>>, 0),
          X(1, <<3>>, 0), X(1, <<1, 0, 0, 0, 0, 0, 0, 0, 0, 0, 0, 0, 0, 0, 0, 1>>, 0), X(1, <<3, 3, 3, 3, 3, 3, 3, 3, 3, 3, 3, 3, 3, 3, 3, 3>>, 0 - 16), X(0 - 1, <<1>>, 300), X(1, <<2>>, 0 - 308), X(1, <<6>>, 0) }
Operands == IF Depth >= 2 THEN Core \cup More ELSE Core
Ops == {"+", "-", "*", "/", "%", "<", "<=", ">", ">=", "=", "!=", "&", ".."}

Op(op, x, y, nx, ny) == [mode |-> "num", flags |-> [calls |-> <<[fn |-> "op", op |-> op, xd |-> x, yd |-> y] @@ (IF nx = 0 THEN <<>> ELSE [nudge |-> nx]) @@ (IF ny = 0 THEN <<>> ELSE [ynudge |-> ny])>>]]

Init == /\ \/ \E op \in Ops, x \in Operands, y \in Operands : c = Op(op, x, y, 0, 0)
           \/ \E op \in Ops, x \in Core, y \in Core, nx \in {0 - 1, 1} : x.ds # <<0>> /\ c = Op(op, x, y, nx, 0)
           \/ \E op \in Ops, x \in Core, ny \in {0 - 1, 1} : x.ds # <<0>> /\ c = Op(op, x, x, 0, ny)
        /\ done = FALSE
Next == ~done /\ done' = TRUE /\ UNCHANGED c
Spec == Init /\ [][Next]_vars
Emit == done => PrintT("CASE " \o ToJson(c))

\* ---- theorems on the arithmetic of the specification ----
I(n) == Dec(IF n < 0 THEN 0 - 1 ELSE 1, NatDigits(IF n < 0 THEN 0 - n ELSE n), 0)
RECURSIVE DigitsInt(_, _)
DigitsInt(ds, acc) == IF ds = <<>> THEN acc ELSE DigitsInt(Tail(ds), acc * 10 + Head(ds))
Val(x) == DecSign(x) * DigitsInt(Shl(x.ds, x.e), 0)          \* for integers (x.e >= 0)
Small == {0 - 1000, 0 - 99, 0 - 7, 0 - 1, 0, 1, 7, 10, 99, 101, 12345}
Trunc(a, b) == LET q == (IF a < 0 THEN 0 - a ELSE a) \div (IF b < 0 THEN 0 - b ELSE b) IN IF (a < 0) = (b < 0) THEN q ELSE 0 - q
ArithAgrees == \A a, b \in Small :
                 /\ Val(DecAdd(I(a), I(b))) = a + b
                 /\ Val(DecSub(I(a), I(b))) = a - b
                 /\ Val(DecMul(I(a), I(b))) = a * b
                 /\ DecLt(I(a), I(b)) = (a < b)
                 /\ DecSame(I(a), I(b)) = (a = b)
                 /\ (b # 0 => Val(DecRem(I(a), I(b))) = a - b * Trunc(a, b))
\* 1e20 % 7 = 2,  2^63 % 10 = 8,  -1e20 % 7 = -2,  7.5 % 2 = 1.5
KnownRemainders == /\ DecSame(DecRem(Dec(1, <<1>>, 20), I(7)), I(2))
                   /\ DecSame(DecRem(Dec(1, <<9, 2, 2, 3, 3, 7, 2, 0, 3, 6, 8, 5, 4, 7, 7, 5, 8, 0, 8>>, 0), I(10)), I(8))
                   /\ DecSame(DecRem(Dec(0 - 1, <<1>>, 20), I(7)), I(0 - 2))
                   /\ DecSame(DecRem(Dec(1, <<7, 5>>, 0 - 1), I(2)), Dec(1, <<1, 5>>, 0 - 1))
ASSUME ArithAgrees /\ KnownRemainders
=============================================================================
