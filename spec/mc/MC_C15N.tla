------------------------------ MODULE MC_C15N ------------------------------
(***************************************************************************)
(* C15, aggregates on numbers beyond the rational model: $sum $max $min    *)
(* $average $count over arrays of 0..3 doubles drawn from powers of two    *)
(* around 2^53 and 2^63, powers of ten up to 1e308, fractions and          *)
(* negatives, supplied as the input.  Validated by TraceNum against exact  *)
(* decimal arithmetic (AggVerdict).                                        *)
(***************************************************************************)
EXTENDS JNumFmt, Json

CONSTANT MaxLen

VARIABLES c, done
vars == <<c, done>>

X(sg, ds, e) == [sg |-> sg, ds |-> ds, e |-> e]
Vals == { X(1, <<0>>, 0), X(1, <<1>>, 0), X(0 - 1, <<2, 5>>, 0 - 1), X(1, <<5>>, 18), X(1, <<9, 2, 2, 3, 3, 7, 2, 0, 3, 6, 8, 5, 4, 7, 7, 5, 8, 0, 7>>, 0),
          X(1, <<9, 0, 0, 7, 1, 9, 9, 2, 5, 4, 7, 4, 0, 9, 9, 2>>, 0), X(1, <<1>>, 19), X(0 - 1, <<1>>, 19), X(1, <<1>>, 308), X(0 - 1, <<1>>, 308), X(1, <<1>>, 0 - 7), X(1, <<3>>, 0) }
Lists == UNION {[1..n -> Vals] : n \in 0..MaxLen}
Names == {"sum", "max", "min", "average", "count"}
Agg(nm, xs) == [mode |-> "num", flags |-> [calls |-> <<[fn |-> "agg", name |-> nm, xs |-> xs]>>]]
\* longer lists of like magnitudes: the mean is in range even where the sum is not
Big == {X(1, <<1>>, 308), X(0 - 1, <<1>>, 308), X(1, <<1, 7>>, 307), X(1, <<1, 5>>, 307), X(1, <<9>>, 307)}
LongLists == {[i \in 1..n |-> x] : n \in 3..6, x \in Big} \cup {<<x, x, x, y>> : x \in Big, y \in Big} \cup {<<x, y, x, y, x>> : x \in Big, y \in Big}
Init == ((\E nm \in Names, xs \in Lists : c = Agg(nm, xs)) \/ (\E nm \in Names, xs \in LongLists : c = Agg(nm, xs))) /\ done = FALSE
Next == ~done /\ done' = TRUE /\ UNCHANGED c
Spec == Init /\ [][Next]_vars
Emit == done => PrintT("CASE " \o ToJson(c))
=============================================================================
