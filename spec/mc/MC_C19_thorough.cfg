SPECIFICATION Spec
CONSTANTS
  OffStep = 1
INVARIANTS Emit CivilInverse WeeksInRange KnownWeeks Weekdays
CHECK_DEADLOCK FALSE
