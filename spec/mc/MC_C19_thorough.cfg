SPECIFICATION Spec
CONSTANTS
  OffStep = 1
INVARIANTS Emit
CHECK_DEADLOCK FALSE
