SPECIFICATION SSpec
CONSTANTS
  Gs = {1, 2}
  Tree <- Tree2
  Fns = {"f", "h"}
  Shared = FALSE
INVARIANTS OwnContext EmitSchedule
CHECK_DEADLOCK FALSE
