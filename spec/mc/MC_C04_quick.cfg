SPECIFICATION Spec
CONSTANTS
  Stale = FALSE
  MaxLinks = 3
  Flavours = {"var", "name", "lit", "neg", "negsp", "fn", "xf", "wild", "wildn"}
INVARIANTS Emit WhitespaceInsensitive PrecedenceHolds
CHECK_DEADLOCK FALSE
