SPECIFICATION SSpec
CONSTANTS
  Gs = {1, 2}
  Tree <- Tree2Same
  Fns = {"f", "h"}
  Shared = FALSE
INVARIANTS OwnContext EmitSchedule
CHECK_DEADLOCK FALSE
