SPECIFICATION Spec
CONSTANTS
  MaxSteps = 2
  DocDepth = 2
  StepSet = {"a", "b", "`a`", "$", "$$", "$v", "*", "**", "(a.b)", "[a]", "{k:a}", "$string(a)", "(a.b[])", "(a[])"}
INVARIANTS Emit PathResultIsJson EmptyIsNoValue
CHECK_DEADLOCK FALSE
