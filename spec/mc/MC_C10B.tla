------------------------------ MODULE MC_C10B ------------------------------
(***************************************************************************)
(* C10, input side of EvalBytes.  TLC enumerates byte strings:             *)
(*  - every string of up to MaxLen bytes over the structural alphabet      *)
(*    { } [ ] " : , 1 - . e \ t space a                                    *)
(*  - valid documents, each followed by every single trailing byte, with   *)
(*    every single byte deleted, and with every byte replaced              *)
(* and checks theorems of the acceptor.                                    *)
(***************************************************************************)
EXTENDS JJson, Json

CONSTANT MaxLen

VARIABLES c, done
vars == <<c, done>>

Alphabet == {123, 125, 91, 93, 34, 58, 44, 49, 45, 46, 101, 92, 116, 32, 97, 48}
Strings(n) == UNION {[1..k -> Alphabet] : k \in 0..n}
\* {"a": 1}   [1, 2]   {"a": [1, {"b": null}], "c": "x\n"}   "é"   -0.5e+2   true   [[]]   {"a":{}}  "😀"
Docs == { <<123, 34, 97, 34, 58, 32, 49, 125>>, <<91, 49, 44, 32, 50, 93>>,
          <<123, 34, 97, 34, 58, 32, 91, 49, 44, 32, 123, 34, 98, 34, 58, 32, 110, 117, 108, 108, 125, 93, 44, 32, 34, 99, 34, 58, 32, 34, 120, 92, 110, 34, 125>>,
          <<34, 92, 117, 48, 48, 101, 57, 34>>, <<45, 48, 46, 53, 101, 43, 50>>, <<116, 114, 117, 101>>, <<91, 91, 93, 93>>, <<123, 34, 97, 34, 58, 123, 125, 125>>,
          <<34, 92, 117, 100, 56, 51, 100, 92, 117, 100, 101, 48, 48, 34>>, <<32, 49, 32>>, <<34, 195, 169, 34>> }
Trailers == {125, 93, 34, 44, 58, 49, 32, 10, 123, 91, 110, 0, 92}
Replacements == {125, 93, 34, 44, 58, 49, 32, 92, 9, 1, 48, 45}
Mutants(d) == {d \o <<t>> : t \in Trailers} \cup {d \o <<32, t>> : t \in Trailers} \cup {d \o <<t, 32, 120>> : t \in {125, 93}}
              \cup {SubSeq(d, 1, i - 1) \o SubSeq(d, i + 1, Len(d)) : i \in 1..Len(d)}
              \cup {SubSeq(d, 1, i - 1) \o <<r>> \o SubSeq(d, i + 1, Len(d)) : i \in 1..Len(d), r \in Replacements}
              \cup {SubSeq(d, 1, i) : i \in 0..Len(d)}

Case(bs) == [mode |-> "evalbytes", bytes |-> bs]
Init == /\ \/ \E s \in Strings(MaxLen) : c = Case(s)
           \/ \E d \in Docs : c = Case(d) \/ \E m \in Mutants(d) : c = Case(m)
        /\ done = FALSE
Next == ~done /\ done' = TRUE /\ UNCHANGED c
Spec == Init /\ [][Next]_vars
Emit == done => PrintT("CASE " \o ToJson(c))

\* ---- theorems on the acceptor ----
AllDocsAccepted == \A d \in Docs : JsonParse(d).ok
\* a document followed by a stray closer, or cut short, is not a JSON text
TrailersRejected == \A d \in Docs : \A t \in {125, 93, 34, 44, 58, 123, 91, 0} : ~JsonParse(d \o <<t>>).ok
WsInsensitive == \A d \in Docs : LET P == JsonParse(d)  Q == JsonParse(<<32, 10>> \o d \o <<9, 13>>) IN Q.ok /\ Q.v = P.v
Known == /\ JsonParse(<<123, 34, 97, 34, 58, 32, 49, 125>>).v = Obj(<< <<(<<97>>), IntV(1)>> >>)
         /\ JsonParse(<<34, 92, 117, 48, 48, 101, 57, 34>>).v = Str(<<233>>)
         /\ JsonParse(<<34, 92, 117, 100, 56, 51, 100, 92, 117, 100, 101, 48, 48, 34>>).v = Str(<<128512>>)
         /\ JsonParse(<<45, 48, 46, 53, 101, 43, 50>>).v = IntV(0 - 50)
         /\ ~JsonParse(<<48, 49>>).ok /\ ~JsonParse(<<49, 46>>).ok /\ ~JsonParse(<<43, 49>>).ok /\ ~JsonParse(<<>>).ok /\ ~JsonParse(<<91, 49, 44, 93>>).ok
         /\ ~JsonParse(<<34, 10, 34>>).ok /\ ~JsonParse(<<34, 92, 120, 34>>).ok /\ ~JsonParse(<<123, 49, 58, 49, 125>>).ok
ASSUME AllDocsAccepted /\ TrailersRejected /\ WsInsensitive /\ Known
=============================================================================
