------------------------------- MODULE MC_C09 -------------------------------
(***************************************************************************)
(* C09 / C10 - totality and JSON-closedness.  Type-chaotic programs: every *)
(* built-in with every arity 0..MaxArgs and every kind of value (number,   *)
(* string, boolean, null, array, nested array, object, FUNCTION, missing)  *)
(* in every argument position; functions used as data in paths, wildcards, *)
(* predicates, sort keys, group keys; the specification is total, so every *)
(* case has a defined outcome set (possibly "abstain"), and a panic, a     *)
(* hang or an internal type is never a member of it.                       *)
(***************************************************************************)
EXTENDS MCBase

CONSTANTS MaxArgs, Fns

ArgNodes == <<
    NNum(IntV(2)), NNum(Num(0 - 3, 2)), NStr(<<97, 98>>), NStr(<<>>), NBool(TRUE), NNull,
    NArray(<<NNum(IntV(1)), NNum(IntV(2))>>), NArray(<<NArray(<<NNum(IntV(1))>>), NArray(<<>>)>>),
    NArray(<<NStr(ka), NStr(kb)>>), NArray(<<>>),
    NObject(<< <<NStr(ka), NNum(IntV(1))>> >>), NObject(<<>>),
    NVar("sum"), NLambda(<<"x">>, NVar("x")), NLambda(<<"a", "b">>, NNumOp("+", NVar("a"), NVar("b"))),
    NPath(<<NName(<<110, 111>>)>>, FALSE),
    NPath(<<NName(ka)>>, FALSE), NVar("") >>
NA == Len(ArgNodes)

Doc == Obj(<< <<ka, Arr(<<Arr(<<IntV(1)>>), Obj(<< <<kb, IntV(2)>> >>), Str(kx)>>)>>, <<kb, Str(<<113, 122, 112>>)>> >>)

ArgLists == UNION {[1..n -> 1..NA] : n \in 0..MaxArgs}
CallOf(fn, al) == NCall(NVar(fn), [i \in 1..Len(al) |-> ArgNodes[al[i]]])

\* functions used as data
Fnv == NVar("sum")
DataProgs == {
    NPath(<<Fnv, NWild>>, FALSE), NPath(<<Fnv, NDesc>>, FALSE), NPath(<<Fnv, NName(ka)>>, FALSE),
    NPred(Fnv, <<NNum(IntV(0))>>), NPred(NArray(<<Fnv, Fnv>>), <<NNum(IntV(1))>>),
    NCall(NVar("distinct"), <<NArray(<<Fnv, Fnv>>)>>), NCall(NVar("keys"), <<Fnv>>),
    NCall(NVar("distinct"), <<NArray(<<NArray(<<NNum(IntV(1))>>), NArray(<<NNum(IntV(1))>>)>>)>>),
    NSort(NArray(<<Fnv, Fnv>>), <<[dir |-> "", e |-> NVar("")]>>),
    NGroup(NPath(<<NName(ka)>>, FALSE), << <<Fnv, NNum(IntV(1))>> >>),
    NObject(<< <<NStr(ka), Fnv>> >>), NArray(<<Fnv, NArray(<<Fnv>>)>>),
    NCall(NVar("type"), <<NCall(NVar("lookup"), <<NObject(<< <<NStr(ka), NNum(IntV(1))>> >>), NStr(kb)>>)>>),
    NCall(NVar("string"), <<NArray(<<Fnv>>)>>), NConcat(Fnv, Fnv), NNeg(Fnv),
    NApply(NNum(IntV(1)), Fnv), NApply(Fnv, Fnv), NApply(NNum(IntV(1)), NNum(IntV(2))),
    NCall(NNum(IntV(1)), <<>>), NPartial(NNum(IntV(1)), <<NPlace>>), NCall(NPartial(Fnv, <<NPlace>>), <<>>),
    NCall([k |-> "TypedLambda", params |-> <<"x">>, body |-> NVar("x"), short |-> FALSE,
           sig |-> <<[ty |-> 1, opt |-> 2, sub |-> <<>>]>>, sigout |-> <<>>], <<NPath(<<NName(<<110, 111>>)>>, FALSE)>>),
    NApply(NVar(""), NTransform(NPath(<<NName(ka)>>, FALSE), NPred(NBlock(<<NSort(NPath(<<NName(kb)>>, FALSE), <<[dir |-> "", e |-> NPath(<<NName(<<107>>)>>, FALSE)]>>)>>), <<NNum(IntV(0))>>), NNone)),
    NCall(NVar("sum"), <<NArray(<<NNum(IntV(1)), NStr(ka)>>)>>),
    NPath(<<NName(ka), NPred(NName(kb), <<NNum(IntV(0))>>)>>, FALSE)
}

\* ill-typed and gappy sort keys / group keys / aggregates over every small array of records
kk == <<107>>
KV == {Undef, IntV(1), Str(kx), Bool(TRUE), Arr(<<IntV(1)>>)}
Rec(v) == IF IsUndef(v) THEN Obj(<< <<kb, IntV(0)>> >>) ELSE Obj(<< <<kk, v>> >>)
RecArrays == {Arr(<<Rec(x), Rec(y), Rec(z)>>) : x \in KV, y \in KV, z \in KV}
K == NPath(<<NName(kk)>>, FALSE)
RecProgs == { NSort(NVar(""), <<[dir |-> "", e |-> K]>>), NSort(NVar(""), <<[dir |-> ">", e |-> K], [dir |-> "", e |-> K]>>),
              NCall(NVar("sort"), <<NPath(<<NVar(""), NName(kk)>>, FALSE)>>),
              NCall(NVar("sort"), <<NVar(""), NLambda(<<"l", "r">>, NCmpOp(">", NPath(<<NVar("l"), NName(kk)>>, FALSE), NPath(<<NVar("r"), NName(kk)>>, FALSE)))>>),
              NGroup(NVar(""), << <<K, NVar("")>> >>), NCall(NVar("max"), <<NPath(<<NVar(""), NName(kk)>>, FALSE)>>),
              NCall(NVar("join"), <<NPath(<<NVar(""), NName(kk)>>, FALSE)>>), NPred(NVar(""), <<K>>),
              NCall(NVar("distinct"), <<NPath(<<NVar(""), NName(kk)>>, FALSE)>>) }

\* function VALUES of every kind called with every short argument list (also none at all), directly, through a variable,
\* through ~> and handed to a higher-order function
Callees == { NVar("sum"), NVar("uppercase"), NVar("substringBefore"), NLambda(<<"x">>, NVar("x")), NLambda(<<>>, NNum(IntV(1))),
             \* bodies that are blocks: one expression in parentheses, in two pairs of them, and a typed function with such a body
             NLambda(<<"x">>, NBlock(<<NVar("x")>>)), NLambda(<<"x">>, NBlock(<<NBlock(<<NArray(<<NVar("x")>>)>>)>>)), NLambda(<<"x">>, NBlock(<<NAssign("y", NVar("x")), NVar("y")>>)),
             [k |-> "TypedLambda", params |-> <<"x">>, body |-> NBlock(<<NVar("x")>>), short |-> FALSE, sig |-> <<[ty |-> 2, opt |-> 0, sub |-> <<>>]>>, sigout |-> <<>>],
             NLambda(<<"a", "b">>, NArray(<<NVar("a"), NVar("b")>>)),
             NLambda(<<"a", "b", "c", "d">>, NBool(TRUE)), NLambda(<<"a", "b", "c", "d", "e">>, NVar("d")), NVar("replace"), NVar("formatNumber"),
             NPartial(NVar("replace"), <<NPlace, NPlace, NPlace, NPlace>>), NPartial(NLambda(<<"a", "b", "c", "d", "e">>, NVar("e")), <<NPlace, NPlace, NPlace, NPlace, NPlace>>),
             NPartial(NVar("substring"), <<NPlace, NNum(IntV(1))>>), NPartial(NVar("append"), <<NPlace, NPlace>>),
             NBlock(<<NApply(NVar("uppercase"), NVar("lowercase"))>>), NBlock(<<NApply(NApply(NVar("string"), NVar("uppercase")), NVar("length"))>>),
             NBlock(<<NApply(NLambda(<<"x">>, NVar("x")), NVar("count"))>>),
             NTransform(NPath(<<NName(ka)>>, FALSE), NObject(<< <<NStr(kb), NNum(IntV(1))>> >>), NNone),
             NBlock(<<NApply(NTransform(NVar(""), NObject(<< <<NStr(kb), NNum(IntV(1))>> >>), NNone), NVar("keys"))>>),
             [k |-> "TypedLambda", params |-> <<"x">>, body |-> NVar("x"), short |-> FALSE, sig |-> <<[ty |-> 2, opt |-> 0, sub |-> <<>>]>>, sigout |-> <<>>] }
FewArgs == { <<>>, <<NStr(<<97, 66>>)>>, <<NNum(IntV(2))>>, <<NPath(<<NName(<<110, 111>>)>>, FALSE)>>, <<NArray(<<NNum(IntV(1)), NNum(IntV(2))>>)>>, <<NObject(<< <<NStr(ka), NNum(IntV(1))>> >>)>>,
             <<NVar("sum")>>, <<NStr(<<97, 66>>), NNum(IntV(1))>>, <<NNull, NNull>>, <<NStr(ka), NStr(kb), NStr(kc)>> }
\* signatures with the context marker on a later parameter, an optional in the middle, a variadic first: called with every short argument list
OddSigs == { <<[ty |-> 1, opt |-> 0, sub |-> <<>>], [ty |-> 1, opt |-> 3, sub |-> <<>>], [ty |-> 1, opt |-> 0, sub |-> <<>>]>>,
             <<[ty |-> 1, opt |-> 0, sub |-> <<>>], [ty |-> 1, opt |-> 0, sub |-> <<>>], [ty |-> 1, opt |-> 3, sub |-> <<>>]>>,
             <<[ty |-> 2, opt |-> 0, sub |-> <<>>], [ty |-> 2, opt |-> 3, sub |-> <<>>]>>,
             <<[ty |-> 2, opt |-> 3, sub |-> <<>>], [ty |-> 2, opt |-> 3, sub |-> <<>>]>>,
             <<[ty |-> 1, opt |-> 1, sub |-> <<>>], [ty |-> 1, opt |-> 0, sub |-> <<>>]>>,
             <<[ty |-> 1, opt |-> 2, sub |-> <<>>], [ty |-> 2, opt |-> 0, sub |-> <<>>]>>,
             <<[ty |-> 1, opt |-> 1, sub |-> <<>>], [ty |-> 2, opt |-> 3, sub |-> <<>>], [ty |-> 1, opt |-> 2, sub |-> <<>>]>> }
OddTyped == { [k |-> "TypedLambda", params |-> SubSeq(<<"a", "b", "c">>, 1, Len(sg)), body |-> NVar("a"), short |-> FALSE, sig |-> sg, sigout |-> <<>>] : sg \in OddSigs }
CalleeProgs == { NCall(f, a) : f \in Callees \cup OddTyped, a \in FewArgs }
                \cup { NPath(<<NName(kb), NCall(f, a)>>, FALSE) : f \in OddTyped, a \in FewArgs }
                \cup { NBlock(<<NAssign("f", f), NCall(NVar("f"), a)>>) : f \in Callees, a \in FewArgs }
                \cup { NApply(a[1], f) : f \in Callees, a \in {x \in FewArgs : Len(x) = 1} }
                \cup { NCall(NVar(h), <<NArray(<<NNum(IntV(1)), NStr(<<97, 66>>)>>), f>>) : f \in Callees, h \in {"map", "filter", "reduce", "single", "sort"} }
                \cup { NCall(NVar(h), <<NObject(<< <<NStr(ka), NNum(IntV(1))>> >>), f>>) : f \in Callees, h \in {"each", "sift"} }
                \cup { NPartial(f, <<NPlace>>) : f \in Callees } \cup { NCall(NPartial(f, <<NPlace>>), a) : f \in Callees, a \in {<<>>, <<NStr(<<97, 66>>)>>} }

\* function values of every Go representation followed by a name step: a function has no members, whatever the
\* implementation calls the fields of the struct behind it; and what such a step yields used as data
GoFieldNames == { <<110, 97, 109, 101>>, <<112, 97, 114, 97, 109, 115>>, <<102, 110>>, <<97, 114, 103, 115>>, <<99, 97, 108, 108, 97, 98, 108, 101, 115>>, <<112, 97, 114, 97, 109, 78, 97, 109, 101, 115>>, <<98, 111, 100, 121>>, <<112, 97, 116, 116, 101, 114, 110>>, <<117, 112, 100, 97, 116, 101, 115>>, <<100, 101, 108, 101, 116, 101, 115>>, <<114, 101>>, <<103, 114, 111, 117, 112, 115>>, <<109, 97, 116, 99, 104>>, <<115, 116, 97, 114, 116>>, <<101, 110, 100>>, <<110, 101, 120, 116>>, <<101, 110, 118>>, <<99, 111, 110, 116, 101, 120, 116>>, <<116, 121, 112, 101, 100>>, <<105, 115, 86, 97, 114, 105, 97, 100, 105, 99>>, <<117, 110, 100, 101, 102, 105, 110, 101, 100, 72, 97, 110, 100, 108, 101, 114>>, <<116>>, <<86, 97, 108, 117, 101>>, <<84, 121, 112, 101>> }
FnValues == { NVar("sum"), NVar("substringBefore"), NLambda(<<"x">>, NVar("x")), NPartial(NVar("substring"), <<NPlace, NNum(IntV(1))>>),
              NBlock(<<NApply(NVar("uppercase"), NVar("lowercase"))>>), NTransform(NPath(<<NName(ka)>>, FALSE), NObject(<< <<NStr(kb), NNum(IntV(1))>> >>), NNone),
              [k |-> "TypedLambda", params |-> <<"x">>, body |-> NVar("x"), short |-> FALSE, sig |-> <<[ty |-> 2, opt |-> 0, sub |-> <<>>]>>, sigout |-> <<>>],
              NVar("millis") }
FieldOf(f, nm) == NPath(<<f, NName(nm)>>, FALSE)
FnFieldProgs == UNION { LET X == FieldOf(f, nm) IN
                  { X, NPred(X, <<NNum(IntV(0))>>), NPred(NBlock(<<X>>), <<NBool(TRUE)>>), NPred(X, <<NPath(<<NName(ka)>>, FALSE)>>),
                    NSort(NBlock(<<X>>), <<[dir |-> "", e |-> NVar("")]>>), NSort(X, <<[dir |-> "", e |-> NPath(<<NName(ka)>>, FALSE)]>>),
                    NCmpOp("=", X, X), NCmpOp("!=", NBlock(<<X>>), NBlock(<<X>>)),
                    NCall(NVar("string"), <<X>>), NCall(NVar("count"), <<X>>), NCall(NVar("append"), <<X, X>>), NCall(NVar("reverse"), <<X>>), NCall(NVar("type"), <<X>>),
                    NCall(NVar("map"), <<X, NVar("string")>>), NArray(<<X>>), NObject(<< <<NStr(ka), X>> >>), NPath(<<f, NName(nm), NName(<<86, 97, 108, 117, 101>>)>>, FALSE),
                    NPred(NPath(<<f, NName(nm)>>, TRUE), <<NNum(IntV(0))>>),
                    NApply(NBlock(<<X>>), NTransform(NVar(""), NObject(<< <<NStr(kb), NNum(IntV(1))>> >>), NNone)) } : f \in FnValues, nm \in GoFieldNames }

\* a function value that went through a library function (which may hand back a copy) is still that function:
\* called directly, composed with ~>, applied with ~>, and as data
Idf == NLambda(<<"g">>, NVar("g"))
Through(f) == { NPred(NCall(NVar("distinct"), <<NArray(<<f>>)>>), <<NNum(IntV(0))>>), NPred(NCall(NVar("map"), <<NArray(<<f>>), Idf>>), <<NNum(IntV(0))>>),
                NPred(NCall(NVar("map"), <<f, Idf>>), <<NNum(IntV(0))>>), NPred(NCall(NVar("filter"), <<f, NVar("exists")>>), <<NNum(IntV(0))>>),
                NCall(NVar("single"), <<f, NVar("exists")>>), NPred(NCall(NVar("sort"), <<f>>), <<NNum(IntV(0))>>),
                NCall(NVar("reduce"), <<f, NLambda(<<"a", "b">>, NVar("b")), NNum(IntV(1))>>), NPred(NCall(NVar("reverse"), <<NArray(<<f>>)>>), <<NNum(IntV(0))>>),
                NPred(NCall(NVar("append"), <<NArray(<<f>>), NArray(<<>>)>>), <<NNum(IntV(0))>>), NPred(NCall(NVar("shuffle"), <<NArray(<<f>>)>>), <<NNum(IntV(0))>>),
                NCall(NVar("lookup"), <<NObject(<< <<NStr(ka), f>> >>), NStr(ka)>>), NPath(<<NCall(NVar("merge"), <<NArray(<<NObject(<< <<NStr(ka), f>> >>)>>)>>), NName(ka)>>, FALSE),
                NPred(NCall(NVar("each"), <<NObject(<< <<NStr(ka), f>> >>), Idf>>), <<NNum(IntV(0))>>),
                NPath(<<NCall(NVar("sift"), <<NObject(<< <<NStr(ka), f>> >>), NVar("exists")>>), NName(ka)>>, FALSE),
                NPred(NArray(<<f>>), <<NNum(IntV(0))>>), NPath(<<NObject(<< <<NStr(ka), f>> >>), NName(ka)>>, FALSE) }
FewFns == { NVar("sum"), NVar("count"), NLambda(<<"x">>, NVar("x")), NPartial(NVar("append"), <<NPlace, NNum(IntV(1))>>), NBlock(<<NApply(NVar("sum"), NVar("string"))>>) }
NumsArg == NArray(<<NNum(IntV(1)), NNum(IntV(2))>>)
ThroughProgs == UNION { { NCall(t, <<NumsArg>>), NCall(NBlock(<<NApply(t, NVar("string"))>>), <<NumsArg>>), NApply(NumsArg, t), NCall(NVar("type"), <<t>>),
                          NCall(NVar("map"), <<NArray(<<NumsArg>>), t>>), NBlock(<<NAssign("f", t), NCall(NVar("f"), <<NumsArg>>)>>) } : t \in UNION {Through(f) : f \in FewFns} }

Init == /\ \/ \E fn \in Fns, al \in ArgLists : case = MkCase(CallOf(fn, al), Doc)
           \/ \E p \in CalleeProgs : case = MkCase(p, Doc)
           \/ \E p \in RecProgs, a \in RecArrays : case = MkCase(p, a)
           \/ \E p \in DataProgs : case = MkCase(p, Doc)
           \/ \E p \in FnFieldProgs \cup ThroughProgs : case = MkCase(p, Doc)
        /\ out = Pending
Next == EvaluateCase
Spec == Init /\ [][Next]_mcvars

\* totality of the specification itself: every case has an outcome of the closed domain
SpecIsTotal == out = Pending \/ out.o \in {"val", "undef", "err", "top"}
=============================================================================
