SPECIFICATION Spec
CONSTANTS
  MaxParams = 2
  MaxArgs = 3
INVARIANTS Emit ChainIsCall
CHECK_DEADLOCK FALSE
