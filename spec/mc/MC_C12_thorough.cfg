SPECIFICATION Spec
CONSTANTS
  MaxParams = 2
  MaxArgs = 2
INVARIANTS Emit ChainIsCall
CHECK_DEADLOCK FALSE
