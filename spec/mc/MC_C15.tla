------------------------------- MODULE MC_C15 -------------------------------
(***************************************************************************)
(* C15 - array, higher-order and aggregate functions.  Exhaustive for      *)
(* arrays of length 0..MaxLen over the 5-value domain {1, "1", true, [1],  *)
(* {"a":1}} (value-equal-but-kind-different members included), scalars in  *)
(* array position, missing arguments; function arguments that are lambdas  *)
(* of arity 0..3, built-ins, partials and chains; aggregates over integers *)
(* and halves.                                                             *)
(***************************************************************************)
EXTENDS MCBase

CONSTANT MaxLen

Dom == {IntV(1), Str(<<49>>), Bool(TRUE), Arr(<<IntV(1)>>), Obj(<< <<ka, IntV(1)>> >>)}
Dom2 == Dom \cup {Obj(<< <<ka, Str(<<49>>)>> >>), IntV(2), Arr(<<Str(<<49>>)>>)}
Arrs(D, n) == {Arr(f) : f \in [1..n -> D]}
\* a composite member next to the string that spells it (its JSON text, its $string form): never the same value
Twins == {Arr(<<IntV(1)>>), Str(<<91, 49, 93>>), Obj(<< <<ka, IntV(1)>> >>), Str(<<123, 34, 97, 34, 58, 49, 125>>), Str(<<123, 34, 97, 34, 58, 32, 49, 125>>), Arr(<<IntV(1), IntV(2)>>), Str(<<91, 49, 44, 50, 93>>), Str(<<91, 49, 44, 32, 50, 93>>), Str(<<49>>)}
AllArrs == UNION {Arrs(Dom, n) : n \in 0..MaxLen} \cup Arrs(Dom2, 2) \cup Arrs(Twins, 2)
NumDom == {IntV(0), IntV(1), IntV(0 - 2), Num(1, 2), Num(0 - 3, 2), IntV(7)}
NumArrs == UNION {Arrs(NumDom, n) : n \in 0..MaxLen}
Scalars == {IntV(3), Str(kx), Bool(FALSE), Obj(<< <<ka, IntV(1)>> >>), Obj(<<>>), Obj(<< <<ka, IntV(1)>>, <<kb, IntV(2)>> >>), Str(<<>>), IntV(0)}    \* a non-array counts as one member, whatever it contains

X == NVar("")
V(nm) == NVar(nm)
Lam(ps, body) == NLambda(ps, body)
Fns == { Lam(<<>>, NNum(IntV(7))),
         Lam(<<"v">>, V("v")),
         Lam(<<"v", "i">>, NArray(<<V("v"), V("i")>>)),
         Lam(<<"v", "i", "a">>, NArray(<<V("i"), NCall(V("count"), <<V("a")>>)>>)),
         Lam(<<"v", "i", "a", "z">>, NArray(<<V("i"), NCall(V("exists"), <<V("z")>>)>>)),
         Lam(<<"v", "i", "a">>, NCall(V("type"), <<V("a")>>)), Lam(<<"v", "i", "a">>, NArray(<<NArray(<<V("a")>>)>>)),                                  \* the third argument is the whole array (also for a one-member or scalar input)
         Lam(<<"v">>, NCmpOp("=", V("v"), NNum(IntV(1)))),
         Lam(<<"v">>, NCond(NCmpOp("=", NCall(V("type"), <<V("v")>>), NStr(<<110, 117, 109, 98, 101, 114>>)), V("v"), NNone)),
         Lam(<<"v", "i">>, NCmpOp(">", V("i"), NNum(IntV(0)))),
         V("string"), V("type"), V("boolean"), V("exists"),
         NPartial(V("append"), <<NPlace, NNum(IntV(0))>>),
         NBlock(<<NApply(V("string"), V("length"))>>) }
Reducers == { Lam(<<"a", "b">>, NArray(<<V("a"), V("b")>>)), Lam(<<"a", "b">>, NConcat(NCall(V("string"), <<V("a")>>), NCall(V("string"), <<V("b")>>))),
              Lam(<<"a">>, V("a")), Lam(<<"a", "b", "c">>, V("a")), V("append"), V("string") }

Call1(f, a) == NCall(V(f), <<a>>)
Call2(f, a, b) == NCall(V(f), <<a, b>>)
Missing == NPath(<<NName(<<110, 111>>)>>, FALSE)

HofProgs == {Call2(h, X, f) : h \in {"map", "filter", "single"}, f \in Fns}
            \cup {Call2("reduce", X, r) : r \in Reducers} \cup {NCall(V("reduce"), <<X, r, NStr(<<115>>)>>) : r \in Reducers}
ArrProgs == { Call1("reverse", X), Call1("distinct", X), Call1("count", X), Call1("shuffle", X),
              Call2("append", X, X), Call2("append", X, NNum(IntV(9))), Call2("append", NNum(IntV(9)), X), Call2("append", X, Missing), Call2("append", Missing, X),
              Call2("zip", X, X), NCall(V("zip"), <<X, NArray(<<NNum(IntV(1)), NNum(IntV(2))>>), X>>), Call2("zip", X, NNum(IntV(5))), Call1("zip", X),
              Call1("distinct", NCall(V("append"), <<X, X>>)),
              NCmpOp("=", NCall(V("count"), <<Call1("shuffle", X)>>), Call1("count", X)),
              NCmpOp("=", Call1("reverse", Call1("reverse", X)), Call2("append", X, NArray(<<>>))) }
\* results built from one base array are independent values (no shared buffers)
Bases == { X, Call2("map", X, Lam(<<"v">>, V("v"))), Call2("filter", X, Lam(<<"v">>, NBool(TRUE))), Call2("append", X, NArray(<<>>)), Call1("reverse", X),
           Call1("sort", NArray(<<NNum(IntV(3)), NNum(IntV(1)), NNum(IntV(2))>>)), NArray(<<NRange(NNum(IntV(1)), NNum(IntV(3)))>>), Call1("distinct", X) }
Twice(b, f, a1, a2) == NBlock(<<NAssign("b", b), NAssign("p", NCall(V(f), <<V("b"), a1>>)), NAssign("q", NCall(V(f), <<V("b"), a2>>)), NArray(<<NArray(<<V("p")>>), NArray(<<V("q")>>), NArray(<<V("b")>>)>>)>>)
AliasProgs == {Twice(b, "append", NNum(IntV(8)), NNum(IntV(9))) : b \in Bases} \cup {Twice(b, "append", NArray(<<NNum(IntV(8)), NNum(IntV(7))>>), NArray(<<NNum(IntV(9))>>)) : b \in Bases}
              \cup {NBlock(<<NAssign("b", b), NAssign("p", Call1("reverse", V("b"))), NAssign("q", Call2("append", V("b"), NNum(IntV(9)))), NArray(<<NArray(<<V("p")>>), NArray(<<V("q")>>), NArray(<<V("b")>>)>>)>>) : b \in Bases}
              \cup {NBlock(<<NAssign("b", b), NAssign("p", Call2("append", V("b"), NNum(IntV(8)))), NAssign("q", Call2("append", V("p"), NNum(IntV(9)))), NAssign("r", Call2("append", V("p"), NNum(IntV(7)))),
                              NArray(<<NArray(<<V("q")>>), NArray(<<V("r")>>), NArray(<<V("p")>>)>>)>>) : b \in Bases}

AggProgs == { Call1("sum", X), Call1("max", X), Call1("min", X), Call1("average", X), Call1("count", X) }
MissProgs == { Call1("count", Missing), Call1("sum", Missing), Call1("max", Missing), Call1("reverse", Missing), Call2("map", Missing, V("string")),
               Call2("filter", Missing, V("string")), Call2("append", Missing, Missing), Call1("distinct", X), Call2("zip", Missing, X) }

Init == /\ \/ \E p \in HofProgs \cup ArrProgs, a \in AllArrs : case = MkCase(p, a)
           \/ \E p \in AggProgs \cup {Call2("reduce", X, NLambda(<<"a", "b">>, NNumOp("+", V("a"), V("b"))))}, a \in NumArrs : case = MkCase(p, a)
           \/ \E p \in AggProgs, a \in AllArrs : case = MkCase(p, a)
           \/ \E p \in HofProgs \cup ArrProgs \cup AggProgs, s \in Scalars : case = MkCase(p, s)
           \/ \E p \in AliasProgs, a \in Arrs(NumDom, 3) \cup Arrs(NumDom, 2) \cup Arrs(NumDom, 1) : case = MkCase(p, a)
           \/ \E p \in MissProgs : case = MkCase(p, Arr(<<IntV(1)>>))
        /\ out = Pending
Next == EvaluateCase
Spec == Init /\ [][Next]_mcvars

\* theorems on the specification: $reverse is an involution; $distinct never grows and keeps first occurrences
Laws == (out # Pending /\ case.ast.k = "CmpOp" /\ out.o = "val") => out.r = Bool(TRUE)
DistinctShrinks == (out # Pending /\ case.ast = Call1("distinct", X) /\ case.inp.t = "arr" /\ out.o = "val" /\ out.r.t = "arr") =>
                      (Len(out.r.v) <= Len(case.inp.v) /\ (case.inp.v # <<>> => out.r.v[1] = case.inp.v[1]))
=============================================================================
