SPECIFICATION CallSpec
CONSTANTS
  Gs = {1, 2}
  Tree <- Tree22
  Fns = {"f", "h"}
  Shared = FALSE
INVARIANT OwnContext
PROPERTY AllDone
CHECK_DEADLOCK FALSE
