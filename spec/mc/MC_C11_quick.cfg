SPECIFICATION Spec
CONSTANTS
  Stale = FALSE
  MaxUnits = 3
INVARIANTS Emit QuoteInsensitive StringsDenoteStrings WsInsensitive
CHECK_DEADLOCK FALSE
