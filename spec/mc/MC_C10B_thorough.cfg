SPECIFICATION Spec
CONSTANTS
  MaxLen = 4
INVARIANTS Emit
CHECK_DEADLOCK FALSE
