SPECIFICATION Spec
CONSTANTS
  Nested = TRUE
INVARIANTS Emit IdentityWhenNothingSelected
CHECK_DEADLOCK FALSE
