----------------------------- MODULE MC_CallSched -----------------------------
(* Enumerates every interleaving of the call-protocol steps of JCall for a      *)
(* configuration (the schedule is a history variable, so every path is a state)  *)
(* and prints each complete schedule for replay on the real code.                *)
EXTENDS JCall, Json

VARIABLE sched
svars == <<stack, slot, obs, done, sched>>

C(fn, ctx, args) == [fn |-> fn, ctx |-> ctx, args |-> args]
TreeNested == [g \in {1} |-> C("f", 10, <<C("f", 11, <<>>)>>)]
Tree2 == [g \in {1, 2} |-> IF g = 1 THEN C("f", 10, <<C("h", 12, <<>>)>>) ELSE C("f", 20, <<>>)]
Tree2Same == [g \in {1, 2} |-> C("f", 10 * g, <<C("f", 10 * g + 1, <<>>)>>)]
Tree3 == [g \in {1, 2, 3} |-> C("f", 10 * g, <<>>)]
Tree22 == [g \in {1, 2} |-> C("f", 10 * g, <<C("h", 10 * g + 1, <<C("f", 10 * g + 2, <<>>)>>)>>)]

SInit == CallInit /\ sched = <<>>
SNext == \E g \in Gs :
           \/ SetCtx(g) /\ sched' = Append(sched, <<g, "SetCtx">>)
           \/ Descend(g) /\ sched' = sched                             \* local step: no gate in the code
           \/ Invoke(g) /\ sched' = Append(sched, <<g, "Invoke">>)
SSpec == SInit /\ [][SNext]_svars

AllFinished == \A g \in Gs : done[g]
EmitSchedule == IF AllFinished
                THEN PrintT("CASE " \o ToJson([trees |-> [g \in Gs |-> Tree[g]], order |-> sched, gs |-> Cardinality(Gs)]))
                ELSE TRUE
=============================================================================
