SPECIFICATION Spec
CONSTANTS
  MaxItems = 3
  MaxMembersC = 3
INVARIANTS Emit Identities Partition
CHECK_DEADLOCK FALSE
