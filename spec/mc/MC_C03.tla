------------------------------- MODULE MC_C03 -------------------------------
(***************************************************************************)
(* C03 - operators.  The full table operator x operand kind x operand kind *)
(* (with "missing" and "function" as kinds), each operand supplied as a    *)
(* literal or as an input member, plus the nested fragment of depth 2.     *)
(***************************************************************************)
EXTENDS MCBase

CONSTANT Depth2

Eacute == <<233>>
\* operand values that can be written as literals and stored in documents
JsonVals == {IntV(0), IntV(1), IntV(0 - 1), Num(1, 2), IntV(3), IntV(7), Num(0 - 5, 2),
             Str(<<>>), Str(<<49>>), Str(ka), Str(Eacute), Str(<<97, 98>>), Str(<<65374>>), Str(<<128512>>),      \* U+FF5E sorts before U+1F600 by code point (not by UTF-16 unit)
             Bool(TRUE), Bool(FALSE),
             Arr(<<>>), Arr(<<IntV(1)>>), Arr(<<IntV(1), Str(ka)>>), Arr(<<IntV(0)>>),
             Arr(<<Bool(TRUE), Bool(FALSE)>>), Arr(<<Bool(FALSE), Bool(TRUE)>>), Arr(<<Str(ka), Str(<<>>), IntV(0)>>), Arr(<<IntV(0), Str(<<>>), Bool(FALSE)>>),      \* mixed truthiness: any truthy member makes the array truthy
             Obj(<<>>), Obj(<< <<ka, IntV(1)>> >>)}

RECURSIVE LitOf(_)
LitOf(v) == CASE v.t = "num" -> NNum(v)
              [] v.t = "str" -> NStr(v.s)
              [] v.t = "bool" -> NBool(v.b)
              [] v.t = "arr" -> NArray([i \in 1..Len(v.v) |-> LitOf(v.v[i])])
              [] v.t = "obj" -> NObject([i \in 1..Len(v.m) |-> <<NStr(v.m[i][1]), LitOf(v.m[i][2])>>])

\* an operand is [node, member]: member # Undef means "stored in the document under that key"
LitOperands == {[node |-> LitOf(v), val |-> Undef] : v \in JsonVals}
               \cup {[node |-> NNull, val |-> Undef],
                     [node |-> NVar("sum"), val |-> Undef],
                     [node |-> NLambda(<<"x">>, NVar("x")), val |-> Undef],
                     [node |-> NPath(<<NName(<<110, 111>>)>>, FALSE), val |-> Undef]}      \* missing
MemOperands(key) == {[node |-> NPath(<<NName(key)>>, FALSE), val |-> v] : v \in JsonVals}
Left  == LitOperands \cup MemOperands(<<120>>)
Right == LitOperands \cup MemOperands(<<121>>)

DocOf(l, r) == Obj((IF IsUndef(l.val) THEN <<>> ELSE << <<(<<120>>), l.val>> >>)
                   \o (IF IsUndef(r.val) THEN <<>> ELSE << <<(<<121>>), r.val>> >>))

NumOps == {"+", "-", "*", "/", "%"}
CmpOps == {"=", "!=", "<", "<=", ">", ">=", "in"}
BoolOps == {"and", "or"}
BinOps == NumOps \cup CmpOps \cup BoolOps \cup {"&", ".."}

Bin(op, l, r) == CASE op \in NumOps -> NNumOp(op, l, r)
                   [] op \in CmpOps -> NCmpOp(op, l, r)
                   [] op \in BoolOps -> NBoolOp(op, l, r)
                   [] op = "&" -> NConcat(l, r)
                   [] op = ".." -> NArray(<<NRange(l, r)>>)

\* {"a": [1, 2], "o": {"k": 1}, "n": {"x": null}, "m": [null, 1], "s": "a,b"}
StructDoc == Obj(<< <<ka, Arr(<<IntV(1), IntV(2)>>)>>, <<(<<109>>), Arr(<<Null, IntV(1)>>)>>, <<(<<110>>), Obj(<< <<kx, Null>> >>)>>, <<(<<111>>), Obj(<< <<(<<107>>), IntV(1)>> >>)>>, <<(<<115>>), Str(<<97, 44, 98>>)>> >>)
PN(nm) == NPath(<<NName(nm)>>, FALSE)
Structs == { NArray(<<NCall(NVar("count"), <<PN(ka)>>)>>), NArray(<<NNum(IntV(2))>>), NArray(<<NCall(NVar("length"), <<NStr(<<97, 98>>)>>)>>), NArray(<<NNum(IntV(3))>>),
             NCall(NVar("split"), <<PN(<<115>>), NStr(<<44>>)>>), NArray(<<NStr(<<97>>), NStr(<<98>>)>>), NArray(<<NStr(<<97>>), NStr(<<99>>)>>),
             NObject(<< <<NStr(<<110>>), NCall(NVar("count"), <<PN(ka)>>)>> >>), NObject(<< <<NStr(<<110>>), NNum(IntV(2))>> >>),
             NCall(NVar("keys"), <<NObject(<< <<NStr(ka), NNum(IntV(1))>>, <<NStr(kb), NNum(IntV(2))>> >>)>>), NArray(<<NStr(ka), NStr(kb)>>),
             NCall(NVar("append"), <<PN(ka), NArray(<<>>)>>), PN(ka), NArray(<<NNum(IntV(1)), NNum(IntV(2))>>), NCall(NVar("reverse"), <<NArray(<<NNum(IntV(2)), NNum(IntV(1))>>)>>),
             NCall(NVar("map"), <<PN(ka), NLambda(<<"v">>, NVar("v"))>>), NCall(NVar("sort"), <<PN(ka)>>), NCall(NVar("distinct"), <<PN(ka)>>),
             PN(<<110>>), NObject(<< <<NStr(kx), NNull>> >>), NObject(<< <<NStr(kx), NNum(IntV(1))>> >>), NArray(<<PN(<<110>>)>>), NArray(<<NObject(<< <<NStr(kx), NNull>> >>)>>),
             PN(<<109>>), NArray(<<NNull, NNum(IntV(1))>>), NArray(<<NNum(IntV(1)), NNull>>),
             PN(<<111>>), NObject(<< <<NStr(<<107>>), NNum(IntV(1))>> >>), NCall(NVar("merge"), <<NArray(<<PN(<<111>>)>>)>>), NArray(<<NArray(<<NCall(NVar("count"), <<PN(ka)>>)>>)>>), NArray(<<NArray(<<NNum(IntV(2))>>)>>) }
Boom == NCall(NVar("error"), <<NStr(<<98, 111, 111, 109>>)>>)
SmallOps == {"+", "*", "=", "<", "and", "&", "in"}
SmallVals == {[node |-> NNum(IntV(1)), val |-> Undef], [node |-> NStr(ka), val |-> Undef],
              [node |-> NPath(<<NName(<<110, 111>>)>>, FALSE), val |-> Undef], [node |-> NBool(TRUE), val |-> Undef],
              [node |-> NNum(Num(3, 2)), val |-> Undef]}

Init == /\ \/ \E op \in BinOps, l \in Left, r \in Right :
                 case = MkCase(Bin(op, l.node, r.node), DocOf(l, r))
           \/ \E l \in Left : case = MkCase(NNeg(l.node), DocOf(l, [node |-> NNull, val |-> Undef]))
           \* nested negation: the operand check applies at every level
           \/ \E l \in Left : case = MkCase(NNeg(NNeg(l.node)), DocOf(l, [node |-> NNull, val |-> Undef]))
           \/ \E l \in Left : case = MkCase(NNeg(NBlock(<<NNeg(l.node)>>)), DocOf(l, [node |-> NNull, val |-> Undef]))
           \/ \E l \in Left, op \in {"+", "&", "="} : case = MkCase(Bin(op, NNeg(NNeg(l.node)), NNum(IntV(1))), DocOf(l, [node |-> NNull, val |-> Undef]))
           \* O8: only the chosen branch is evaluated
           \/ \E c \in Left : case = MkCase(NCond(c.node, NNum(IntV(1)), Boom), DocOf(c, [node |-> NNull, val |-> Undef]))
           \/ \E c \in Left : case = MkCase(NCond(c.node, Boom, NNum(IntV(2))), DocOf(c, [node |-> NNull, val |-> Undef]))
           \/ \E c \in Left : case = MkCase(NCond(c.node, NNum(IntV(1)), NNone), DocOf(c, [node |-> NNull, val |-> Undef]))
           \* O7 limits
           \/ \E lo \in {0, 1, 5}, hi \in {1, 4, 10000000, 10000001, 10000005} :
                 (hi - lo < 100 \/ hi - lo >= 10000000) /\ case = MkCase(NArray(<<NRange(NNum(IntV(lo)), NNum(IntV(hi)))>>), Obj(<<>>))
           \* exact arithmetic on dyadic fractions, truncated remainder with the dividend's sign
           \/ \E a \in (0 - 9)..9, b \in (0 - 9)..9, op \in NumOps :
                 case = MkCase(Bin(op, NNum(Num(a, 2)), NNum(Num(b, 4))), Obj(<<>>))
           \/ (Depth2 /\ \E op1 \in SmallOps, op2 \in SmallOps, a \in SmallVals, b \in SmallVals, c \in SmallVals :
                 case = MkCase(Bin(op2, NBlock(<<Bin(op1, a.node, b.node)>>), c.node), Obj(<<>>)))
           \/ (Depth2 /\ \E op1 \in SmallOps, op2 \in SmallOps, a \in SmallVals, b \in SmallVals, c \in SmallVals :
                 case = MkCase(Bin(op2, a.node, NBlock(<<Bin(op1, b.node, c.node)>>)), Obj(<<>>)))
           \* structural comparison of arrays and objects whose members were made by library functions (whatever Go types
           \* the library hands back), by constructors, or read from the input (incl. null members)
           \/ \E l \in Structs, r \in Structs, op \in {"=", "!=", "in"} : case = MkCase(Bin(op, l, r), StructDoc)
        /\ out = Pending
Next == EvaluateCase
Spec == Init /\ [][Next]_mcvars

\* the table is total: every cell has an outcome of the closed domain
Total == out = Pending \/ out.o \in {"val", "undef", "err", "top"}
\* comparisons and boolean operators never yield "no value"
CmpIsBoolean == (out # Pending /\ case.ast.k \in {"CmpOp", "BoolOp"} /\ out.o = "val") => out.r.t = "bool"
CmpNeverUndef == (out # Pending /\ case.ast.k \in {"CmpOp", "BoolOp"}) => out.o # "undef"
=============================================================================
