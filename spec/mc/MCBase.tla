------------------------------- MODULE MCBase -------------------------------
(***************************************************************************)
(* Common machinery of the bounded-exhaustive configs (G direction).       *)
(* Two-level enumeration (DESIGN.md section 3): Init picks a case seed     *)
(* without evaluating anything; the single action Evaluate computes the    *)
(* specification's outcome in the worker threads; evaluated states are     *)
(* terminal.  The always-true invariant Emit prints each evaluated case as *)
(* one JSON line for the Go replayer.                                      *)
(***************************************************************************)
EXTENDS JOutcome, Json

\* AST constructors (JAst)
NName(s)        == [k |-> "Name", s |-> s, esc |-> FALSE]
NEsc(s)         == [k |-> "Name", s |-> s, esc |-> TRUE]
NVar(nm)        == [k |-> "Variable", nm |-> nm]
NNum(v)         == [k |-> "Number", num |-> v]
NStr(s)         == [k |-> "String", s |-> s]
NBool(b)        == [k |-> "Boolean", b |-> b]
NNull           == [k |-> "Null"]
NPath(steps, keep) == [k |-> "Path", steps |-> steps, keep |-> keep]
NBlock(es)      == [k |-> "Block", exprs |-> es]
NArray(items)   == [k |-> "Array", items |-> items]
NObject(pairs)  == [k |-> "Object", pairs |-> pairs]
NGroup(e, pairs)== [k |-> "Group", e |-> e, pairs |-> pairs]
NCall(fn, args) == [k |-> "Call", fn |-> fn, args |-> args]
NPred(e, fs)    == [k |-> "Predicate", e |-> e, filters |-> fs]
NWild           == [k |-> "Wildcard"]
NDesc           == [k |-> "Descendent"]
NNeg(e)         == [k |-> "Negation", e |-> e]
NNumOp(op, l, r)  == [k |-> "NumOp", op |-> op, l |-> l, r |-> r]
NCmpOp(op, l, r)  == [k |-> "CmpOp", op |-> op, l |-> l, r |-> r]
NBoolOp(op, l, r) == [k |-> "BoolOp", op |-> op, l |-> l, r |-> r]
NConcat(l, r)   == [k |-> "Concat", l |-> l, r |-> r]
NRange(l, r)    == [k |-> "Range", l |-> l, r |-> r]
NNone           == [k |-> "None"]
NCond(c, th, el)== [k |-> "Cond", c |-> c, th |-> th, el |-> el]
NAssign(nm, e)  == [k |-> "Assign", nm |-> nm, e |-> e]
NLambda(ps, body) == [k |-> "Lambda", params |-> ps, body |-> body, short |-> FALSE]
NApply(l, r)    == [k |-> "Apply", l |-> l, r |-> r]
NPartial(fn, args) == [k |-> "Partial", fn |-> fn, args |-> args]
NPlace          == [k |-> "Placeholder"]
NSort(e, terms) == [k |-> "Sort", e |-> e, terms |-> terms]
NTransform(p, u, d) == [k |-> "Transform", pat |-> p, upd |-> u, del |-> d]

ka == <<97>>   kb == <<98>>   kc == <<99>>   kx == <<120>>

VARIABLES case, out
mcvars == <<case, out>>

Pending == [o |-> "pending"]

EvaluateCase == /\ out = Pending
                /\ out' = Expected(case.ast, case.inp, case.binds)
                /\ UNCHANGED case

Emit == out = Pending \/ PrintT("CASE " \o ToJson([ast |-> case.ast, inp |-> case.inp, binds |-> case.binds, exp |-> out]))

MkCase(ast, inp) == [ast |-> ast, inp |-> inp, binds |-> <<>>]
MkCaseB(ast, inp, binds) == [ast |-> ast, inp |-> inp, binds |-> binds]
=============================================================================
