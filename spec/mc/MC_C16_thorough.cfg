SPECIFICATION Spec
CONSTANTS
  MaxLen = 3
  ParamRange = 8
INVARIANTS Emit Laws LengthIsCodePoints
CHECK_DEADLOCK FALSE
