------------------------------ MODULE MC_C07F ------------------------------
(***************************************************************************)
(* C07, first clause: evaluation never modifies what the caller handed in. *)
(* Every built-in and operator that takes an array or an object is applied *)
(* to a member of the input document, to the whole document and to a bound *)
(* variable holding it, on documents for which an in-place implementation  *)
(* would be visible (unsorted, with duplicates, nested).  The replayer     *)
(* compares the caller's document and bindings before and after every      *)
(* call (frame flags input-modified / binds-modified of TraceEval), and    *)
(* the results are validated against the evaluator specification as usual. *)
(***************************************************************************)
EXTENDS MCBase

PA(s) == NPath(s, FALSE)
V(nm) == NVar(nm)
N(i) == NNum(IntV(i))
kk == <<107>>
Lam1(body) == NLambda(<<"p">>, body)
Lam2(body) == NLambda(<<"p", "q">>, body)

\* where the array / object comes from
Sources == { PA(<<NName(ka)>>), V(""), V("v"), PA(<<V("v"), NName(ka)>>), PA(<<V("$"), NName(ka)>>) }

Uses(x) == {
    NCall(V("sort"), <<x>>), NCall(V("sort"), <<x, Lam2(NCmpOp(">", V("p"), V("q")))>>), NCall(V("sort"), <<x, Lam2(NCmpOp("<", V("p"), V("q")))>>),
    NCall(V("reverse"), <<x>>), NCall(V("distinct"), <<x>>), NCall(V("shuffle"), <<x>>),
    NCall(V("append"), <<x, N(9)>>), NCall(V("append"), <<N(9), x>>), NCall(V("append"), <<x, x>>),
    NCall(V("zip"), <<x, x>>), NCall(V("map"), <<x, Lam1(V("p"))>>), NCall(V("filter"), <<x, Lam1(NBool(TRUE))>>),
    NCall(V("reduce"), <<x, Lam2(V("q"))>>), NCall(V("count"), <<x>>), NCall(V("sum"), <<x>>), NCall(V("max"), <<x>>), NCall(V("min"), <<x>>), NCall(V("average"), <<x>>),
    NCall(V("join"), <<x>>), NCall(V("string"), <<x>>), NCall(V("keys"), <<x>>), NCall(V("spread"), <<x>>), NCall(V("merge"), <<x>>),
    NCall(V("merge"), <<NArray(<<x, NObject(<< <<NStr(ka), N(0)>> >>)>>)>>), NCall(V("lookup"), <<x, NStr(ka)>>),
    NCall(V("each"), <<x, Lam2(V("p"))>>), NCall(V("sift"), <<x, Lam1(NBool(TRUE))>>), NCall(V("single"), <<x, Lam1(NCmpOp("=", V("p"), N(3)))>>),
    NSort(x, <<[dir |-> "", e |-> V("")]>>), NSort(x, <<[dir |-> ">", e |-> V("")]>>), NSort(x, <<[dir |-> "", e |-> PA(<<NName(kb)>>)]>>),
    NGroup(x, << <<NCall(V("string"), <<V("")>>), V("")>> >>), NGroup(x, << <<NStr(kk), V("")>> >>),
    NPred(x, <<N(0)>>), NPred(x, <<N(0 - 1)>>), NArray(<<x>>), NArray(<<x, x>>), NObject(<< <<NStr(kk), x>> >>),
    NBlock(<<NAssign("w", x), NCall(V("sort"), <<V("w")>>)>>),
    NBlock(<<NAssign("w", NCall(V("sort"), <<x>>)), NArray(<<V("w"), x>>)>>),
    NBlock(<<NAssign("w", NCall(V("reverse"), <<x>>)), NArray(<<NCall(V("append"), <<V("w"), N(7)>>), x>>)>>),
    NApply(x, V("sort")), NApply(x, V("reverse")), NApply(NApply(x, V("sort")), V("reverse")),
    NCall(V("sort"), <<NCall(V("append"), <<x, N(0)>>)>>), NCall(V("reverse"), <<NCall(V("sort"), <<x>>)>>)
}

O(b) == Obj(<< <<kb, IntV(b)>> >>)
Docs == { Obj(<< <<ka, Arr(<<IntV(3), IntV(1), IntV(2)>>)>> >>),
          Obj(<< <<ka, Arr(<<IntV(2), IntV(2), IntV(1)>>)>> >>),
          Obj(<< <<ka, Arr(<<Str(<<99>>), Str(<<97>>), Str(<<98>>)>>)>> >>),
          Obj(<< <<ka, Arr(<<O(2), O(1), O(2)>>)>> >>),
          Obj(<< <<ka, Arr(<<Arr(<<IntV(2), IntV(1)>>), Arr(<<IntV(0)>>)>>)>> >>),
          Obj(<< <<ka, Obj(<< <<ka, IntV(1)>>, <<kb, IntV(2)>> >>)>> >>),
          Arr(<<IntV(3), IntV(1), IntV(2)>>),
          Arr(<<O(2), O(1)>>),
          Obj(<< <<ka, Arr(<<IntV(5)>>)>> >>) }

Init == /\ \E x \in Sources, d \in Docs : \E u \in Uses(x) : case = MkCaseB(u, d, << <<"v", d>> >>)
        /\ out = Pending
Next == EvaluateCase
Spec == Init /\ [][Next]_mcvars
=============================================================================
