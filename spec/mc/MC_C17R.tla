------------------------------ MODULE MC_C17R ------------------------------
(***************************************************************************)
(* C17 - which regular-expression literals exist.  Pattern texts (empty,   *)
(* well-formed, malformed in every way RE2 distinguishes) x every subset   *)
(* of the flags i, m, s x every place a literal can stand.  The engine is  *)
(* an environment: the harness records whether RE2 accepts the pattern     *)
(* text; TraceEval demands that a literal whose pattern is empty or that   *)
(* the engine rejects is a compile error, with or without flags, and       *)
(* validates the evaluation of the others as usual.                        *)
(***************************************************************************)
EXTENDS Naturals, Sequences, TLC, Json

VARIABLES c, done
vars == <<c, done>>

Patterns == { <<>>,
    <<97>>, <<97, 124, 98>>, <<40, 97, 41>>, <<91, 97, 45, 99, 93>>, <<97, 123, 50, 125>>, <<97, 47, 98>>, <<92, 100, 43>>, <<94, 97, 36>>, <<40, 63, 58, 97, 41>>, <<46, 42>>, <<97, 63>>, <<40, 63, 105, 41, 97>>,
    \* (   )   a**   [a   a{2,1}   *a   (?<n   \   a|*   (?P=a)   [z-a]   \1   (?=a)   a{1001}   +   (?x   a)(   \p{Foo}   [[:foo:]]   \8
    <<40>>, <<41>>, <<97, 42, 42>>, <<91, 97>>, <<97, 123, 50, 44, 49, 125>>, <<42, 97>>, <<40, 63, 60, 110>>, <<92>>, <<97, 124, 42>>, <<40, 63, 80, 61, 97, 41>>, <<91, 122, 45, 97, 93>>,
    <<92, 49>>, <<40, 63, 61, 97, 41>>, <<97, 123, 49, 48, 48, 49, 125>>, <<43>>, <<40, 63, 120>>, <<97, 41, 40>>, <<92, 112, 123, 70, 111, 111, 125>>, <<91, 91, 58, 102, 111, 111, 58, 93, 93>>, <<92, 56>> }
FlagSets == { <<>>, <<105>>, <<109>>, <<115>>, <<105, 109>>, <<109, 115>>, <<105, 115>>, <<105, 109, 115>>, <<115, 105>> }
Uses == { "match", "contains", "split", "replace", "call", "assign", "bare", "map", "arg" }

Init == /\ \E p \in Patterns, f \in FlagSets, u \in Uses : c = [mode |-> "", fam |-> "C17", flags |-> [rxp |-> p, rxf |-> f, rxuse |-> u],
                                                                  inp |-> [t |-> "str", s |-> <<97, 97, 98, 47, 50, 49>>]]
        /\ done = FALSE
Next == ~done /\ done' = TRUE /\ UNCHANGED c
Spec == Init /\ [][Next]_vars
Emit == done => PrintT("CASE " \o ToJson(c))
=============================================================================
