------------------------------- MODULE MC_C14 -------------------------------
(***************************************************************************)
(* C14 - object construction, grouping and the object functions.           *)
(* Groupings whose key expression maps items onto 1..4 distinct strings    *)
(* (collisions, absent keys, non-string keys), values = members, aggregates*)
(* or nested constructors, 1..2 pairs (duplicate keys across pairs);       *)
(* object functions and their identities over all objects of <= MaxMembers *)
(* members drawn from a small domain.                                      *)
(***************************************************************************)
EXTENDS MCBase

CONSTANTS MaxItems, MaxMembersC

ks == <<115>>  kt == <<116>>  kid == <<105, 100>>  kk == <<107>>
PA(s) == NPath(s, FALSE)
S == PA(<<NName(ks)>>)  T == PA(<<NName(kt)>>)  ID == PA(<<NName(kid)>>)  K == PA(<<NName(kk)>>)

\* items: id plus a grouping member s (a string, absent, or a non-string) and a second member t
SVals == {Undef, Str(kx), Str(<<121>>), Str(<<122>>), IntV(5)}
TVals == {Undef, Str(kx), Str(<<119>>)}
It(i, sv, tv) == Obj(ObjFromPairs(<< <<kid, IntV(i)>>, <<kk, IntV(i * 2)>> >> \o (IF IsUndef(sv) THEN <<>> ELSE << <<ks, sv>> >>) \o (IF IsUndef(tv) THEN <<>> ELSE << <<kt, tv>> >>)))
\* up to three items with every combination of both members; longer arrays vary the grouping member only
Arrays(n) == IF n <= 3 THEN {Arr([i \in 1..n |-> It(i, f[i][1], f[i][2])]) : f \in [1..n -> SVals \X TVals]}
             ELSE {Arr([i \in 1..n |-> It(i, f[i], IF i % 2 = 0 THEN Undef ELSE Str(kx))]) : f \in [1..n -> SVals]}
AllArrays == UNION {Arrays(n) : n \in 0..MaxItems}

Pair(k, v) == <<k, v>>
KeyExprs == {S, NCall(NVar("string"), <<S>>), NConcat(S, T)}
ValExprs == {ID, NCall(NVar("count"), <<NVar("")>>), NCall(NVar("sum"), <<K>>), NArray(<<ID>>), NObject(<< Pair(NStr(ka), ID) >>), NVar(""), T}
GroupProgs == {NGroup(NVar(""), << Pair(k, v) >>) : k \in KeyExprs, v \in ValExprs}
              \cup {NGroup(NVar(""), << Pair(S, ID), Pair(T, K) >>), NGroup(NVar(""), << Pair(S, ID), Pair(NStr(kx), K) >>), NGroup(NVar(""), << Pair(NStr(kx), K), Pair(S, ID) >>),
                    NGroup(NVar(""), << Pair(NStr(<<121>>), K), Pair(T, ID), Pair(S, K) >>),
                    NGroup(NVar(""), << Pair(NStr(ka), ID), Pair(NStr(kb), NCall(NVar("count"), <<NVar("")>>)) >>),
                    NGroup(NVar(""), << Pair(NStr(ka), ID), Pair(NStr(ka), K) >>),
                    NGroup(PA(<<NVar(""), NName(kk)>>), << Pair(NCall(NVar("string"), <<NVar("")>>), NVar("")) >>),
                    PA(<<NGroup(NVar(""), << Pair(S, ID) >>), NName(kx)>>),
                    \* a grouping of a variable followed by a further step: the path is anchored at the variable, the sequence
                    \* is grouped once (its members are counted over all items, and the result is not repeated per context item)
                    PA(<<NGroup(NVar(""), << Pair(S, NCall(NVar("count"), <<NVar("")>>)) >>), NName(kx)>>),
                    PA(<<NGroup(NPred(NVar(""), <<NCmpOp(">", ID, NNum(IntV(0)))>>), << Pair(S, NCall(NVar("count"), <<NVar("")>>)) >>), NName(kx)>>),
                    PA(<<NGroup(NVar("$"), << Pair(S, NArray(<<ID>>)) >>), NName(kx)>>),
                    NBlock(<<NAssign("v", NVar("")), PA(<<NGroup(NVar("v"), << Pair(S, NCall(NVar("sum"), <<K>>)) >>), NName(kx)>>)>>) }

\* grouping an ordered sequence: each member's value is v over the group's items in the order the order-by gave them
Desc(e) == NSort(NVar(""), <<[dir |-> ">", e |-> e]>>)
SortedGroupProgs == { NGroup(Desc(ID), << Pair(k, v) >>) : k \in {S, NStr(kx)}, v \in {ID, NArray(<<ID>>), NCall(NVar("join"), <<NCall(NVar("string"), <<ID>>)>>)} }
                    \cup { NGroup(NSort(NVar(""), <<[dir |-> "", e |-> S], [dir |-> ">", e |-> ID]>>), << Pair(S, ID) >>),
                           PA(<<NGroup(Desc(ID), << Pair(S, ID) >>), NName(kx)>>),
                           NGroup(NSort(NPred(NVar(""), <<NCmpOp(">", ID, NNum(IntV(1)))>>), <<[dir |-> ">", e |-> ID]>>), << Pair(S, ID) >>) }
SortArrays == {Arr([i \in 1..3 |-> It(i, f[i], Undef)]) : f \in [1..3 -> SVals]}

\* one item as the whole context (not an array): the same groupings, standalone constructors and constructor steps, with
\* key collisions between pairs whose earlier value is absent, present, literal or computed
Nope == PA(<<NName(<<110, 111>>)>>)
SingleItems == {It(1, sv, tv) : sv \in SVals, tv \in TVals}
CtorPairs == { << Pair(NStr(ka), Nope), Pair(NStr(ka), K) >>, << Pair(NStr(ka), K), Pair(NStr(ka), Nope) >>, << Pair(NStr(ka), Nope), Pair(NStr(ka), Nope) >>,
               << Pair(S, Nope), Pair(T, K) >>, << Pair(S, T), Pair(NStr(kx), K) >>, << Pair(NStr(kx), Nope), Pair(S, ID) >>, << Pair(S, ID), Pair(T, Nope) >>,
               << Pair(S, ID), Pair(NCall(NVar("string"), <<S>>), K) >>, << Pair(NStr(ka), ID), Pair(NStr(kb), Nope), Pair(NStr(ka), K) >>,
               << Pair(S, ID) >>, << Pair(ID, K) >>, << Pair(NStr(ka), Nope) >> }
SingleProgs == UNION { { NObject(ps), NGroup(NVar(""), ps), PA(<<NVar(""), NObject(ps)>>), NGroup(NPred(NArray(<<NVar("")>>), <<NNum(IntV(0))>>), ps),
                         PA(<<NArray(<<NVar(""), NVar("")>>), NObject(ps)>>) } : ps \in CtorPairs }

\* objects for the object functions
MemVals == {IntV(1), Str(kx), Arr(<<IntV(1), IntV(2)>>), Obj(<< <<ka, IntV(1)>> >>)}
Keys3 == <<ka, kb, kc>>
Objs == UNION {{Obj([i \in 1..n |-> <<Keys3[i], f[i]>>]) : f \in [1..n -> MemVals]} : n \in 0..MaxMembersC}
O == NVar("")
FnProgs == {
    NCall(NVar("keys"), <<O>>), NCall(NVar("spread"), <<O>>), NCall(NVar("merge"), <<NCall(NVar("spread"), <<O>>)>>),
    NCmpOp("=", NCall(NVar("merge"), <<NCall(NVar("spread"), <<O>>)>>), O),
    NCmpOp("=", NCall(NVar("count"), <<NCall(NVar("keys"), <<O>>)>>), NCall(NVar("count"), <<NCall(NVar("spread"), <<O>>)>>)),
    NCmpOp("=", NCall(NVar("lookup"), <<O, NStr(ka)>>), PA(<<NVar(""), NName(ka)>>)),
    NCall(NVar("lookup"), <<O, NStr(kb)>>),
    NCall(NVar("each"), <<O, NLambda(<<"v", "k">>, NConcat(NVar("k"), NCall(NVar("string"), <<NVar("v")>>)))>>),
    NCall(NVar("count"), <<NCall(NVar("each"), <<O, NLambda(<<"v">>, NNum(IntV(1)))>>)>>),
    \* callbacks that yield nothing for some members: every other member still appears exactly once, and nothing else does
    NCall(NVar("each"), <<O, NLambda(<<"v", "k">>, NCond(NCmpOp("=", NVar("v"), NNum(IntV(1))), NVar("k"), NNone))>>),
    NCall(NVar("each"), <<O, NLambda(<<"v", "k">>, NCond(NCmpOp("!=", NVar("k"), NStr(ka)), NVar("k"), NNone))>>),
    NCall(NVar("each"), <<O, NLambda(<<"v">>, PA(<<NVar("v"), NName(ka)>>))>>),
    NCall(NVar("count"), <<NCall(NVar("each"), <<O, NLambda(<<"v", "k">>, NCond(NCmpOp("!=", NVar("k"), NStr(kb)), NVar("v"), NNone))>>)>>),
    NCall(NVar("sift"), <<O, NLambda(<<"v", "k">>, NCmpOp("!=", NVar("k"), NStr(ka)))>>),
    NCall(NVar("sift"), <<O, NLambda(<<"v">>, NCmpOp("=", NVar("v"), NNum(IntV(1))))>>),
    NCall(NVar("merge"), <<NArray(<<O, NObject(<< Pair(NStr(ka), NNum(IntV(9))) >>)>>)>>),
    NCall(NVar("merge"), <<NArray(<<NObject(<< Pair(NStr(ka), NNum(IntV(9))) >>), O>>)>>),
    NCall(NVar("keys"), <<NArray(<<O, NObject(<< Pair(NStr(<<122>>), NNum(IntV(9))) >>), O>>)>>),
    NObject(<< Pair(NStr(ka), PA(<<NName(ka)>>)), Pair(NStr(<<110>>), PA(<<NName(<<110, 111>>)>>)) >>),
    NCall(NVar("type"), <<O>>),
    \* later objects take precedence member by member: a nested object is replaced, not merged into
    NCall(NVar("merge"), <<NArray(<<O, NObject(<< Pair(NStr(ka), NObject(<< Pair(NStr(kb), NNum(IntV(9))) >>)) >>)>>)>>),
    NCall(NVar("merge"), <<NArray(<<NObject(<< Pair(NStr(ka), NObject(<< Pair(NStr(kb), NNum(IntV(9))) >>)) >>), O>>)>>),
    NCall(NVar("merge"), <<NArray(<<NObject(<< Pair(NStr(kc), O) >>), NObject(<< Pair(NStr(kc), NObject(<< Pair(NStr(<<122>>), NNum(IntV(9))) >>)) >>)>>)>>),
    NCall(NVar("merge"), <<NArray(<<O, O>>)>>),
    \* three and more objects of growing size: the last occurrence of a name wins
    NCall(NVar("merge"), <<NArray(<<NObject(<< Pair(NStr(ka), NNum(IntV(7))) >>), NObject(<< Pair(NStr(ka), NNum(IntV(8))) >>), NObject(<< Pair(NStr(kb), NNum(IntV(1))), Pair(NStr(kc), NNum(IntV(2))) >>)>>)>>),
    NCall(NVar("merge"), <<NArray(<<NObject(<< Pair(NStr(ka), NNum(IntV(7))) >>), O, NObject(<< Pair(NStr(ka), NNum(IntV(8))) >>), NObject(<< Pair(NStr(kb), NNum(IntV(1))), Pair(NStr(kc), NNum(IntV(2))), Pair(NStr(<<122>>), NNum(IntV(3))) >>)>>)>>),
    NCall(NVar("merge"), <<NArray(<<O, NObject(<< Pair(NStr(kb), NNum(IntV(7))) >>), O, NObject(<< Pair(NStr(ka), NNum(IntV(9))), Pair(NStr(kb), NNum(IntV(9))), Pair(NStr(kc), NNum(IntV(9))), Pair(NStr(<<122>>), NNum(IntV(9))) >>), NObject(<< Pair(NStr(kb), NNum(IntV(5))) >>)>>)>>),
    \* arrays of objects, with empty objects and non-objects among them
    NCall(NVar("spread"), <<NArray(<<O, NObject(<<>>), O>>)>>), NCall(NVar("spread"), <<NArray(<<NObject(<<>>), O>>)>>), NCall(NVar("spread"), <<NArray(<<NObject(<<>>)>>)>>),
    NCall(NVar("count"), <<NCall(NVar("spread"), <<NArray(<<NObject(<<>>), O, NObject(<<>>)>>)>>)>>),
    NCall(NVar("spread"), <<NArray(<<O, NNum(IntV(1)), NStr(kx)>>)>>), NCall(NVar("spread"), <<NNum(IntV(1))>>),
    NCall(NVar("merge"), <<NArray(<<NObject(<<>>), O, NObject(<<>>)>>)>>), NCall(NVar("merge"), <<NArray(<<>>)>>), NCall(NVar("merge"), <<O>>),
    NCall(NVar("keys"), <<NArray(<<NObject(<<>>), O>>)>>), NCall(NVar("keys"), <<NObject(<<>>)>>),
    NCall(NVar("lookup"), <<NArray(<<O, NObject(<<>>), O>>), NStr(ka)>>), NCall(NVar("lookup"), <<NArray(<<O, NObject(<< Pair(NStr(kb), NNum(IntV(7))) >>)>>), NStr(kb)>>),
    NCall(NVar("lookup"), <<NArray(<<NObject(<< Pair(NStr(ka), NNum(IntV(1))) >>), NObject(<< Pair(NStr(kb), NNum(IntV(2))) >>)>>), NStr(ka)>>),
    \* ... with array-valued members: the lookup is the field selection (one flat sequence)
    NCall(NVar("lookup"), <<NArray(<<O, O>>), NStr(ka)>>), NCall(NVar("lookup"), <<NArray(<<O, NObject(<< Pair(NStr(ka), NArray(<<NNum(IntV(7))>>)) >>)>>), NStr(ka)>>),
    NCmpOp("=", NCall(NVar("lookup"), <<NArray(<<O, NObject(<< Pair(NStr(ka), NArray(<<NNum(IntV(7)), NNum(IntV(8))>>)) >>)>>), NStr(ka)>>),
                NPath(<<NArray(<<O, NObject(<< Pair(NStr(ka), NArray(<<NNum(IntV(7)), NNum(IntV(8))>>)) >>)>>), NName(ka)>>, FALSE)),
    NCall(NVar("lookup"), <<NArray(<<NObject(<< Pair(NStr(ka), NArray(<<>>)) >>), O>>), NStr(ka)>>),
    NCall(NVar("each"), <<NObject(<<>>), NLambda(<<"v">>, NVar("v"))>>), NCall(NVar("sift"), <<NObject(<<>>), NLambda(<<"v">>, NBool(TRUE))>>),
    NCall(NVar("each"), <<O, NLambda(<<"v", "k", "o">>, NCmpOp("=", NVar("o"), O))>>) }

Init == /\ \/ \E p \in GroupProgs, a \in AllArrays : case = MkCase(p, a)
           \/ \E p \in GroupProgs \cup SingleProgs, it \in SingleItems : case = MkCase(p, it)
           \/ \E p \in FnProgs, o \in Objs : case = MkCase(p, o)
           \/ \E p \in SortedGroupProgs, a \in SortArrays : case = MkCase(p, a)
        /\ out = Pending
Next == EvaluateCase
Spec == Init /\ [][Next]_mcvars

\* the identities of the statement hold in the specification itself
Identities == (out # Pending /\ case.ast.k = "CmpOp" /\ case.ast.op = "=" /\ case.inp.t = "obj" /\ out.o = "val") =>
                 (out.r = Bool(TRUE) \/ (case.ast.l.k = "Call" /\ case.ast.l.fn.nm = "lookup" /\ ~ObjHas(case.inp, ka)))
\* partition law: with a single pair whose value is the list of ids, every item with a string key lands in exactly one group
kidv(x) == ObjGet(x, kid)
Partition ==
    (out # Pending /\ case.ast = NGroup(NVar(""), << Pair(S, NArray(<<ID>>)) >>) /\ case.inp.t = "arr" /\ out.o = "val") =>
        LET ids == SeqConcatAll([i \in 1..Len(out.r.m) |-> out.r.m[i][2].v])
        IN  /\ Len(ids) = Len(case.inp.v)
            /\ \A x \in 1..Len(case.inp.v) : \E y \in 1..Len(ids) : ids[y] = kidv(case.inp.v[x])
            /\ \A g \in 1..Len(out.r.m) : \A i \in 1..Len(out.r.m[g][2].v) - 1 : out.r.m[g][2].v[i].n < out.r.m[g][2].v[i + 1].n
=============================================================================
