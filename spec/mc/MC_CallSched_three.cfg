SPECIFICATION SSpec
CONSTANTS
  Gs = {1, 2, 3}
  Tree <- Tree3
  Fns = {"f", "h"}
  Shared = FALSE
INVARIANTS OwnContext EmitSchedule
CHECK_DEADLOCK FALSE
