------------------------------- MODULE MC_C02 -------------------------------
(***************************************************************************)
(* C02 - predicates.  Exhaustive for array lengths 0..MaxLen and positions *)
(* -7..7 in steps of 0.5 (index rule with floor and negative wrap-around), *)
(* boolean-cast predicates over mixed elements, index arrays (literal and  *)
(* read from the document), every head shape, stacking up to three deep.   *)
(***************************************************************************)
EXTENDS MCBase

CONSTANTS MaxLen, Stack3

Half(n) == Num(n, 2)
Positions == {Half(n) : n \in (0 - 14)..14}
SmallPos == {IntV(0 - 2), IntV(0 - 1), IntV(0), IntV(1), IntV(2), Half(1), Half(0 - 3), IntV(5)}

NumArr(k) == Arr([i \in 1..k |-> IntV(10 * i)])
\* elements that are themselves arrays, objects, strings
MixedEls == {IntV(1), IntV(2), Str(kx), Obj(<< <<kb, IntV(1)>> >>), Obj(<< <<kb, IntV(2)>> >>), Arr(<<IntV(1)>>), Arr(<<>>), Arr(<<IntV(0), IntV(5)>>)}
MixedArrs == {Arr(<<>>)} \cup {Arr(<<x>>) : x \in MixedEls} \cup {Arr(<<x, y>>) : x \in MixedEls, y \in MixedEls}
             \cup {Arr(<<x, y, IntV(2)>>) : x \in MixedEls, y \in MixedEls}

A == NName(ka)   B == NName(kb)
PA(steps) == NPath(steps, FALSE)
DocA(x) == Obj(<< <<ka, x>> >>)

\* predicate expressions
NumPreds == {NNum(p) : p \in Positions}
PairPreds == {NArray(<<NNum(p), NNum(q)>>) : p \in SmallPos, q \in SmallPos}
CtxVar == NVar("")
BoolPreds == {
    NCmpOp("=", CtxVar, NNum(IntV(1))), NCmpOp("!=", CtxVar, NStr(kx)), NCmpOp(">", CtxVar, NNum(IntV(1))),
    NCmpOp("=", PA(<<B>>), NNum(IntV(1))), PA(<<B>>), NStr(kx), NStr(<<>>), NObject(<<>>), PA(<<NName(kc)>>),
    NBoolOp("or", NCmpOp("=", PA(<<B>>), NNum(IntV(1))), NCmpOp("=", PA(<<B>>), NNum(IntV(2)))),
    NBoolOp("and", NCmpOp("!=", CtxVar, NStr(kx)), NCmpOp("!=", CtxVar, NNum(IntV(2)))),
    NBool(TRUE), NBool(FALSE), NNull,
    \* the context item itself and a path that starts at it; objects whose members are all falsy (a non-empty object is true)
    CtxVar, PA(<<CtxVar, B>>), PA(<<CtxVar>>), NObject(<< <<NStr(ka), NNum(IntV(0))>> >>), NObject(<< <<NStr(ka), NStr(<<>>)>>, <<NStr(kb), NBool(FALSE)>> >>),
    NObject(<< <<NStr(ka), PA(<<B>>)>> >>), NArray(<<NBool(FALSE), NStr(kx)>>), NArray(<<NStr(kx), NBool(FALSE)>>), NArray(<<NBool(FALSE), NStr(<<>>)>>),
    \* computed numbers
    NNumOp("-", NNum(IntV(1)), NNum(IntV(2))), NCall(NVar("count"), <<CtxVar>>),
    NNumOp("-", CtxVar, NNum(IntV(1))), NNumOp("/", CtxVar, NNum(IntV(10))),
    \* index array read from the document, and a predicate that is an array of mixed things
    PA(<<NVar("$"), NName(<<105, 100, 120>>)>>), NArray(<<NNum(IntV(0)), NStr(kx)>>), NArray(<<>>) }

\* head shapes: how a predicate list `fs` is attached
Heads == {"name", "block", "var", "cons", "call", "laststep", "midstep", "wholepath", "ctx", "ctxstep", "varstep"}
Prog(h, fs) ==
    CASE h = "name"      -> PA(<<NPred(A, fs)>>)                                      \* a[p][q]      stacked
      [] h = "laststep"  -> PA(<<NName(kc), NPred(A, fs)>>)                           \* c.a[p]       per context item
      [] h = "midstep"   -> PA(<<NPred(NName(kc), fs), A>>)                           \* c[p].a
      [] h = "wholepath" -> NPred(NBlock(<<PA(<<NName(kc), A>>)>>), fs)               \* (c.a)[p]
      [] h = "block"     -> NPred(NBlock(<<PA(<<A>>)>>), fs)                          \* (a)[p]
      [] h = "var"       -> NPred(NVar("v"), fs)                                      \* $v[p]
      [] h = "ctx"       -> NPred(NVar(""), fs)                                       \* $[p]
      [] h = "ctxstep"   -> PA(<<NPred(NVar(""), fs), B>>)                            \* $[p].b      a path anchored at the context item ...
      [] h = "varstep"   -> PA(<<NPred(NVar("v"), fs), B>>)                           \* $v[p].b     ... and at a variable, while the input is another array
      [] h = "cons"      -> NPred(NArray(<<PA(<<A>>)>>), fs)                          \* [a][p]
      [] h = "call"      -> NPred(NCall(NVar("append"), <<PA(<<A>>), NArray(<<>>)>>), fs)
\* non-path heads stack as nested predicates (F6); the parser produces that shape
RECURSIVE Nest(_, _)
Nest(e, fs) == IF fs = <<>> THEN e ELSE Nest(NPred(e, <<Head(fs)>>), Tail(fs))
Prog2(h, fs) == IF h \in {"name", "laststep", "midstep"} THEN Prog(h, fs)
                ELSE IF h \in {"ctxstep", "varstep"} THEN PA(<<Nest(Prog(h, <<Head(fs)>>).steps[1].e, fs), B>>)
                ELSE Nest(Prog(h, <<Head(fs)>>).e, fs)

Idx == <<105, 100, 120>>
DocFor(h, x) ==
    CASE h \in {"name", "block", "cons", "call"} -> Obj(<< <<ka, x>>, <<Idx, Arr(<<IntV(0), IntV(2)>>)>> >>)
      [] h \in {"laststep", "wholepath"} -> Obj(<< <<kc, Arr(<<DocA(x), DocA(Arr(<<IntV(7), IntV(8)>>))>>)>> >>)
      [] h = "midstep" -> Obj(<< <<kc, Arr(<<DocA(x), DocA(IntV(7)), DocA(x)>>)>> >>)
      [] h \in {"var", "ctx", "ctxstep"} -> x
      [] h = "varstep" -> Arr(<<IntV(7), IntV(8), IntV(9)>>)
Binds(h, x) == IF h \in {"var", "varstep"} THEN << <<"v", x>> >> ELSE <<>>

Case(h, fs, x) == MkCaseB(Prog2(h, fs), DocFor(h, x), Binds(h, x))

StackQs == {NNum(IntV(0)), NNum(IntV(0 - 1)), NNum(Half(1)), NNum(IntV(1)), NCmpOp(">", CtxVar, NNum(IntV(10))), NBool(TRUE)}

Init == /\ \/ \E h \in Heads, k \in 0..MaxLen, p \in NumPreds : case = Case(h, <<p>>, NumArr(k))
           \/ \E h \in Heads, k \in 0..MaxLen, p \in PairPreds : case = Case(h, <<p>>, NumArr(k))
           \/ \E h \in Heads, x \in MixedArrs, p \in BoolPreds : case = Case(h, <<p>>, x)
           \/ \E h \in Heads, k \in 0..MaxLen, p \in BoolPreds : case = Case(h, <<p>>, NumArr(k))
           \/ \E h \in Heads, k \in 0..MaxLen, p \in NumPreds \cup BoolPreds, q \in StackQs : case = Case(h, <<p, q>>, NumArr(k))
           \/ \E h \in Heads, x \in MixedArrs, p \in StackQs, q \in StackQs : case = Case(h, <<p, q>>, x)
           \/ (Stack3 /\ \E h \in Heads, k \in 2..MaxLen, p \in StackQs, q \in StackQs, r \in StackQs : case = Case(h, <<p, q, r>>, NumArr(k)))
           \/ (Stack3 /\ \E h \in Heads, x \in MixedArrs, p \in StackQs, q \in StackQs, r \in StackQs : case = Case(h, <<p, q, r>>, x))
           \* a scalar counts as a one-item list
           \/ \E h \in Heads, x \in {IntV(5), Str(kx), Obj(<< <<kb, IntV(1)>> >>)}, p \in NumPreds \cup BoolPreds : case = Case(h, <<p>>, x)
        /\ out = Pending
Next == EvaluateCase
Spec == Init /\ [][Next]_mcvars

\* theorem: out-of-range positions select nothing / the kept list is drawn from the items
RECURSIVE Contains(_, _)
Contains(hay, x) == JEq(hay, x) \/ (IsArr(hay) /\ \E i \in 1..Len(hay.v) : Contains(hay.v[i], x))
                    \/ (IsObj(hay) /\ \E i \in 1..Len(hay.m) : Contains(hay.m[i][2], x))
NothingInvented == (out.o = "val" /\ out.r.t \in {"num", "str"}) => (Contains(case.inp, out.r) \/ \E i \in 1..Len(case.binds) : Contains(case.binds[i][2], out.r))
=============================================================================
