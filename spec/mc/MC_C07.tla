------------------------------- MODULE MC_C07 -------------------------------
(***************************************************************************)
(* C07 - the transform operator returns a modified copy.  Exhaustive over  *)
(* patterns x update clauses x delete clauses x application forms x a pool *)
(* of documents (nested objects, arrays of objects, objects in arrays in   *)
(* objects).  The replayer compares the caller's document before/after.    *)
(***************************************************************************)
EXTENDS MCBase

CONSTANT Nested

PA(s) == NPath(s, FALSE)
A == NName(ka)   B == NName(kb)
kz == <<122>>    kn == <<110>>

Patterns == { NVar(""), PA(<<A>>), PA(<<A, B>>), NWild, NDesc, PA(<<NPred(A, <<NCmpOp("=", PA(<<B>>), NNum(IntV(1)))>>)>>),
              NVar("$"), NVar("v"), PA(<<NVar("$"), A>>), PA(<<NName(kc)>>), NPred(NVar(""), <<NNum(IntV(0))>>) }
Updates == { NObject(<< <<NStr(kz), NNum(IntV(1))>> >>),
             NObject(<< <<NStr(kb), NNum(IntV(9))>> >>),
             NObject(<< <<NStr(kn), PA(<<B>>)>> >>),
             NObject(<< <<NStr(kz), NObject(<< <<NStr(kb), NNum(IntV(1))>> >>)>> >>),
             NObject(<< <<NStr(kz), NObject(<< <<NStr(<<121>>), NArray(<<NVar("")>>)>> >>)>> >>), NObject(<< <<NStr(kz), NArray(<<NArray(<<NVar("")>>), NArray(<<NStr(kx)>>)>>)>> >>),
             NObject(<< <<NStr(kz), NVar("")>> >>), NObject(<< <<NStr(kz), NVar("$")>> >>), NObject(<< <<NStr(kz), NArray(<<NVar(""), PA(<<B>>)>>)>> >>),
             \* members whose value is null are members: set like any other
             NObject(<< <<NStr(kb), NNull>> >>), NObject(<< <<NStr(kz), NNull>> >>), NObject(<< <<NStr(<<121>>), NNull>>, <<NStr(kz), NNum(IntV(1))>> >>),
             NObject(<<>>), NNum(IntV(5)), NStr(kx), PA(<<NName(<<110, 111>>)>>), NArray(<<NObject(<< <<NStr(kz), NNum(IntV(1))>> >>)>>) }
Deletes == { NNone, NStr(kb), NArray(<<NStr(ka), NStr(kb)>>), NNum(IntV(1)), NStr(<<110, 111>>), NArray(<<NStr(kb), NNum(IntV(1))>>),
             PA(<<NName(<<110, 111>>)>>) }

O1 == Obj(<< <<kb, IntV(1)>> >>)
O2 == Obj(<< <<kb, IntV(2)>> >>)
DocPool == { Obj(<< <<ka, O1>> >>),
             Obj(<< <<ka, Arr(<<O1, O2>>)>>, <<kb, IntV(1)>> >>),
             Obj(<< <<ka, Obj(<< <<kb, O1>> >>)>> >>),
             Obj(<< <<ka, Arr(<<Arr(<<O1>>), IntV(3)>>)>>, <<kc, O1>> >>),
             Arr(<<Obj(<< <<ka, O1>> >>), O2>>),
             Obj(<<>>), IntV(5), Arr(<<>>) }

T(p, u, d) == NTransform(p, u, d)
Forms == {"apply", "map", "call", "twice", "chain", "reuse"}
Prog(form, t) ==
    CASE form = "apply" -> NApply(NVar(""), t)
      [] form = "map"   -> NCall(NVar("map"), <<PA(<<A>>), t>>)
      [] form = "call"  -> NBlock(<<NAssign("t", t), NArray(<<NCall(NVar("t"), <<NVar("")>>), NVar("")>>)>>)
      [] form = "twice" -> NApply(NApply(NVar(""), t), t)
      \* a transform value composed with another one and then used again on its own
      [] form = "reuse" -> NBlock(<<NAssign("t", t),
                                    NAssign("both", NApply(NTransform(NVar(""), NObject(<< <<NStr(<<121>>), NNum(IntV(2))>> >>), NNone), NVar("t"))),
                                    NArray(<<NCall(NVar("both"), <<NVar("")>>), NCall(NVar("t"), <<NVar("")>>), NApply(NVar(""), NVar("t"))>>)>>)
      [] form = "chain" -> NApply(NVar(""), NBlock(<<NApply(t, NTransform(NVar(""), NObject(<< <<NStr(<<121>>), NNum(IntV(2))>> >>), NNone))>>))

Init == /\ \/ \E f \in Forms, p \in Patterns, u \in Updates, d \in Deletes, doc \in DocPool :
                 case = MkCaseB(Prog(f, T(p, u, d)), doc, << <<"v", doc>> >>)
           \/ (Nested /\ \E p \in Patterns, p2 \in Patterns, u \in Updates, doc \in DocPool :
                 case = MkCaseB(NApply(NVar(""), T(p, NObject(<< <<NStr(kc), NApply(NVar(""), T(p2, u, NNone))>> >>), NNone)), doc, << <<"v", doc>> >>))
        /\ out = Pending
Next == EvaluateCase
Spec == Init /\ [][Next]_mcvars

\* theorem: applied to an object with an update that is an object and a pattern that selects
\* nothing, the transform is the identity
IdentityWhenNothingSelected ==
    (out # Pending /\ case.ast.k = "Apply" /\ case.ast.r.k = "Transform" /\ case.ast.r.pat = PA(<<NName(kc)>>)
     /\ case.inp.t = "obj" /\ ~ObjHas(case.inp, kc) /\ out.o = "val") => out.r = case.inp
=============================================================================
