SPECIFICATION CallSpec
CONSTANTS
  Gs = {1, 2, 3}
  Tree <- Tree3
  Fns = {"f", "h"}
  Shared = FALSE
INVARIANT OwnContext
PROPERTY AllDone
CHECK_DEADLOCK FALSE
