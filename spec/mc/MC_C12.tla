------------------------------- MODULE MC_C12 -------------------------------
(***************************************************************************)
(* C12 - lexical scoping, closures, signatures, partial application,       *)
(* chaining, context item of built-ins.                                    *)
(*  (a) every signature of 1..MaxParams parameters over the type letters,  *)
(*      a union, array subtypes and the options ? + -  against argument    *)
(*      lists of length 0..MaxArgs over every value kind;                  *)
(*  (b) scoping/closure programs parameterised over values;                *)
(*  (c) partial applications with placeholders in every position;          *)
(*  (d) chains of length 1..3 mixing values, calls, bare functions,        *)
(*      partials and lambdas;                                              *)
(*  (e) context-defaulting built-ins nested in each other's arguments.     *)
(***************************************************************************)
EXTENDS MCBase

CONSTANTS MaxParams, MaxArgs

V(nm) == NVar(nm)
PA(s) == NPath(s, FALSE)
P(ty, opt, sub) == [ty |-> ty, opt |-> opt, sub |-> sub]
\* n s b a o f j x (ns) a<n> a<s>
Types == { <<1, <<>>>>, <<2, <<>>>>, <<4, <<>>>>, <<16, <<>>>>, <<32, <<>>>>, <<64, <<>>>>, <<128, <<>>>>, <<256, <<>>>>, <<3, <<>>>>,
           <<18, <<>>>>, <<17, <<>>>>, <<20, <<>>>>,      \* unions with the array type: (sa) (na) (ba)
           <<16, <<P(1, 0, <<>>)>>>>, <<16, <<P(2, 0, <<>>)>>>>,
           <<16, <<P(16, 0, <<P(1, 0, <<>>)>>)>>>>, <<16, <<P(16, 0, <<P(3, 0, <<>>)>>)>>>> }      \* a<a<n>>  a<a<(ns)>> : subtypes are enforced at every level
Params == {P(t[1], o, t[2]) : t \in Types, o \in 0..3}
\* an option is meaningful in these positions: - first, + last, ? trailing; all others are still tried
Sigs == UNION {[1..n -> Params] : n \in 1..MaxParams}
WellFormedSig(sg) == \A i \in 1..Len(sg) : (sg[i].opt = 2 => i = Len(sg)) /\ (sg[i].opt = 3 => i = 1)
                                          /\ (sg[i].opt = 1 => \A j \in i..Len(sg) : sg[j].opt \in {1, 2})

ArgNodes == << NNum(IntV(1)), NStr(kx), NBool(TRUE), NArray(<<NNum(IntV(1)), NNum(IntV(2))>>), NArray(<<NStr(kx)>>), NArray(<<>>),
               NObject(<< <<NStr(ka), NNum(IntV(1))>> >>), V("sum"), PA(<<NName(<<110, 111>>)>>), NNull,
               NArray(<<NArray(<<NNum(IntV(1)), NNum(IntV(2))>>), NArray(<<NNum(IntV(3))>>)>>), NArray(<<NArray(<<NNum(IntV(1))>>), NArray(<<NStr(kx)>>)>>), NArray(<<NArray(<<>>)>>) >>
ArgLists == UNION {[1..n -> 1..Len(ArgNodes)] : n \in 0..MaxArgs}
ParamNames == <<"p", "q", "r">>
\* the function returns what it received, so the binding of each parameter is observable
TypedFn(sg) == [k |-> "TypedLambda", params |-> SubSeq(ParamNames, 1, Len(sg)),
                body |-> NArray([i \in 1..Len(sg) |-> NArray(<<V(ParamNames[i])>>)]), short |-> FALSE, sig |-> sg, sigout |-> <<>>]
SigCase(sg, al) == MkCase(NCall(TypedFn(sg), [i \in 1..Len(al) |-> ArgNodes[al[i]]]), Str(<<99, 116, 120>>))

Vals == {NNum(IntV(1)), NNum(IntV(2)), NStr(kx)}
\* (b) scoping and closures
F3x == NLambda(<<"p", "q", "r">>, NArray(<<NArray(<<V("p")>>), NArray(<<V("q")>>), NArray(<<V("r")>>)>>))
ScopeProgs(a, b) == {
    NBlock(<<NAssign("x", a), NBlock(<<NAssign("x", b), V("x")>>), V("x")>>),                                     \* inner block shadows, outer unchanged
    NBlock(<<NAssign("x", a), NBlock(<<V("x")>>)>>),                                                                \* visible in nested block
    NArray(<<NBlock(<<NAssign("x", a), V("x")>>), V("x")>>),                                                        \* invisible outside
    NBlock(<<NAssign("x", a), NAssign("f", NLambda(<<>>, V("x"))), NAssign("x", b), NCall(V("f"), <<>>)>>),       \* frames are shared by reference
    NBlock(<<NAssign("x", a), NAssign("f", NLambda(<<"x">>, V("x"))), NArray(<<NCall(V("f"), <<b>>), V("x")>>)>>),  \* parameter shadows
    NBlock(<<NAssign("f", NLambda(<<"p", "q">>, NArray(<<NArray(<<V("p")>>), NArray(<<V("q")>>)>>))), NArray(<<NCall(V("f"), <<a>>), NCall(V("f"), <<a, b, a>>)>>)>>),  \* missing / surplus
    NBlock(<<NAssign("mk", NLambda(<<"n">>, NLambda(<<"m">>, NArray(<<V("n"), V("m")>>)))), NAssign("g", NCall(V("mk"), <<a>>)), NAssign("h", NCall(V("mk"), <<b>>)),
             NArray(<<NCall(V("g"), <<b>>), NCall(V("h"), <<a>>)>>)>>),                                                 \* closures keep their own bindings
    NBlock(<<NAssign("f", NLambda(<<"n">>, NCond(NCmpOp("<=", V("n"), NNum(IntV(0))), a, NCall(V("f"), <<NNumOp("-", V("n"), NNum(IntV(1)))>>)))), NCall(V("f"), <<NNum(IntV(3))>>)>>),   \* recursion through its own variable
    \* a closure is called, the variable it reads is rebound in its defining frame, and it is called again
    NBlock(<<NAssign("x", a), NAssign("f", NLambda(<<>>, V("x"))), NAssign("r", NCall(V("f"), <<>>)), NAssign("x", b), NArray(<<V("r"), NCall(V("f"), <<>>)>>)>>),
    NBlock(<<NAssign("x", a), NAssign("f", NBlock(<<NAssign("g", NLambda(<<>>, V("x"))), V("g")>>)), NAssign("r", NCall(V("f"), <<>>)), NAssign("x", b), NArray(<<V("r"), NCall(V("f"), <<>>)>>)>>),
    NBlock(<<NAssign("x", a), NAssign("mk", NLambda(<<>>, NLambda(<<>>, V("x")))), NAssign("f", NCall(V("mk"), <<>>)), NAssign("r", NCall(V("f"), <<>>)), NAssign("x", b),
             NArray(<<V("r"), NCall(V("f"), <<>>), NCall(NCall(V("mk"), <<>>), <<>>)>>)>>),
    NBlock(<<NAssign("h", V("string")), NAssign("f", NLambda(<<"v">>, NCall(V("h"), <<V("v")>>))), NAssign("r", NCall(V("f"), <<a>>)), NAssign("h", V("count")), NArray(<<V("r"), NCall(V("f"), <<a>>)>>)>>),
    NBlock(<<NAssign("x", a), NAssign("r", NBlock(<<V("x")>>)), NAssign("x", b), NArray(<<V("r"), NBlock(<<V("x")>>), NBlock(<<NBlock(<<V("x")>>)>>)>>)>>),
    NBlock(<<NAssign("f", NLambda(<<>>, NBlock(<<NAssign("x", b), V("x")>>))), NAssign("x", a), NArray(<<NCall(V("f"), <<>>), V("x")>>)>>),
    NBlock(<<NAssign("f", NLambda(<<>>, NAssign("x", b))), NAssign("x", a), NArray(<<NCall(V("f"), <<>>), V("x")>>)>>),    \* assignment in a call's own frame
    PA(<<NName(ka), NBlock(<<NAssign("c", NVar("")), NLambda(<<>>, V("c"))>>)>>),                                    \* function values escape
    NCall(NBlock(<<PA(<<NName(ka), NLambda(<<>>, NVar(""))>>)>>), <<>>),                                             \* keeps the context item of its definition site
    NCall(V("map"), <<NArray(<<a, b>>), NLambda(<<"v">>, NArray(<<V("v"), NVar("")>>))>>),
    \* a closure made (in a nested block, or by a call) while the enclosing block has bound nothing yet sees what the block binds later
    NBlock(<<NAssign("f", NBlock(<<NLambda(<<>>, V("y"))>>)), NAssign("y", a), NCall(V("f"), <<>>)>>),
    NBlock(<<NAssign("f", NBlock(<<NLambda(<<"n">>, NCond(NCmpOp("<=", V("n"), NNum(IntV(0))), a, NCall(V("f"), <<NNumOp("-", V("n"), NNum(IntV(1)))>>)))>>)), NCall(V("f"), <<NNum(IntV(2))>>)>>),
    NBlock(<<NAssign("f", NCall(NLambda(<<>>, NLambda(<<>>, V("y"))), <<>>)), NAssign("y", a), NAssign("y", b), NCall(V("f"), <<>>)>>),
    NBlock(<<NAssign("g", NBlock(<<NAssign("h", NLambda(<<>>, NArray(<<V("y"), V("h")>>))), V("h")>>)), NAssign("y", b), NPred(NCall(V("g"), <<>>), <<NNum(IntV(0))>>)>>),
    NBlock(<<NBlock(<<NBlock(<<NAssign("f", NBlock(<<NBlock(<<NLambda(<<>>, NArray(<<V("x"), V("y")>>))>>)>>)), NAssign("x", a), NBlock(<<NAssign("y", b), NCall(V("f"), <<>>)>>)>>)>>)>>),
    \* a partial application applied partially again keeps the bindings and the context item of the site where each argument was written
    NBlock(<<NAssign("f", F3x), NAssign("mk", NLambda(<<>>, NBlock(<<NAssign("k", a), NPartial(V("f"), <<NPlace, V("k"), NPlace>>)>>))), NAssign("g", NCall(V("mk"), <<>>)),
             NAssign("h", NPartial(V("g"), <<NPlace, b>>)), NCall(V("h"), <<NNum(IntV(1))>>)>>),
    NBlock(<<NAssign("f", F3x), NAssign("k", a), NAssign("g", NPartial(V("f"), <<NPlace, V("k"), NPlace>>)),
             NBlock(<<NAssign("k", b), NAssign("h", NPartial(V("g"), <<NPlace, V("k")>>)), NCall(V("h"), <<NNum(IntV(1))>>)>>)>>),
    NBlock(<<NAssign("f", F3x), NAssign("g", PA(<<NName(ka), NBlock(<<NPartial(V("f"), <<NPlace, NVar(""), NPlace>>)>>)>>)), NAssign("h", NPartial(NPred(V("g"), <<NNum(IntV(0))>>), <<a, NPlace>>)), NCall(V("h"), <<b>>)>>),
    NBlock(<<NAssign("f", F3x), NAssign("k", a), NAssign("g", NPartial(V("f"), <<V("k"), NPlace, NPlace>>)), NAssign("k", b), NAssign("h", NPartial(V("g"), <<V("k"), NPlace>>)), NAssign("k", NNum(IntV(0))), NCall(V("h"), <<V("k")>>)>>)
}

\* (b') an assignment is an expression: wherever it stands, it binds in the frame of the nearest enclosing block or
\* function body - a block of one expression is still a block
\* (only the positions where the grammar takes a whole expression: as an operand of a binary operator an assignment
\* cannot be written without the parentheses that make it a block)
Wraps(asg) == { NCond(NBool(TRUE), asg, NNum(IntV(0))), NCond(NBool(FALSE), NNum(IntV(0)), asg),
                NArray(<<asg>>), NArray(<<NNum(IntV(0)), asg>>), NCall(V("string"), <<asg>>), NCall(V("count"), <<NArray(<<asg, asg>>)>>),
                NObject(<< <<NStr(ka), asg>> >>),
                NBlock(<<asg>>), NCall(NLambda(<<>>, asg), <<>>), NCall(NLambda(<<"y">>, V("y")), <<asg>>), asg }
NestedAssignProgs(a, b) ==
    LET asg == NAssign("x", b) IN
    UNION { { NBlock(<<NAssign("x", a), NBlock(<<w>>), V("x")>>),                    \* inside a block of one expression: the outer x is untouched
              NBlock(<<NAssign("x", a), w, V("x")>>),                                \* in the block itself: x is rebound (unless w has a frame of its own)
              NArray(<<NBlock(<<w>>), V("x")>>),                                     \* invisible outside the block
              NBlock(<<NAssign("x", a), NArray(<<NBlock(<<w>>), V("x"), NBlock(<<w, V("x")>>)>>)>>) } : w \in Wraps(asg) }

\* (c) partial application: placeholders in every position of a 3-parameter function
F3 == NLambda(<<"p", "q", "r">>, NArray(<<NArray(<<V("p")>>), NArray(<<V("q")>>), NArray(<<V("r")>>)>>))
Slot == {NPlace, NNum(IntV(7))}
SlotLists == {sl \in [1..3 -> Slot] : \E i \in 1..3 : sl[i] = NPlace}      \* at least one placeholder: otherwise it is a call
PartialProgs == {NBlock(<<NAssign("f", F3), NAssign("g", NPartial(V("f"), sl)), NCall(V("g"), args)>>) :
                    sl \in SlotLists, args \in {<<>>, <<NNum(IntV(1))>>, <<NNum(IntV(1)), NNum(IntV(2))>>, <<NNum(IntV(1)), NNum(IntV(2)), NNum(IntV(3))>>, <<NNum(IntV(1)), NNum(IntV(2)), NNum(IntV(3)), NNum(IntV(4))>>}}
                \* fixed arguments that are paths, predicates and calls on the input
                \cup {NBlock(<<NAssign("g", NPartial(V(fn), <<NPlace, x>>)), NCall(V("g"), <<y>>)>>) :
                         fn \in {"append", "power", "substring"}, x \in {PA(<<NName(ka)>>), NPred(PA(<<NName(ka)>>), <<NNum(IntV(0))>>), PA(<<NName(ka), NPred(NVar(""), <<NNum(IntV(1))>>)>>), NCall(V("count"), <<PA(<<NName(ka)>>)>>)},
                         y \in {NNum(IntV(2)), NStr(<<104, 101, 108, 108, 111, 32, 119, 111, 114, 108, 100>>)}}
                \* fewer slots than the function has parameters: the result is a function of its placeholders only
                \cup {NBlock(<<NAssign("f", F3), NAssign("g", NPartial(V("f"), sl)), NCall(V("g"), args)>>) :
                         sl \in {<<NPlace>>, <<NPlace, NNum(IntV(7))>>, <<NNum(IntV(7)), NPlace>>, <<NPlace, NPlace>>},
                         args \in {<<>>, <<NNum(IntV(1))>>, <<NNum(IntV(1)), NNum(IntV(2))>>, <<NNum(IntV(1)), NNum(IntV(2)), NNum(IntV(3))>>}}
                \cup {NApply(NNum(IntV(1)), NCall(NPartial(F3, <<NPlace, NNum(IntV(7))>>), <<NNum(IntV(3))>>)),
                      NCall(V("map"), <<NArray(<<NNum(IntV(1)), NNum(IntV(2))>>), NPartial(F3, <<NPlace, NNum(IntV(7))>>)>>),
                      NCall(NPartial(NPartial(F3, <<NPlace, NPlace>>), <<NNum(IntV(8)), NPlace>>), <<NNum(IntV(5)), NNum(IntV(6))>>)}
                \cup {NPartial(NNum(IntV(1)), <<NPlace>>), NCall(NPartial(V("substring"), <<NPlace, NNum(IntV(1))>>), <<NStr(<<97, 98, 99>>)>>),
                      NCall(NPartial(NPartial(F3, <<NPlace, NPlace, NNum(IntV(9))>>), <<NNum(IntV(8)), NPlace>>), <<NNum(IntV(5))>>)}

\* (d) chains
Inc == NLambda(<<"v">>, NNumOp("+", V("v"), NNum(IntV(1))))
Dbl == NLambda(<<"v">>, NNumOp("*", V("v"), NNum(IntV(2))))
Nothing == NLambda(<<"v">>, PA(<<NName(<<110, 111>>)>>))          \* a stage that yields no value
First == NLambda(<<"v">>, NPred(V("v"), <<NNum(IntV(0))>>))
Stage == {Nothing, V("count"), V("exists"), Inc, Dbl, V("string"), NCall(V("power"), <<NNum(IntV(2))>>), NCall(V("append"), <<NNum(IntV(0))>>), NPartial(V("power"), <<NPlace, NNum(IntV(2))>>),
          NCall(Inc, <<>>), NNum(IntV(5)), V("nosuch")}
ChainProgs == {NApply(NNum(IntV(3)), s1) : s1 \in Stage} \cup {NApply(NApply(NNum(IntV(3)), s1), s2) : s1 \in Stage, s2 \in Stage}
              \cup {NApply(NNum(IntV(3)), NBlock(<<NApply(s1, s2)>>)) : s1 \in Stage, s2 \in Stage}
              \cup {NCall(NBlock(<<NApply(NApply(s1, s2), s3)>>), <<NNum(IntV(3))>>) : s1 \in {Inc, Dbl, V("string")}, s2 \in {Inc, Dbl, V("string")}, s3 \in {Inc, Dbl, V("string")}}
              \* v ~> f(a, b, c): calls with one to four written arguments, evaluated twice by the repeatability ride-along
              \cup {NApply(NStr(<<97, 98, 99, 97, 98, 99>>), NCall(V("replace"), <<NStr(<<98>>), NStr(kx)>>)), NApply(NStr(<<97, 98, 99, 97, 98, 99>>), NCall(V("replace"), <<NStr(<<98>>), NStr(kx), NNum(IntV(1))>>)),
                    NApply(NStr(<<97, 98, 99>>), NCall(V("substring"), <<NNum(IntV(1)), NNum(IntV(1))>>)), NApply(NStr(<<97, 98, 99>>), NCall(V("pad"), <<NNum(IntV(5)), NStr(kx)>>)),
                    NApply(NNum(IntV(1)), NCall(NLambda(<<"p", "q", "r", "s">>, NArray(<<V("p"), V("q"), V("r"), V("s")>>)), <<NNum(IntV(2)), NNum(IntV(3)), NNum(IntV(4))>>)),
                    NApply(NNum(IntV(1)), NCall(NLambda(<<"p", "q", "r", "s", "t", "u">>, NArray(<<V("p"), V("u")>>)), <<NNum(IntV(2)), NNum(IntV(3)), NNum(IntV(4)), NNum(IntV(5)), NNum(IntV(6))>>)),
                    NApply(NNum(IntV(1)), NCall(V("append"), <<NNum(IntV(2))>>)), NApply(NArray(<<NNum(IntV(1))>>), NCall(V("zip"), <<NArray(<<NNum(IntV(2))>>), NArray(<<NNum(IntV(3))>>), NArray(<<NNum(IntV(4))>>)>>))}
              \* f ~> g as a value: g runs even when f yields no value (f then g)
              \cup {NCall(NBlock(<<NApply(s1, s2)>>), <<a>>) : s1 \in {Nothing, First}, s2 \in {V("count"), V("exists"), V("string"), NLambda(<<"v">>, NNum(IntV(9)))}, a \in {NArray(<<>>), NNum(IntV(3))}}
              \cup {NCall(NBlock(<<NApply(NApply(Inc, s1), s2)>>), <<NNum(IntV(3))>>) : s1 \in {Nothing}, s2 \in {V("count"), V("exists"), NLambda(<<"v">>, NNum(IntV(9)))}}

\* a chain held in a variable is a value: extending it twice gives two independent chains
Fn3 == {Inc, Dbl, V("string"), Nothing, V("count")}
ChainValueProgs == {NBlock(<<NAssign("c", NApply(NApply(s1, s2), s3)), NAssign("d", NApply(V("c"), Inc)), NAssign("e", NApply(V("c"), Dbl)),
                             NArray(<<NCall(V("d"), <<NNum(IntV(3))>>), NCall(V("e"), <<NNum(IntV(3))>>), NCall(V("c"), <<NNum(IntV(3))>>)>>)>>) :
                        s1 \in Fn3, s2 \in Fn3, s3 \in Fn3}
                   \cup {NBlock(<<NAssign("c", NApply(s1, s2)), NAssign("d", NApply(V("c"), Inc)), NAssign("e", NApply(V("c"), Dbl)),
                             NArray(<<NCall(V("d"), <<NNum(IntV(3))>>), NCall(V("e"), <<NNum(IntV(3))>>)>>)>>) : s1 \in Fn3, s2 \in Fn3}
                   \cup {NBlock(<<NAssign("c", NApply(NApply(NApply(s1, s2), s3), Inc)), NAssign("d", NApply(V("c"), Inc)), NAssign("e", NApply(V("c"), Dbl)),
                             NArray(<<NCall(V("d"), <<NNum(IntV(3))>>), NCall(V("e"), <<NNum(IntV(3))>>)>>)>>) : s1 \in Fn3, s2 \in Fn3, s3 \in Fn3}

\* (e) context-defaulting built-ins nested in each other's arguments under different path contexts
SB(arg) == NCall(V("substringBefore"), <<arg>>)
CtxDoc == Obj(<< <<ka, Str(<<113, 122, 112>>)>>, <<kb, Obj(<< <<kc, Str(<<122, 115>>)>> >>)>>, <<kc, Arr(<<Str(<<117, 122>>), Str(<<118, 122, 122>>)>>)>> >>)
CtxProgs == { PA(<<NName(ka), SB(NStr(<<122>>))>>),
              PA(<<NName(ka), SB(PA(<<V("$"), NName(kb), NName(kc), SB(NStr(<<115>>))>>))>>),
              PA(<<NName(kc), SB(PA(<<V("$"), NName(ka), SB(NStr(<<112>>))>>))>>),
              PA(<<NName(ka), NCall(V("string"), <<>>)>>), PA(<<NName(kc), NCall(V("length"), <<>>)>>),
              PA(<<NName(ka), NCall(V("uppercase"), <<>>)>>),
              PA(<<NName(ka), NCall(V("pad"), <<NCall(V("length"), <<>>)>>)>>),
              PA(<<NName(kc), NCall(V("contains"), <<PA(<<V("$"), NName(kb), NName(kc), NCall(V("substring"), <<NNum(IntV(0)), NNum(IntV(1))>>)>>)>>)>>),
              PA(<<NName(kb), NName(kc), NCall(V("substringAfter"), <<PA(<<V("$"), NName(ka), NCall(V("substring"), <<NNum(IntV(1)), NNum(IntV(1))>>)>>)>>)>>),
              \* a function written at the root and called inside a path step reads the context item of where it was written
              NBlock(<<NAssign("f", NLambda(<<"x">>, NArray(<<V("x"), PA(<<NName(ka)>>)>>))), PA(<<NName(kc), NCall(V("f"), <<NVar("")>>)>>)>>),
              NBlock(<<NAssign("f", [k |-> "TypedLambda", params |-> <<"x">>, body |-> NArray(<<V("x"), PA(<<NName(ka)>>)>>), short |-> FALSE, sig |-> <<P(2, 0, <<>>)>>, sigout |-> <<>>]),
                       PA(<<NName(kc), NCall(V("f"), <<NVar("")>>)>>)>>),
              NBlock(<<NAssign("f", [k |-> "TypedLambda", params |-> <<"x">>, body |-> NArray(<<V("x"), PA(<<NName(ka)>>)>>), short |-> FALSE, sig |-> <<P(2, 3, <<>>)>>, sigout |-> <<>>]),
                       PA(<<NName(kc), NCall(V("f"), <<NVar("")>>)>>)>>),
              NBlock(<<NAssign("f", [k |-> "TypedLambda", params |-> <<"x">>, body |-> NArray(<<V("x"), PA(<<NName(ka)>>)>>), short |-> FALSE, sig |-> <<P(2, 3, <<>>)>>, sigout |-> <<>>]),
                       PA(<<NName(kc), NCall(V("f"), <<>>)>>)>>),
              \* the callee is not a plain variable: a block, a conditional, a call that returns the built-in
              PA(<<NName(ka), NCall(NBlock(<<V("uppercase")>>), <<>>)>>), PA(<<NName(ka), NCall(NBlock(<<V("substringBefore")>>), <<NStr(<<122>>)>>)>>),
              PA(<<NName(ka), NCall(NCond(NBool(TRUE), V("uppercase"), V("lowercase")), <<>>)>>), PA(<<NName(ka), NCall(NCond(NBool(FALSE), V("uppercase"), V("length")), <<>>)>>),
              PA(<<NName(ka), NCall(NCall(NLambda(<<>>, V("uppercase")), <<>>), <<>>)>>),
              PA(<<NName(kc), NCall(NBlock(<<V("length")>>), <<>>)>>),
              NBlock(<<NAssign("pick", NLambda(<<"u">>, NCond(V("u"), V("uppercase"), V("lowercase")))), PA(<<NName(ka), NCall(NCall(V("pick"), <<NBool(TRUE)>>), <<>>)>>)>>),
              NCall(V("nosuch"), <<>>), NCall(NNum(IntV(1)), <<>>), NCall(PA(<<NName(ka)>>), <<>>) }

Init == /\ \/ \E sg \in Sigs, al \in ArgLists : WellFormedSig(sg) /\ case = SigCase(sg, al)
           \/ \E a \in Vals, b \in Vals : \E p \in ScopeProgs(a, b) : case = MkCase(p, Obj(<< <<ka, Arr(<<IntV(5), IntV(6)>>)>> >>))
           \/ \E a \in Vals, b \in Vals : \E p \in NestedAssignProgs(a, b) : case = MkCase(p, Obj(<< <<ka, Arr(<<IntV(5), IntV(6)>>)>> >>))
           \/ \E p \in PartialProgs \cup ChainProgs \cup ChainValueProgs : case = MkCase(p, Obj(<<>>))
           \/ \E p \in CtxProgs : case = MkCase(p, CtxDoc)
        /\ out = Pending
Next == EvaluateCase
Spec == Init /\ [][Next]_mcvars

\* theorem (S5): v ~> f(a) has the outcome of f(v, a)
ChainIsCall == (out # Pending /\ case.ast.k = "Apply" /\ case.ast.r.k = "Call") =>
                  out = Expected(NCall(case.ast.r.fn, <<case.ast.l>> \o case.ast.r.args), case.inp, case.binds)
=============================================================================
