SPECIFICATION CallSpec
CONSTANTS
  Gs = {1, 2}
  Tree <- Tree2
  Fns = {"f", "h"}
  Shared = TRUE
INVARIANT OwnContext
PROPERTY AllDone
CHECK_DEADLOCK FALSE
