------------------------------- MODULE MC_Api -------------------------------
(* Bounded instance of JApi: two expressions, one document slot, a small      *)
(* program pool (a registry lookup, a chain, a path, a transform).            *)
EXTENDS JApi

NName(s)  == [k |-> "Name", s |-> s, esc |-> FALSE]
NVar(nm)  == [k |-> "Variable", nm |-> nm]
NNum(v)   == [k |-> "Number", num |-> v]
NStr(s)   == [k |-> "String", s |-> s]
PA(s)     == [k |-> "Path", steps |-> s, keep |-> FALSE]
ka == <<97>>   kb == <<98>>
\* $x                   - reads the registry
\* a ~> $sum()          - the chain operator (evaluated twice it must give the same)
\* a.b                  - a plain path
\* $ ~> |$$|{"z":1}|     - a transform whose pattern selects the caller's document
\* [$x, $y]
MCPrograms == { NVar("x"),
                [k |-> "Apply", l |-> PA(<<NName(ka)>>), r |-> [k |-> "Call", fn |-> NVar("sum"), args |-> <<>>]],
                PA(<<NName(ka), NName(kb)>>),
                [k |-> "Apply", l |-> NVar(""), r |-> [k |-> "Transform", pat |-> NVar("$"),
                        upd |-> [k |-> "Object", pairs |-> << <<NStr(<<122>>), NNum(IntV(1))>> >>], del |-> [k |-> "None"]]],
                [k |-> "Array", items |-> <<NVar("x"), NVar("y")>>] }
MCDocs == { Obj(<< <<ka, Arr(<<IntV(1), IntV(2)>>)>> >>), Obj(<< <<ka, Obj(<< <<kb, IntV(5)>> >>)>> >>) }
MCRegVals == {IntV(1), IntV(2)}

\* the recorded outcomes are compared, not explored
View == <<greg, expr, heap, gsnap, locals, hist, nops>>
=============================================================================
