SPECIFICATION CallSpec
CONSTANTS
  Gs = {1}
  Tree <- TreeNested
  Fns = {"f", "h"}
  Shared = TRUE
INVARIANT OwnContext
PROPERTY AllDone
CHECK_DEADLOCK FALSE
