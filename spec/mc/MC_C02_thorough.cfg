SPECIFICATION Spec
CONSTANTS
  MaxLen = 5
  Stack3 = TRUE
INVARIANTS Emit NothingInvented
CHECK_DEADLOCK FALSE
