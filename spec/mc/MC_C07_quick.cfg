SPECIFICATION Spec
CONSTANTS
  Nested = FALSE
INVARIANTS Emit IdentityWhenNothingSelected
CHECK_DEADLOCK FALSE
