------------------------------- MODULE MC_Call -------------------------------
EXTENDS JCall
\* call trees: a call of f under context c with nested calls as arguments
C(fn, ctx, args) == [fn |-> fn, ctx |-> ctx, args |-> args]
\* one goroutine, nesting: a.$f($$.b.$f("z"))   (C12)
TreeNested == [g \in {1} |-> C("f", 10, <<C("f", 11, <<>>)>>)]
\* two goroutines, each a.$f("z") on its own document (C06), one level of nesting on the first
Tree2 == [g \in {1, 2} |-> IF g = 1 THEN C("f", 10, <<C("h", 12, <<>>)>>) ELSE C("f", 20, <<>>)]
\* three goroutines, depth 1
Tree3 == [g \in {1, 2, 3} |-> C("f", 10 * g, <<>>)]
\* two goroutines, depth 2 each, two built-ins
Tree22 == [g \in {1, 2} |-> C("f", 10 * g, <<C("h", 10 * g + 1, <<C("f", 10 * g + 2, <<>>)>>)>>)]
=============================================================================
