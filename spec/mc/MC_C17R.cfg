SPECIFICATION Spec
INVARIANT Emit
CHECK_DEADLOCK FALSE
