SPECIFICATION Spec
CONSTANTS
  MaxChars = 6
INVARIANTS Emit RoundTrip HalfEven
CHECK_DEADLOCK FALSE
