------------------------------- MODULE MC_C17 -------------------------------
(***************************************************************************)
(* C17 - regex literals and regex functions.  Exhaustive part: every       *)
(* replacement template of up to MaxT units over {$, 0, 1, 2, x} plus the  *)
(* two-digit forms, against patterns with 0, 1, 2, 3 and 12 capture groups *)
(* (some of them non-participating); every function form ($match with and  *)
(* without limit, $contains, $split with limits, $replace with limits,     *)
(* the literal applied as a function and its `next` chain) over a pattern  *)
(* pool x subject pool; flag subsets; \/ inside patterns.  The engine's    *)
(* match lists are recorded by the harness (environment); TLC checks the   *)
(* template rule on abstract match data as theorems.                       *)
(***************************************************************************)
EXTENDS MCBase

CONSTANT MaxT

RX(p) == [k |-> "Regex", s |-> p]
S == NVar("")
F(nm, args) == NCall(NVar(nm), args)

\* patterns (as the text handed to the engine) and how many groups they have
P0 == <<97>>                                             \* a
P1 == <<40, 97, 41, 98, 63>>                             \* (a)b?
P2 == <<40, 97, 41, 40, 98, 41, 63>>                     \* (a)(b)?
P3 == <<40, 97, 41, 124, 40, 98, 41, 124, 40, 99, 41>>   \* (a)|(b)|(c)
P12 == <<40,97,41,40,98,41,40,99,41,40,97,41,40,98,41,40,99,41,40,97,41,40,98,41,40,99,41,40,97,41,40,98,41,40,99,41>>   \* (a)(b)(c) x 4
\* (a)(b)(c)(a)(b)(c)(a)(b)(c)(x)?(y*)(a) : group 10 does not participate, group 11 matches the empty string, group 12 is "a"
P12o == <<40,97,41,40,98,41,40,99,41,40,97,41,40,98,41,40,99,41,40,97,41,40,98,41,40,99,41,40,120,41,63,40,121,42,41,40,97,41>>
PE == <<98, 42>>                                         \* b*   (empty matches)
PA == <<94, 97, 124, 99, 36>>                            \* ^a|c$
PI == <<40, 63, 105, 41, 97, 43>>                        \* (?i)a+
PS == <<97, 47, 98>>                                     \* a/b  (written a\/b)
PN == <<40, 97, 40, 98, 41, 63, 41, 43>>                 \* (a(b)?)+
PQ == <<40, 94, 97, 41, 124, 97>>                        \* (^a)|a   the same text matched with and without its group
PL == <<94, 97, 98, 36>>                                 \* ^ab$    a fully anchored literal
PL1 == <<94, 97>>                                        \* ^a
PL2 == <<98, 36>>                                        \* b$
PB == <<40, 97, 41, 98, 124, 97>>                        \* (a)b|a
PBS == <<92, 92>>                                        \* \\   an escaped backslash, directly before the closing slash
PBS2 == <<98, 92, 92>>                                   \* b\\
PBS3 == <<92, 92, 40, 98, 124, 99, 41>>                  \* \\(b|c)
\* group counts at the boundaries of the decimal digit counts: 9, 10, 11 groups ((a)(b)(c) repeated) and 100 (99 empty groups, then (a))
ABC == <<97, 98, 99>>
RECURSIVE PG(_, _)
PG(n, i) == IF i > n THEN <<>> ELSE <<40, ABC[((i - 1) % 3) + 1], 41>> \o PG(n, i + 1)
RECURSIVE PEmpty(_)
PEmpty(n) == IF n = 0 THEN <<>> ELSE <<40, 41>> \o PEmpty(n - 1)
P100 == PEmpty(99) \o <<40, 97, 41>>
DigitTemplates == {<<36, 49, 48>>, <<36, 49, 49>>, <<36, 57>>, <<60, 36, 49, 124, 36, 57, 124, 36, 49, 48, 124, 36, 49, 49, 124, 36, 49, 50, 62>>, <<36, 49, 48, 48>>, <<36, 57, 57>>, <<36, 48, 49, 48>>, <<36, 57, 48, 120>>, <<36, 49, 48, 48, 48>>, <<60, 36, 49, 48, 124, 36, 49, 48, 48, 124, 36, 49, 48, 49, 62>>}
Patterns == {P0, P1, P2, P3, PE, PA, PI, PN, PQ, PL, PL1, PL2, PB, PBS, PBS2, PBS3}

Subjects == {<<97, 98, 97>>, <<120, 97, 98, 120>>, <<97, 98, 97, 98>>, <<>>, <<97>>, <<97, 98>>, <<97, 98, 99>>, <<99, 97, 98, 97>>, <<97, 98, 99, 97, 98, 99, 97, 98, 99, 97, 98, 99>>, <<120, 65, 97, 233, 97, 98>>,
             <<98, 98>>, <<97, 47, 98>>, <<99>>, <<97, 92, 98, 92, 99>>, <<47, 92>>}

TUnits == {<<36>>, <<48>>, <<49>>, <<50>>, <<120>>}
Templates == UNION {[1..n -> TUnits] : n \in 0..MaxT}
Tpl(t) == SeqConcatAll(t)
ExtraTemplates == {<<36>> \o [i \in 1..20 |-> 57], <<36, 49>> \o [i \in 1..19 |-> 48] \o <<120>>, <<36, 49, 50, 36, 50, 49, 36, 51, 36>> \o [i \in 1..20 |-> 57],     \* $9999…  $1000…x
                   <<36, 49, 50>>, <<36, 49, 51>>, <<36, 49, 48>>, <<36, 57>>, <<36, 49, 50, 51>>, <<36, 48, 49>>, <<36, 36, 49>>, <<120, 36>>, <<36, 233>>}

Limits == {IntV(0), IntV(1), IntV(2), IntV(4), IntV(0 - 1), Num(3, 2)}

Init == /\ \/ \E t \in Templates, p \in {P0, P1, P2, P3, P12, PQ, PB} : case = MkCase(F("replace", <<S, RX(p), NStr(Tpl(t))>>), Str(<<97, 98, 99, 97, 98, 99, 97, 98, 99, 97, 98, 99>>))
           \/ \E t \in ExtraTemplates \cup {<<60, 36, 49, 62>>}, p \in {P0, P1, P2, P3, P12, PQ, PB}, s \in Subjects : case = MkCase(F("replace", <<S, RX(p), NStr(t)>>), Str(s))
           \/ \E t \in ExtraTemplates \cup {<<36, 49>>, <<36, 57>>, <<36, 49, 49>>, <<60, 36, 49, 48, 124, 36, 49, 49, 124, 36, 49, 50, 124, 36, 49, 51, 62>>} :
                    case = MkCase(F("replace", <<S, RX(P12o), NStr(t)>>), Str(<<97, 98, 99, 97, 98, 99, 97, 98, 99, 97, 120>>))
           \* one regex value applied to several subjects: every match object keeps its own match, groups and next chain
           \/ \E t \in DigitTemplates, p \in {PG(9, 1), PG(10, 1), PG(11, 1), P12, P100} :
                    case = MkCase(F("replace", <<S, RX(p), NStr(t)>>), Str(<<97, 98, 99, 97, 98, 99, 97, 98, 99, 97, 98, 99>>))
           \/ \E p \in {P1, P2, PN, PB, <<97, 40, 46, 41>>}, s1 \in {<<97, 98>>, <<97, 98, 97, 99>>}, s2 \in {<<97, 99>>, <<120, 97, 100, 97, 98>>} :
                    \/ case = MkCase(NBlock(<<NAssign("r", RX(p)), NAssign("x", NCall(NVar("r"), <<NStr(s1)>>)), NAssign("y", NCall(NVar("r"), <<NStr(s2)>>)),
                                             NArray(<<NVar("x"), NVar("y")>>)>>), Str(<<>>))
                    \/ case = MkCase(NBlock(<<NAssign("r", RX(p)), NAssign("x", NCall(NVar("r"), <<NStr(s1)>>)),
                                             NAssign("n", NPath(<<NVar("x"), NCall(NName(<<110, 101, 120, 116>>), <<>>)>>, FALSE)),
                                             NAssign("y", NCall(NVar("r"), <<NStr(s2)>>)),
                                             NArray(<<NVar("x"), NVar("n"), NVar("y")>>)>>), Str(<<>>))
                    \/ case = MkCase(NPath(<<NBlock(<<NCall(NVar("map"), <<NArray(<<NStr(s1), NStr(s2), NStr(s1)>>), RX(p)>>)>>), NName(<<103, 114, 111, 117, 112, 115>>)>>, FALSE), Str(<<>>))
           \/ \E p \in Patterns, s \in Subjects : case = MkCase(F("match", <<S, RX(p)>>), Str(s))
           \/ \E p \in Patterns, s \in Subjects, l \in Limits : case = MkCase(F("match", <<S, RX(p), NNum(l)>>), Str(s))
           \/ \E p \in Patterns \cup {PS}, s \in Subjects : case = MkCase(F("contains", <<S, RX(p)>>), Str(s))
           \/ \E p \in Patterns \cup {PS}, s \in Subjects : case = MkCase(F("split", <<S, RX(p)>>), Str(s))
           \/ \E p \in Patterns, s \in Subjects, l \in Limits : case = MkCase(F("split", <<S, RX(p), NNum(l)>>), Str(s))
           \/ \E p \in Patterns, s \in Subjects, l \in Limits : case = MkCase(F("replace", <<S, RX(p), NStr(<<60, 36, 48, 62>>), NNum(l)>>), Str(s))
           \/ \E p \in Patterns, s \in Subjects : case = MkCase(F("replace", <<S, RX(p), NLambda(<<"m">>, NConcat(NCall(NVar("string"), <<NPath(<<NVar("m"), NName(<<105, 110, 100, 101, 120>>)>>, FALSE)>>),
                                                                        NCall(NVar("join"), <<NPath(<<NVar("m"), NName(<<103, 114, 111, 117, 112, 115>>)>>, FALSE), NStr(<<45>>)>>)))>>), Str(s))
           \/ \E p \in Patterns, s \in Subjects : case = MkCase(F("replace", <<S, RX(p), NLambda(<<"m">>, NNum(IntV(1)))>>), Str(s))
           \* what a replacement function returns is used as it is - it is not a template
           \/ \E p \in {P0, P1, P2, PB}, s \in {<<97, 98, 97>>, <<120, 97, 98, 120>>}, r \in {<<36, 48>>, <<36, 49>>, <<36, 36>>, <<36>>, <<60, 36, 49, 62>>} :
                  \/ case = MkCase(F("replace", <<S, RX(p), NLambda(<<"m">>, NStr(r))>>), Str(s))
                  \/ case = MkCase(F("replace", <<S, RX(p), NLambda(<<"m">>, NConcat(NStr(<<36>>), NPath(<<NVar("m"), NName(<<109, 97, 116, 99, 104>>)>>, FALSE)))>>), Str(s))
           \* the literal applied as a function and the `next` chain
           \/ \E p \in Patterns, s \in Subjects : case = MkCase(NCall(RX(p), <<S>>), Str(s))
           \* the `next` chain: a member cannot be called in a path step and a block cannot begin with a regex literal,
           \* so the match object and its function values go through variables
           \/ \E p \in Patterns, s \in Subjects : case = MkCase(NBlock(<<NAssign("m", NCall(RX(p), <<S>>)), NAssign("n", NPath(<<NVar("m"), NName(<<110, 101, 120, 116>>)>>, FALSE)), NCall(NVar("n"), <<>>)>>), Str(s))
           \/ \E p \in Patterns, s \in Subjects : case = MkCase(NBlock(<<NAssign("m", NCall(RX(p), <<S>>)), NAssign("n", NPath(<<NVar("m"), NName(<<110, 101, 120, 116>>)>>, FALSE)), NAssign("m2", NCall(NVar("n"), <<>>)),
                                                                        NAssign("n2", NPath(<<NVar("m2"), NName(<<110, 101, 120, 116>>)>>, FALSE)), NAssign("m3", NCall(NVar("n2"), <<>>)),
                                                                        NArray(<<NPath(<<NVar("m3"), NName(<<109, 97, 116, 99, 104>>)>>, FALSE), NPath(<<NVar("m"), NName(<<109, 97, 116, 99, 104>>)>>, FALSE)>>)>>), Str(s))
           \* context defaulting
           \/ \E p \in Patterns, s \in Subjects : case = MkCase(NPath(<<NName(ka), F("match", <<RX(p)>>)>>, FALSE), Obj(<< <<ka, Str(s)>> >>))
        /\ out = Pending
Next == EvaluateCase
Spec == Init /\ [][Next]_mcvars

\* theorems about the template rule (R2) on abstract match data
G3 == <<(<<65>>), (<<66>>), (<<>>)>>
TemplateLaws ==
    /\ ExpandTemplate(<<120, 121>>, <<77>>, G3) = <<120, 121>>                     \* text is copied
    /\ ExpandTemplate(<<36, 36>>, <<77>>, G3) = <<36>>                             \* $$
    /\ ExpandTemplate(<<36, 48>>, <<77>>, G3) = <<77>>                             \* $0
    /\ ExpandTemplate(<<36, 50, 49>>, <<77>>, G3) = <<66, 49>>                     \* $21 with 3 groups: group 2, then "1"
    /\ ExpandTemplate(<<36, 51>>, <<77>>, G3) = <<>>                               \* an absent group is empty
    /\ ExpandTemplate(<<36, 57>>, <<77>>, G3) = <<>>                               \* no such group: empty
    /\ ExpandTemplate(<<36>>, <<77>>, G3) = <<36>> /\ ExpandTemplate(<<36, 120>>, <<77>>, G3) = <<36, 120>>
\* without any $ the template is used verbatim
NoDollarIsVerbatim == \A t \in UNION {[1..n -> {<<48>>, <<120>>}] : n \in 0..3} : ExpandTemplate(Tpl(t), <<77>>, G3) = Tpl(t)
=============================================================================
