------------------------------- MODULE MC_C04 -------------------------------
(***************************************************************************)
(* C04 - the parse.  Every chain of 2..MaxLinks infix/postfix operators    *)
(* from the complete operator set, over three operand flavours (variables, *)
(* names, literals), rendered tightly and with generous whitespace.        *)
(* Checked on the specification for every chain: the functional grammar    *)
(* (JSyntax!Parse, precedence climbing) yields a tree that satisfies the   *)
(* declarative precedence/associativity conditions (WellShaped) and whose  *)
(* in-order yield is the token sequence; the tree does not depend on       *)
(* whitespace.  Each rendering is compiled by the real parser and its tree *)
(* compared with the specification's (TraceParse).                         *)
(***************************************************************************)
EXTENDS JSyntax, Json

CONSTANTS MaxLinks, Flavours

VARIABLES chain, flav, done
vars == <<chain, flav, done>>

\* link kinds: binary operators and postfix/bracketing forms
BinOps == {"+", "-", "*", "/", "%", "&", "=", "!=", "<", "<=", ">", ">=", "in", "and", "or", "~>", ":=", "."}
Post == {"pred", "keep", "group", "sort", "call", "cond", "condx"}
Links == BinOps \cup Post

OpText(op) == CASE op = "+" -> <<43>> [] op = "-" -> <<45>> [] op = "*" -> <<42>> [] op = "/" -> <<47>> [] op = "%" -> <<37>> [] op = "&" -> <<38>>
                [] op = "=" -> <<61>> [] op = "!=" -> <<33, 61>> [] op = "<" -> <<60>> [] op = "<=" -> <<60, 61>> [] op = ">" -> <<62>> [] op = ">=" -> <<62, 61>>
                [] op = "in" -> <<105, 110>> [] op = "and" -> <<97, 110, 100>> [] op = "or" -> <<111, 114>> [] op = "~>" -> <<126, 62>> [] op = ":=" -> <<58, 61>> [] op = "." -> <<46>>
IsWord(op) == op \in {"in", "and", "or"}

\* the i-th operand in flavour f
Letter(i) == 96 + i                               \* a, b, c ...
Operand(f, i) == CASE f = "var" -> <<36, Letter(i)>>
                   [] f = "name" -> <<Letter(i)>>
                   [] f = "lit" -> IF (i % 2) = 1 THEN <<48 + i>> ELSE <<34, Letter(i), 34>>
                   \* a unary minus in front of every operand: written tight (-5, -a) and with a space (- 5, - a)
                   [] f = "neg" -> IF (i % 2) = 1 THEN <<45, 48 + i>> ELSE <<45, Letter(i)>>
                   [] f = "negsp" -> IF (i % 2) = 1 THEN <<45, 32, 48 + i>> ELSE <<45, 32, 36, Letter(i)>>
                   \* operands that end in } and | : function($a){$a}  and  |a|{}|  (what follows them is an operator)
                   [] f = "fn" -> IF (i % 2) = 1 THEN <<102,117,110,99,116,105,111,110,40,36,97,41,123,36,97,125>> ELSE <<124, Letter(i), 124, 123, 125, 124>>
                   \* operands that are a wildcard or a descendant step: * and ** are operands here and operators elsewhere,
                   \* and what follows them is an operator (a slash is division)
                   [] f = "wild" -> IF (i % 2) = 1 THEN <<42>> ELSE <<42, 42>>
                   [] f = "wildn" -> IF (i % 2) = 1 THEN <<Letter(i), 46, 42, 42>> ELSE <<Letter(i), 46, 42>>
                   [] f = "xf" -> IF (i % 2) = 0 THEN <<102,117,110,99,116,105,111,110,40,36,97,41,123,36,97,125>> ELSE <<124, Letter(i), 124, 123, 125, 124>>

\* render a chain: sp = separator placed around every token (<<>> for tight, except around words)
RECURSIVE Render(_, _, _, _, _)
Render(f, ch, i, k, sp) ==      \* i: next link index, k: next operand number
    IF i > Len(ch) THEN <<>>
    ELSE LET lk == ch[i]
             W(x) == IF IsWord(lk) /\ sp = <<>> THEN <<32>> \o x \o <<32>> ELSE sp \o x \o sp
         IN  CASE lk \in BinOps -> W(OpText(lk)) \o Operand(f, k) \o Render(f, ch, i + 1, k + 1, sp)
               [] lk = "pred"  -> sp \o <<91>> \o sp \o Operand(f, k) \o sp \o <<93>> \o Render(f, ch, i + 1, k + 1, sp)
               [] lk = "keep"  -> sp \o <<91>> \o sp \o <<93>> \o Render(f, ch, i + 1, k, sp)
               [] lk = "group" -> sp \o <<123>> \o sp \o Operand(f, k) \o sp \o <<58>> \o sp \o Operand(f, k + 1) \o sp \o <<125>> \o Render(f, ch, i + 1, k + 2, sp)
               [] lk = "sort"  -> sp \o <<94>> \o sp \o <<40>> \o sp \o Operand(f, k) \o sp \o <<41>> \o Render(f, ch, i + 1, k + 1, sp)
               [] lk = "call"  -> sp \o <<40>> \o sp \o Operand(f, k) \o sp \o <<41>> \o Render(f, ch, i + 1, k + 1, sp)
               [] lk = "cond"  -> sp \o <<63>> \o sp \o Operand(f, k) \o sp \o <<58>> \o sp \o Operand(f, k + 1) \o Render(f, ch, i + 1, k + 2, sp)
               [] lk = "condx" -> sp \o <<63>> \o sp \o Operand(f, k) \o Render(f, ch, i + 1, k + 1, sp)
Text(f, ch, sp) == Operand(f, 1) \o Render(f, ch, 1, 2, sp)
Tight(f, ch) == Text(f, ch, <<>>)
Spaced(f, ch) == Text(f, ch, <<32, 10, 9>>)

Chains == UNION {[1..n -> Links] : n \in 2..MaxLinks}
\* two-level enumeration: the theorems are evaluated on the successor states, by the worker threads
\* chains of four links: binary operators only, over variables (the other flavours and the postfix forms stay at three links)
Init == chain \in Chains /\ flav \in Flavours /\ (flav \in {"fn", "xf", "wild", "wildn"} => Len(chain) <= 2)
        \* (a multiplication sign next to a wildcard is not separated by OPTIONAL white space: * * * and *** are different token sequences)
        /\ (flav \in {"wild", "wildn"} => \A i \in 1..Len(chain) : chain[i] # "*")
        /\ (Len(chain) >= 4 => (flav = "var" /\ \A i \in 1..Len(chain) : chain[i] \in BinOps)) /\ done = FALSE
Next == ~done /\ done' = TRUE /\ UNCHANGED <<chain, flav>>
Spec == Init /\ [][Next]_vars

Emit == done =>
        /\ PrintT("CASE " \o ToJson([bytes |-> Tight(flav, chain), mode |-> "compile"]))
        /\ PrintT("CASE " \o ToJson([bytes |-> Spaced(flav, chain), mode |-> "compile"]))

\* ---- theorems on the specification ----
WhitespaceInsensitive == done =>
    LET A == Parse(Tight(flav, chain))  Bs == Parse(Spaced(flav, chain))
    IN  A.ok = Bs.ok /\ (A.ok = "yes" => A.ast = Bs.ast)

\* declarative restatement on the raw tree of a chain of binary operators
RawParse(B) == LET P0 == Advance(B, [L |-> LInit, tok |-> [ty |-> "eof", s |-> 0, e |-> 0]], TRUE) IN ParseExpr(B, P0, 0)
OpOf(n) == CASE n.k \in {"NumOp", "CmpOp", "BoolOp"} -> n.op [] n.k = "Concat" -> "&" [] n.k = "Apply" -> "~>" [] n.k = "Dot" -> "."
             [] n.k = "AssignCps" -> ":=" [] OTHER -> ""
IsBin(n) == OpOf(n) # ""
LeftOf(n) == IF n.k = "AssignCps" THEN [k |-> "VariableCps", s |-> n.s] ELSE n.l
RightOf(n) == IF n.k = "AssignCps" THEN n.e ELSE n.r
RECURSIVE WellShaped(_)
WellShaped(n) ==
    IF ~IsBin(n) THEN TRUE
    ELSE LET o == OpOf(n)  L == LeftOf(n)  R == RightOf(n) IN
         /\ (IsBin(L) => Bp(OpOf(L)) >= Bp(o))                                 \* equal precedence groups to the left
         /\ (IsBin(R) => (Bp(OpOf(R)) > Bp(o) \/ (o = ":=" /\ OpOf(R) = ":=")))  \* := groups to the right
         /\ WellShaped(L) /\ WellShaped(R)
RECURSIVE Yield(_)
Yield(n) == IF IsBin(n) THEN Yield(LeftOf(n)) \o <<OpOf(n)>> \o Yield(RightOf(n)) ELSE <<"x">>
RECURSIVE ChainYield(_, _)
ChainYield(ch, i) == IF i > Len(ch) THEN <<>> ELSE <<ch[i], "x">> \o ChainYield(ch, i + 1)
PrecedenceHolds ==
    (done /\ flav \notin {"neg", "negsp", "wildn"} /\ (\A i \in 1..Len(chain) : chain[i] \in BinOps)) =>
        LET R == RawParse(Tight(flav, chain))
        IN  ~R.err => (WellShaped(R.node) /\ Yield(R.node) = <<"x">> \o ChainYield(chain, 1))
=============================================================================
