------------------------------ MODULE JLexFn ------------------------------
(***************************************************************************)
(* The scanner of jparse as a step machine over BYTE strings (C08, C04,    *)
(* C11).  State of the scanner: cur (byte offset of the next unread byte), *)
(* start (offset where the current token began), width (bytes of the last  *)
(* rune read, 0 once it has been unread), err.  One step = one token.      *)
(*                                                                         *)
(* The pinned scanner re-used a stale `width` when it stepped back after a *)
(* failed look-ahead and could emit an empty name token without advancing; *)
(* that mechanism is kept as the deviation Stale = TRUE so that TLC shows  *)
(* it violates Bounds / Progress / Termination, which the repaired         *)
(* mechanism (Stale = FALSE) satisfies.                                    *)
(***************************************************************************)
EXTENDS Integers, Sequences, FiniteSets, TLC

CONSTANT Stale

EOFR == 0 - 1            \* "rune" returned at end of input
BADR == 65533            \* utf8.RuneError

\* utf8.DecodeRuneInString at byte offset p (0-based) of B: [r, w]
Cont(b) == b >= 128 /\ b <= 191
DecodeAt(B, p) ==
    LET n == Len(B) - p
        b0 == B[p + 1]
        b(i) == B[p + 1 + i]
    IN  IF b0 < 128 THEN [r |-> b0, w |-> 1]
        ELSE IF b0 >= 194 /\ b0 <= 223 /\ n >= 2 /\ Cont(b(1)) THEN [r |-> (b0 - 192) * 64 + (b(1) - 128), w |-> 2]
        ELSE IF b0 >= 224 /\ b0 <= 239 /\ n >= 3 /\ Cont(b(1)) /\ Cont(b(2))
                /\ (b0 # 224 \/ b(1) >= 160) /\ (b0 # 237 \/ b(1) <= 159)
             THEN [r |-> (b0 - 224) * 4096 + (b(1) - 128) * 64 + (b(2) - 128), w |-> 3]
        ELSE IF b0 >= 240 /\ b0 <= 244 /\ n >= 4 /\ Cont(b(1)) /\ Cont(b(2)) /\ Cont(b(3))
                /\ (b0 # 240 \/ b(1) >= 144) /\ (b0 # 244 \/ b(1) <= 143)
             THEN [r |-> (b0 - 240) * 262144 + (b(1) - 128) * 4096 + (b(2) - 128) * 64 + (b(3) - 128), w |-> 4]
        ELSE [r |-> BADR, w |-> 1]

\* scanner state
LInit == [cur |-> 0, start |-> 0, width |-> 0, err |-> FALSE]

NextRune(B, L) ==
    IF L.err \/ L.cur >= Len(B) \/ L.cur < 0 THEN [r |-> EOFR, L |-> [L EXCEPT !.width = 0]]
    ELSE LET d == DecodeAt(B, L.cur) IN [r |-> d.r, L |-> [L EXCEPT !.width = d.w, !.cur = @ + d.w]]

\* unread the last rune; the repaired scanner can do that only once
Backup(L) == [L EXCEPT !.cur = @ - L.width, !.width = IF Stale THEN @ ELSE 0]
Ignore(L) == [L EXCEPT !.start = L.cur]

Accept(B, L, P(_)) == LET N == NextRune(B, L) IN IF P(N.r) THEN [ok |-> TRUE, L |-> N.L] ELSE [ok |-> FALSE, L |-> Backup(N.L)]
RECURSIVE AcceptAllFrom(_, _, _, _)
AcceptAllFrom(B, L, P(_), any) == LET A == Accept(B, L, P) IN IF A.ok THEN AcceptAllFrom(B, A.L, P, TRUE) ELSE [ok |-> any, L |-> A.L]
AcceptAll(B, L, P(_)) == AcceptAllFrom(B, L, P, FALSE)

IsLexWs(r) == r \in {32, 9, 10, 13, 11}
IsDigit(r) == r >= 48 /\ r <= 57
IsNonZeroDigit(r) == r >= 49 /\ r <= 57
IsFlag(r) == r \in {105, 109, 115}

Sym1 == [r \in {91, 93, 123, 125, 40, 41, 46, 44, 59, 58, 63, 43, 45, 42, 47, 37, 124, 61, 60, 62, 94, 38} |->
           CASE r = 91 -> "[" [] r = 93 -> "]" [] r = 123 -> "{" [] r = 125 -> "}" [] r = 40 -> "(" [] r = 41 -> ")"
             [] r = 46 -> "." [] r = 44 -> "," [] r = 59 -> ";" [] r = 58 -> ":" [] r = 63 -> "?" [] r = 43 -> "+"
             [] r = 45 -> "-" [] r = 42 -> "*" [] r = 47 -> "/" [] r = 37 -> "%" [] r = 124 -> "|" [] r = 61 -> "="
             [] r = 60 -> "<" [] r = 62 -> ">" [] r = 94 -> "^" [] r = 38 -> "&"]
HasSym1(r) == r \in DOMAIN Sym1
\* two-character symbols: first rune -> <<second rune, token>>
Sym2 == [r \in {33, 60, 62, 46, 126, 58, 42} |->
           CASE r = 33 -> <<61, "!=">> [] r = 60 -> <<61, "<=">> [] r = 62 -> <<61, ">=">> [] r = 46 -> <<46, "..">>
             [] r = 126 -> <<62, "~>">> [] r = 58 -> <<61, ":=">> [] r = 42 -> <<42, "**">>]
HasSym2(r) == r \in DOMAIN Sym2

\* a token: [ty, s, e] with byte range s..e (exclusive); the scanner state after it
NewToken(L, ty) == [tok |-> [ty |-> ty, s |-> L.start, e |-> L.cur], L |-> [L EXCEPT !.width = 0, !.start = L.cur]]
ErrToken(L) == [tok |-> [ty |-> "error", s |-> L.start, e |-> L.cur], L |-> [L EXCEPT !.width = 0, !.start = L.cur, !.err = TRUE]]

RECURSIVE ScanString(_, _, _), ScanRegex(_, _, _), ScanEscName(_, _), ScanNameLoop(_, _, _)
ScanString(B, L, quote) ==
    LET N == NextRune(B, L) IN
    IF N.r = quote THEN LET T == NewToken(Backup(N.L), "string") IN [tok |-> T.tok, L |-> Ignore(Accept(B, T.L, LAMBDA c : c = quote).L)]
    ELSE IF N.r = 92 THEN (LET M == NextRune(B, N.L) IN IF M.r # EOFR THEN ScanString(B, M.L, quote) ELSE ErrToken(M.L))
    ELSE IF N.r = EOFR THEN ErrToken(N.L)
    ELSE ScanString(B, N.L, quote)

ScanRegex(B, L, depth) ==
    LET N == NextRune(B, L) IN
    IF N.r = 47 /\ depth = 0 THEN
         LET T == NewToken(Backup(N.L), "regex")
             A == Ignore(Accept(B, T.L, LAMBDA c : c = 47).L)
             F == AcceptAll(B, A, IsFlag)
         \* the flags i, m, s follow the closing slash; their byte range is kept with the token
         IN  [tok |-> [ty |-> "regex", s |-> T.tok.s, e |-> T.tok.e, fs |-> A.cur, fe |-> F.L.cur],
              L |-> IF F.ok THEN NewToken(F.L, "flags").L ELSE F.L]
    ELSE IF N.r \in {40, 91, 123} THEN ScanRegex(B, N.L, depth + 1)
    ELSE IF N.r \in {41, 93, 125} THEN ScanRegex(B, N.L, depth - 1)
    ELSE IF N.r = 92 THEN (LET M == NextRune(B, N.L) IN IF M.r # EOFR /\ M.r # 10 THEN ScanRegex(B, M.L, depth) ELSE ErrToken(M.L))
    ELSE IF N.r = EOFR \/ N.r = 10 THEN ErrToken(N.L)
    ELSE ScanRegex(B, N.L, depth)

ScanEscName(B, L) ==
    LET N == NextRune(B, L) IN
    IF N.r = 96 THEN LET T == NewToken(Backup(N.L), "nameesc") IN [tok |-> T.tok, L |-> Ignore(Accept(B, T.L, LAMBDA c : c = 96).L)]
    ELSE IF N.r = EOFR \/ N.r = 10 THEN ErrToken(N.L)
    ELSE ScanEscName(B, N.L)

ScanNumber(B, L) ==
    LET Z == Accept(B, L, LAMBDA c : c = 48)
        I == IF Z.ok THEN Z.L ELSE AcceptAll(B, Accept(B, Z.L, IsNonZeroDigit).L, IsDigit).L
        D == Accept(B, I, LAMBDA c : c = 46)
    IN  IF D.ok /\ ~AcceptAll(B, D.L, IsDigit).ok
        THEN \* not a fraction: unread the dot (the pinned scanner called backup() with whatever width was left)
             LET F == AcceptAll(B, D.L, IsDigit).L
             IN  NewToken(IF Stale THEN Backup(F) ELSE [F EXCEPT !.cur = @ - 1, !.width = 0], "number")
        ELSE LET F == IF D.ok THEN AcceptAll(B, D.L, IsDigit).L ELSE D.L
                 E == Accept(B, F, LAMBDA c : c \in {101, 69})
                 G == IF E.ok THEN AcceptAll(B, Accept(B, E.L, LAMBDA c : c \in {43, 45}).L, IsDigit).L ELSE E.L
             IN  NewToken(G, "number")

ScanNameLoop(B, L, first) ==
    LET N == NextRune(B, L) IN
    IF N.r = EOFR THEN N.L
    ELSE IF IsLexWs(N.r) THEN Backup(N.L)
    ELSE IF (Stale \/ ~first) /\ (HasSym1(N.r) \/ HasSym2(N.r)) THEN Backup(N.L)
    ELSE ScanNameLoop(B, N.L, FALSE)
ScanName(B, L) ==
    LET V == Accept(B, L, LAMBDA c : c = 36)
        L1 == IF V.ok THEN Ignore(V.L) ELSE V.L
        L2 == ScanNameLoop(B, L1, ~V.ok)
    IN  NewToken(L2, IF V.ok THEN "variable" ELSE "name")

\* lexer.next(allowRegex)
LexToken(B, L0, allowRegex) ==
    LET L == Ignore(AcceptAll(B, L0, IsLexWs).L)
        N == NextRune(B, L)
        ch == N.r
    IN  IF ch = EOFR THEN [tok |-> [ty |-> "eof", s |-> N.L.cur, e |-> N.L.cur], L |-> N.L]
        ELSE IF allowRegex /\ ch = 47 THEN ScanRegex(B, Ignore(N.L), 0)
        ELSE LET S2 == IF HasSym2(ch) THEN Accept(B, N.L, LAMBDA c : c = Sym2[ch][1]) ELSE [ok |-> FALSE, L |-> N.L]
                 \* after a failed look-ahead the last rune read is ch again (repaired scanner)
                 L2 == IF HasSym2(ch) /\ ~S2.ok /\ ~Stale THEN [S2.L EXCEPT !.width = N.L.width] ELSE S2.L
             IN  IF S2.ok THEN NewToken(S2.L, Sym2[ch][2])
                 ELSE IF HasSym1(ch) THEN NewToken(L2, Sym1[ch])
                 ELSE IF ch \in {34, 39} THEN ScanString(B, Ignore(L2), ch)
                 ELSE IF IsDigit(ch) THEN ScanNumber(B, Backup(L2))
                 ELSE IF ch = 96 THEN ScanEscName(B, Ignore(L2))
                 ELSE ScanName(B, Backup(L2))
=============================================================================
