------------------------------ MODULE JLibStr ------------------------------
(***************************************************************************)
(* String functions on code-point sequences (C16) and the JSON string form *)
(* of values (O6, $string).  Pure operators: value(s) -> library result.   *)
(*                                                                         *)
(* A library result is [ok |-> "val", v |-> value] | [ok |-> "undef"]      *)
(*   | [ok |-> "err"] | [ok |-> "argtype", i |-> pos] | [ok |-> "argcount"]*)
(*   | [ok |-> "top", why |-> string]                                      *)
(***************************************************************************)
EXTENDS JV

LVal(v)      == [ok |-> "val", v |-> v]
LUndef       == [ok |-> "undef"]
LErr         == [ok |-> "err"]
LArgType(i)  == [ok |-> "argtype", i |-> i]
LArgCount    == [ok |-> "argcount"]
LTop(w)      == [ok |-> "top", why |-> w]

---------------------------------------------------------------------------
(* decimal numerals                                                         *)

Digit(d) == 48 + d
RECURSIVE NatCps(_)
NatCps(n) == IF n < 10 THEN <<Digit(n)>> ELSE NatCps(n \div 10) \o <<Digit(n % 10)>>
IntCps(n) == IF n < 0 THEN <<45>> \o NatCps(0 - n) ELSE NatCps(n)

RECURSIVE Pow2Exp(_)
Pow2Exp(d) == IF d = 1 THEN 0 ELSE 1 + Pow2Exp(d \div 2)
RECURSIVE PowI(_, _)
PowI(b, e) == IF e = 0 THEN 1 ELSE b * PowI(b, e - 1)
RECURSIVE StripTrailingZeros(_)
StripTrailingZeros(ds) == IF ds # <<>> /\ Last(ds) = 48 THEN StripTrailingZeros(Front(ds)) ELSE ds
RECURSIVE PadLeftZeros(_, _)
PadLeftZeros(ds, w) == IF Len(ds) >= w THEN ds ELSE PadLeftZeros(<<48>> \o ds, w)

\* exact decimal form of a dyadic rational with a small denominator (<= 2^9):
\* n / 2^k = n * 5^k / 10^k.  This is also the shortest form that reads back.
\* smallest k <= 9 with d | 10^k, or -1: the number of fraction digits of the finite decimal n/d
RECURSIVE FracDigits(_, _)
FracDigits(d, k) == IF k > 9 THEN 0 - 1 ELSE IF (PowI(10, k) % d) = 0 THEN k ELSE FracDigits(d, k + 1)
\* The decimal form of a number that is a finite decimal with at most 15 significant digits is the
\* shortest form that reads back to its double, which is what the port prints (for magnitudes between
\* 1e-6 and 1e21, where no exponent is used).
NumCps(x) ==
    IF IsZeroU(x) THEN [ok |-> FALSE, s |-> <<>>]
    ELSE IF x.d = 1 THEN [ok |-> TRUE, s |-> IntCps(x.n)]
    ELSE LET k == FracDigits(x.d, 1) IN
         IF k < 0 \/ ~MulFits(x.n, PowI(10, k) \div x.d) THEN [ok |-> FALSE, s |-> <<>>]
         ELSE LET a == AbsI(x.n) * (PowI(10, k) \div x.d)
                  ip == a \div PowI(10, k)
                  fp == a % PowI(10, k)
                  fds == StripTrailingZeros(PadLeftZeros(NatCps(fp), k))
              IN  IF ip = 0 /\ k > 6 /\ fp < PowI(10, k - 6) THEN [ok |-> FALSE, s |-> <<>>]          \* below 1e-6: exponent form
                  ELSE [ok |-> TRUE, s |-> (IF x.n < 0 THEN <<45>> ELSE <<>>) \o NatCps(ip) \o <<46>> \o fds]

---------------------------------------------------------------------------
(* JSON text of a value, as encoding/json prints it (HTML-safe escapes)     *)

HexDigit(h) == IF h < 10 THEN 48 + h ELSE 87 + h
EscCp(c) == CASE c = 34 -> <<92, 34>>
              [] c = 92 -> <<92, 92>>
              [] c = 10 -> <<92, 110>>
              [] c = 13 -> <<92, 114>>
              [] c = 9  -> <<92, 116>>
              [] c < 32 \/ c \in {60, 62, 38} -> <<92, 117, 48, 48, HexDigit(c \div 16), HexDigit(c % 16)>>
              [] c = 8232 -> <<92, 117, 50, 48, 50, 56>>
              [] c = 8233 -> <<92, 117, 50, 48, 50, 57>>
              [] OTHER -> <<c>>
QuoteCps(s) == <<34>> \o SeqConcatAll([i \in 1..Len(s) |-> EscCp(s[i])]) \o <<34>>

RECURSIVE JoinCps(_, _)
JoinCps(parts, sep) == IF parts = <<>> THEN <<>>
                       ELSE IF Len(parts) = 1 THEN parts[1]
                       ELSE parts[1] \o sep \o JoinCps(Tail(parts), sep)

RECURSIVE JsonText(_)
JsonText(x) ==
    CASE x.t = "null" -> [ok |-> TRUE, s |-> <<110, 117, 108, 108>>]
      [] x.t = "bool" -> [ok |-> TRUE, s |-> IF x.b THEN <<116, 114, 117, 101>> ELSE <<102, 97, 108, 115, 101>>]
      [] x.t = "num"  -> NumCps(x)
      [] x.t = "str"  -> [ok |-> TRUE, s |-> QuoteCps(x.s)]
      [] x.t = "fn"   -> [ok |-> TRUE, s |-> <<34, 34>>]
      [] x.t = "arr"  -> LET ps == [i \in 1..Len(x.v) |-> JsonText(x.v[i])]
                         IN  IF \E i \in 1..Len(ps) : ~ps[i].ok THEN [ok |-> FALSE, s |-> <<>>]
                             ELSE [ok |-> TRUE, s |-> <<91>> \o JoinCps([i \in 1..Len(ps) |-> ps[i].s], <<44>>) \o <<93>>]
      [] x.t = "obj"  -> LET ps == [i \in 1..Len(x.m) |-> JsonText(x.m[i][2])]
                         IN  IF \E i \in 1..Len(ps) : ~ps[i].ok THEN [ok |-> FALSE, s |-> <<>>]
                             ELSE [ok |-> TRUE, s |-> <<123>> \o JoinCps([i \in 1..Len(ps) |-> QuoteCps(x.m[i][1]) \o <<58>> \o ps[i].s], <<44>>) \o <<125>>]
      [] OTHER -> [ok |-> FALSE, s |-> <<>>]

\* $string / operand of `&`: strings unchanged, functions empty, everything else its JSON text
Stringify(x) == CASE x.t = "str" -> [ok |-> TRUE, s |-> x.s]
                  [] x.t = "fn"  -> [ok |-> TRUE, s |-> <<>>]
                  [] OTHER -> JsonText(x)

---------------------------------------------------------------------------
(* C16: code-point functions (Z1-Z5)                                        *)

\* first index (1-based) at which `pat` occurs in s at or after `from`; 0 if none
RECURSIVE IndexOfFrom(_, _, _)
IndexOfFrom(s, pat, from) ==
    IF from + Len(pat) - 1 > Len(s) THEN 0
    ELSE IF SubSeq(s, from, from + Len(pat) - 1) = pat THEN from
    ELSE IndexOfFrom(s, pat, from + 1)
IndexOf(s, pat) == IndexOfFrom(s, pat, 1)

\* parameters: numbers are converted to integers by truncation toward zero (open, Z1: floor)
IntParam(x, floorMode) == IF floorMode THEN NumFloor(x) ELSE NumTrunc(x)

Substring(s, start, hasLen, len) ==
    LET n == Len(s)
        st0 == IF start < 0 THEN MaxI(start + n, 0) ELSE start
    IN  IF (hasLen /\ len <= 0) \/ start >= n THEN <<>>
        ELSE LET rest == SubSeq(s, st0 + 1, n)
             IN  IF hasLen /\ len < Len(rest) THEN SubSeq(rest, 1, len) ELSE rest

RECURSIVE Cycle(_, _)
Cycle(chars, n) == IF n <= 0 THEN <<>> ELSE IF n <= Len(chars) THEN SubSeq(chars, 1, n) ELSE chars \o Cycle(chars, n - Len(chars))
Pad(s, width, chars) ==
    LET padlen == AbsI(width) - Len(s)
        ch == IF chars = <<>> THEN <<32>> ELSE chars
    IN  IF padlen <= 0 THEN s
        ELSE IF width < 0 THEN Cycle(ch, padlen) \o s ELSE s \o Cycle(ch, padlen)

IsWs(c) == c \in {9, 10, 11, 12, 13, 32}
RECURSIVE CollapseWs(_, _)
CollapseWs(s, prevWs) ==
    IF s = <<>> THEN <<>>
    ELSE IF IsWs(Head(s)) THEN (IF prevWs THEN CollapseWs(Tail(s), TRUE) ELSE <<32>> \o CollapseWs(Tail(s), TRUE))
    ELSE <<Head(s)>> \o CollapseWs(Tail(s), FALSE)
Trim(s) == LET c == CollapseWs(s, TRUE)       \* leading run dropped
           IN  IF c # <<>> /\ Last(c) = 32 THEN Front(c) ELSE c

\* exhaustive split by a non-empty separator
RECURSIVE SplitBy(_, _)
SplitBy(s, sep) == LET i == IndexOf(s, sep)
                   IN  IF i = 0 THEN <<s>>
                       ELSE <<SubSeq(s, 1, i - 1)>> \o SplitBy(SubSeq(s, i + Len(sep), Len(s)), sep)
SplitCps(s, sep) == IF sep = <<>> THEN [i \in 1..Len(s) |-> <<s[i]>>] ELSE SplitBy(s, sep)

\* left-to-right non-overlapping replacement, at most `limit` times (limit < 0: all)
RECURSIVE ReplaceCps(_, _, _, _)
ReplaceCps(s, pat, rep, limit) ==
    LET i == IndexOf(s, pat)
    IN  IF i = 0 \/ limit = 0 THEN s
        ELSE SubSeq(s, 1, i - 1) \o rep \o ReplaceCps(SubSeq(s, i + Len(pat), Len(s)), pat, rep, limit - 1)

\* case mapping: explicit table for the modelled alphabet (ASCII, Latin-1 letters, Greek, Cyrillic basic)
Upper(c) == IF c >= 97 /\ c <= 122 THEN c - 32
            ELSE IF (c >= 224 /\ c <= 254 /\ c # 247) THEN c - 32
            ELSE IF c >= 945 /\ c <= 969 /\ c # 962 THEN c - 32
            ELSE IF c >= 1072 /\ c <= 1103 THEN c - 32
            ELSE c
Lower(c) == IF c >= 65 /\ c <= 90 THEN c + 32
            ELSE IF (c >= 192 /\ c <= 222 /\ c # 215) THEN c + 32
            ELSE IF c >= 913 /\ c <= 937 /\ c # 930 THEN c + 32
            ELSE IF c >= 1040 /\ c <= 1071 THEN c + 32
            ELSE c
\* code points whose case mapping the table covers exactly
CaseModelled(c) == c < 128 \/ (c >= 192 /\ c <= 254 /\ c # 223) \/ (c >= 913 /\ c <= 969 /\ c # 962) \/ (c >= 1040 /\ c <= 1103)
                   \/ c \in {8364, 128512, 32, 8232}

---------------------------------------------------------------------------
(* UTF-8 and base64, arithmetically (Z6)                                    *)

Utf8(c) == IF c < 128 THEN <<c>>
           ELSE IF c < 2048 THEN <<192 + (c \div 64), 128 + (c % 64)>>
           ELSE IF c < 65536 THEN <<224 + (c \div 4096), 128 + ((c \div 64) % 64), 128 + (c % 64)>>
           ELSE <<240 + (c \div 262144), 128 + ((c \div 4096) % 64), 128 + ((c \div 64) % 64), 128 + (c % 64)>>
Utf8Bytes(s) == SeqConcatAll([i \in 1..Len(s) |-> Utf8(s[i])])

\* decode; returns [ok, s]
RECURSIVE Utf8Decode(_)
Utf8Decode(bs) ==
    IF bs = <<>> THEN [ok |-> TRUE, s |-> <<>>]
    ELSE LET b == bs[1]
             need == IF b < 128 THEN 1 ELSE IF b >= 194 /\ b < 224 THEN 2 ELSE IF b >= 224 /\ b < 240 THEN 3 ELSE IF b >= 240 /\ b < 245 THEN 4 ELSE 0
         IN  IF need = 0 \/ Len(bs) < need \/ (\E j \in 2..need : bs[j] < 128 \/ bs[j] > 191) THEN [ok |-> FALSE, s |-> <<>>]
             ELSE LET c == CASE need = 1 -> b
                             [] need = 2 -> (b - 192) * 64 + (bs[2] - 128)
                             [] need = 3 -> (b - 224) * 4096 + (bs[2] - 128) * 64 + (bs[3] - 128)
                             [] need = 4 -> (b - 240) * 262144 + (bs[2] - 128) * 4096 + (bs[3] - 128) * 64 + (bs[4] - 128)
                      min == CASE need = 1 -> 0 [] need = 2 -> 128 [] need = 3 -> 2048 [] need = 4 -> 65536
                      R == Utf8Decode(SubSeq(bs, need + 1, Len(bs)))
                  IN  IF c < min \/ c > 1114111 \/ (c >= 55296 /\ c <= 57343) \/ ~R.ok THEN [ok |-> FALSE, s |-> <<>>]
                      ELSE [ok |-> TRUE, s |-> <<c>> \o R.s]

B64Char(i) == IF i < 26 THEN 65 + i ELSE IF i < 52 THEN 97 + (i - 26) ELSE IF i < 62 THEN 48 + (i - 52) ELSE IF i = 62 THEN 43 ELSE 47
B64Val(c) == IF c >= 65 /\ c <= 90 THEN c - 65 ELSE IF c >= 97 /\ c <= 122 THEN c - 97 + 26
             ELSE IF c >= 48 /\ c <= 57 THEN c - 48 + 52 ELSE IF c = 43 THEN 62 ELSE IF c = 47 THEN 63 ELSE 0 - 1
RECURSIVE B64Enc(_)
B64Enc(bs) ==
    IF bs = <<>> THEN <<>>
    ELSE IF Len(bs) = 1 THEN <<B64Char(bs[1] \div 4), B64Char((bs[1] % 4) * 16), 61, 61>>
    ELSE IF Len(bs) = 2 THEN <<B64Char(bs[1] \div 4), B64Char((bs[1] % 4) * 16 + (bs[2] \div 16)), B64Char((bs[2] % 16) * 4), 61>>
    ELSE <<B64Char(bs[1] \div 4), B64Char((bs[1] % 4) * 16 + (bs[2] \div 16)),
           B64Char((bs[2] % 16) * 4 + (bs[3] \div 64)), B64Char(bs[3] % 64)>> \o B64Enc(SubSeq(bs, 4, Len(bs)))
\* strict standard decoding with padding; [ok, bs]
RECURSIVE B64Dec(_)
B64Dec(cs) ==
    IF cs = <<>> THEN [ok |-> TRUE, bs |-> <<>>]
    ELSE IF Len(cs) < 4 THEN [ok |-> FALSE, bs |-> <<>>]
    ELSE LET a == B64Val(cs[1])  b == B64Val(cs[2])  c == B64Val(cs[3])  d == B64Val(cs[4])
         IN  IF a < 0 \/ b < 0 THEN [ok |-> FALSE, bs |-> <<>>]
             ELSE IF cs[3] = 61 /\ cs[4] = 61 THEN
                  (IF Len(cs) = 4 /\ (b % 16) = 0 THEN [ok |-> TRUE, bs |-> <<a * 4 + (b \div 16)>>] ELSE [ok |-> FALSE, bs |-> <<>>])
             ELSE IF cs[4] = 61 THEN
                  (IF Len(cs) = 4 /\ c >= 0 /\ (c % 4) = 0 THEN [ok |-> TRUE, bs |-> <<a * 4 + (b \div 16), (b % 16) * 16 + (c \div 4)>>] ELSE [ok |-> FALSE, bs |-> <<>>])
             ELSE IF c < 0 \/ d < 0 THEN [ok |-> FALSE, bs |-> <<>>]
             ELSE LET R == B64Dec(SubSeq(cs, 5, Len(cs)))
                  IN  IF ~R.ok THEN R
                      ELSE [ok |-> TRUE, bs |-> <<a * 4 + (b \div 16), (b % 16) * 16 + (c \div 4), (c % 4) * 64 + d>> \o R.bs]

\* percent-encoding: unreserved set of encodeURIComponent / encodeURI
HexU(h) == IF h < 10 THEN 48 + h ELSE 55 + h
PctByte(b) == <<37, HexU(b \div 16), HexU(b % 16)>>
AlnumC(c) == (c >= 48 /\ c <= 57) \/ (c >= 65 /\ c <= 90) \/ (c >= 97 /\ c <= 122)
UnresComp(c) == AlnumC(c) \/ c \in {45, 95, 46, 33, 126, 42, 39, 40, 41}
UnresUri(c)  == UnresComp(c) \/ c \in {59, 47, 63, 58, 64, 38, 61, 43, 36, 44, 35}
\* The statement fixes the round trip, not the escaping convention.  Two conventions are
\* allowed (open choice url_form): the form-encoding one (unreserved = letters, digits, - _ . ~ ;
\* a space is written "+", and "+" reads back as a space) and the URI-component one.
UnresForm(c) == AlnumC(c) \/ c \in {45, 95, 46, 126}
UrlEnc(s, form) == SeqConcatAll([i \in 1..Len(s) |->
                      IF form /\ s[i] = 32 THEN <<43>>
                      ELSE IF (form /\ UnresForm(s[i])) \/ (~form /\ UnresComp(s[i])) THEN <<s[i]>>
                      ELSE SeqConcatAll(SeqMap(PctByte, Utf8(s[i])))])
PlusToSpace(s) == [i \in 1..Len(s) |-> IF s[i] = 43 THEN 32 ELSE s[i]]
HexVal(c) == IF c >= 48 /\ c <= 57 THEN c - 48 ELSE IF c >= 65 /\ c <= 70 THEN c - 55 ELSE IF c >= 97 /\ c <= 102 THEN c - 87 ELSE 0 - 1
\* percent-decoding to bytes; [ok, bs]
RECURSIVE PctDecode(_)
PctDecode(s) ==
    IF s = <<>> THEN [ok |-> TRUE, bs |-> <<>>]
    ELSE IF s[1] = 37 THEN
         (IF Len(s) < 3 \/ HexVal(s[2]) < 0 \/ HexVal(s[3]) < 0 THEN [ok |-> FALSE, bs |-> <<>>]
          ELSE LET R == PctDecode(SubSeq(s, 4, Len(s))) IN
               IF ~R.ok THEN R ELSE [ok |-> TRUE, bs |-> <<HexVal(s[2]) * 16 + HexVal(s[3])>> \o R.bs])
    ELSE LET R == PctDecode(Tail(s)) IN IF ~R.ok THEN R ELSE [ok |-> TRUE, bs |-> Utf8(s[1]) \o R.bs]

---------------------------------------------------------------------------
(* dispatch: a = argument values after context insertion, none is checked   *)
(* for "first argument missing" here (the evaluator did that)               *)

StrFnNames == {"length", "substring", "substringBefore", "substringAfter", "uppercase", "lowercase", "pad",
               "trim", "contains", "split", "join", "replace", "base64encode", "base64decode",
               "encodeUrl", "encodeUrlComponent", "decodeUrl", "decodeUrlComponent"}

StrCall(nm, a, md) ==
    LET n == Len(a)
        A(i) == IF i <= n THEN a[i] ELSE Undef
        S(i) == IsStr(A(i))
        N(i) == IsNum(A(i))
        ip(i) == IntParam(a[i], md.floor_params)
        \* fractional parameters: open between truncation and floor; equal unless negative and fractional
    IN
    CASE nm = "length" -> IF n # 1 THEN LArgCount ELSE IF ~S(1) THEN LArgType(1) ELSE LVal(IntV(Len(a[1].s)))
      [] nm \in {"uppercase", "lowercase"} ->
           IF n # 1 THEN LArgCount ELSE IF ~S(1) THEN LArgType(1)
           ELSE IF \E i \in 1..Len(a[1].s) : ~CaseModelled(a[1].s[i]) THEN LTop("case mapping outside the table")
           ELSE LVal(Str([i \in 1..Len(a[1].s) |-> IF nm = "uppercase" THEN Upper(a[1].s[i]) ELSE Lower(a[1].s[i])]))
      [] nm = "trim" -> IF n # 1 THEN LArgCount ELSE IF ~S(1) THEN LArgType(1)
                        ELSE IF \E i \in 1..Len(a[1].s) : (a[1].s[i] \in {133, 160} \/ (a[1].s[i] >= 5760 /\ a[1].s[i] <= 12288)) THEN LTop("unicode whitespace")
                        ELSE LVal(Str(Trim(a[1].s)))
      [] nm = "substring" ->
           IF n < 2 \/ n > 3 THEN LArgCount ELSE IF ~S(1) THEN LArgType(1) ELSE IF ~N(2) THEN LArgType(2)
           ELSE IF n = 3 /\ ~IsUndef(a[3]) /\ ~N(3) THEN LArgType(3)
           ELSE LVal(Str(Substring(a[1].s, ip(2), n = 3 /\ ~IsUndef(a[3]), IF n = 3 /\ ~IsUndef(a[3]) THEN ip(3) ELSE 0)))
      [] nm \in {"substringBefore", "substringAfter"} ->
           IF n # 2 THEN LArgCount ELSE IF ~S(1) THEN LArgType(1) ELSE IF ~S(2) THEN LArgType(2)
           ELSE LET i == IndexOf(a[1].s, a[2].s) IN
                IF i = 0 THEN LVal(a[1])
                ELSE IF nm = "substringBefore" THEN LVal(Str(SubSeq(a[1].s, 1, i - 1)))
                ELSE LVal(Str(SubSeq(a[1].s, i + Len(a[2].s), Len(a[1].s))))
      [] nm = "pad" ->
           IF n < 2 \/ n > 3 THEN LArgCount ELSE IF ~S(1) THEN LArgType(1) ELSE IF ~N(2) THEN LArgType(2)
           ELSE IF n = 3 /\ ~IsUndef(a[3]) /\ ~S(3) THEN LArgType(3)
           ELSE IF AbsI(ip(2)) > 500 THEN LTop("padding too long for the model")
           ELSE LVal(Str(Pad(a[1].s, ip(2), IF n = 3 /\ ~IsUndef(a[3]) THEN a[3].s ELSE <<>>)))
      [] nm = "contains" ->
           IF n # 2 THEN LArgCount ELSE IF ~S(1) THEN LArgType(1)
           ELSE IF IsFn(A(2)) THEN LTop("regex")
           ELSE IF ~S(2) THEN LArgType(2)
           ELSE LVal(Bool(IndexOf(a[1].s, a[2].s) # 0))
      [] nm = "split" ->
           IF n < 2 \/ n > 3 THEN LArgCount ELSE IF ~S(1) THEN LArgType(1)
           ELSE IF IsFn(A(2)) THEN LTop("regex")
           ELSE IF ~S(2) THEN LArgType(2)
           ELSE IF n = 3 /\ ~IsUndef(a[3]) /\ ~N(3) THEN LArgType(3)
           ELSE IF n = 3 /\ ~IsUndef(a[3]) /\ ip(3) < 0 THEN LErr
           ELSE LET parts == SplitCps(a[1].s, a[2].s)
                    cut == IF n = 3 /\ ~IsUndef(a[3]) /\ ip(3) < Len(parts) THEN SubSeq(parts, 1, ip(3)) ELSE parts
                IN  LVal(Arr([i \in 1..Len(cut) |-> Str(cut[i])]))
      [] nm = "join" ->
           IF n < 1 \/ n > 2 THEN LArgCount
           ELSE IF n = 2 /\ ~IsUndef(a[2]) /\ ~S(2) THEN LArgType(2)
           ELSE IF S(1) THEN LVal(a[1])
           ELSE IF IsArr(a[1]) /\ \A i \in 1..Len(a[1].v) : IsStr(a[1].v[i])
                THEN LVal(Str(JoinCps([i \in 1..Len(a[1].v) |-> a[1].v[i].s], IF n = 2 /\ ~IsUndef(a[2]) THEN a[2].s ELSE <<>>)))
           ELSE LErr
      [] nm = "replace" ->
           IF n < 3 \/ n > 4 THEN LArgCount ELSE IF ~S(1) THEN LArgType(1)
           ELSE IF IsFn(A(2)) THEN LTop("regex")
           ELSE IF ~S(2) THEN LArgType(2)
           ELSE IF ~(S(3) \/ IsFn(A(3))) THEN LArgType(3)
           ELSE IF n = 4 /\ ~IsUndef(a[4]) /\ ~N(4) THEN LArgType(4)
           ELSE IF n = 4 /\ ~IsUndef(a[4]) /\ ip(4) < 0 THEN LErr
           ELSE IF a[2].s = <<>> THEN LErr
           ELSE IF ~S(3) THEN LErr
           ELSE LVal(Str(ReplaceCps(a[1].s, a[2].s, a[3].s, IF n = 4 /\ ~IsUndef(a[4]) THEN ip(4) ELSE 0 - 1)))
      [] nm = "base64encode" -> IF n # 1 THEN LArgCount ELSE IF ~S(1) THEN LArgType(1) ELSE LVal(Str(B64Enc(Utf8Bytes(a[1].s))))
      [] nm = "base64decode" -> IF n # 1 THEN LArgCount ELSE IF ~S(1) THEN LArgType(1)
                                ELSE LET D == B64Dec(a[1].s) IN
                                     IF ~D.ok THEN LErr
                                     ELSE LET U == Utf8Decode(D.bs) IN IF U.ok THEN LVal(Str(U.s)) ELSE LTop("base64 of non-UTF-8 bytes")
      [] nm \in {"encodeUrl", "encodeUrlComponent"} ->
           IF n # 1 THEN LArgCount ELSE IF ~S(1) THEN LArgType(1)
           ELSE IF a[1].s = <<65533>> THEN LTop("the string that is just U+FFFD is rejected by design")
           ELSE IF nm = "encodeUrl" THEN LTop("$encodeUrl: the statement gives no law for whole-URL encoding")
           ELSE LVal(Str(UrlEnc(a[1].s, md.url_form)))
      [] nm \in {"decodeUrl", "decodeUrlComponent"} ->
           IF n # 1 THEN LArgCount ELSE IF ~S(1) THEN LArgType(1)
           ELSE LET D == PctDecode(IF md.url_form THEN PlusToSpace(a[1].s) ELSE a[1].s) IN
                IF ~D.ok THEN LErr
                ELSE LET U == Utf8Decode(D.bs) IN IF U.ok THEN LVal(Str(U.s)) ELSE LTop("percent-decoding to non-UTF-8 bytes")
      [] OTHER -> LTop("unmodelled string function")

=============================================================================
