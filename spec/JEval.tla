------------------------------ MODULE JEval ------------------------------
(***************************************************************************)
(* Reference semantics of JSONata evaluation: the meaning of the `Eval`    *)
(* action of JApi.  Written from the property statements C01..C20 and the  *)
(* rules of DESIGN.md Appendix C, not from the Go code.                    *)
(*                                                                         *)
(*   Run(ast, input, env, md)  ->  outcome                                 *)
(*                                                                         *)
(* An evaluation result is  [x |-> "ok", r |-> value, st |-> store]        *)
(*                      or  [x |-> "err", k |-> kind, st |-> store]        *)
(*                      or  [x |-> "top", why |-> string, st |-> store]    *)
(* "top" means: the specification abstains (a construct or a number it     *)
(* does not model); every legitimate outcome is then allowed.              *)
(*                                                                         *)
(* `md` (in the store) is the vector of *open choices*: behaviours the     *)
(* property texts leave open, plus named deviations used only to classify  *)
(* known findings.  See Modes in JOutcome.                                 *)
(***************************************************************************)
EXTENDS JV, JLibStr, JLibNum, JRegex

Ok(v, st)   == [x |-> "ok", r |-> v, st |-> st]
Er(kind, st)== [x |-> "err", k |-> kind, st |-> st]
Top(w, st)  == [x |-> "top", why |-> w, st |-> st]
\* argument errors carry the position (C12, C20)
ErArg(kind, pos, st) == [x |-> "err", k |-> kind, i |-> pos, st |-> st]
\* E3 (C20): "... naming the function".  An extension value that carries its registered name (`nm`, attached when the registry
\* becomes the root frame) names itself in its argument errors, whether it is called directly, by a higher-order built-in, through
\* a chain or a partial application.  Only a call site that reaches it through a variable of ANOTHER name (an alias, a lambda
\* parameter) leaves the name open: the statement does not say whether the alias or the registered name is "the function".
ErArgF(kind, pos, fn, cx) ==
    IF "nm" \in DOMAIN fn /\ (IF "cn" \in DOMAIN cx THEN cx.cn = fn.nm ELSE TRUE)
    THEN [x |-> "err", k |-> kind, i |-> pos, fname |-> fn.nm, st |-> cx.st]
    ELSE ErArg(kind, pos, cx.st)

Then(R, K(_)) == IF R.x = "ok" THEN K(R) ELSE R

---------------------------------------------------------------------------
(* Store: frames shared by reference (S1)                                   *)

NewFrame(st, parent) == [st EXCEPT !.fr = Append(@, [p |-> parent, m |-> <<>>])]
TopFrame(st) == Len(st.fr)

BindIn(m, nm, val) ==
    IF \E i \in 1..Len(m) : m[i][1] = nm
    THEN [i \in 1..Len(m) |-> IF m[i][1] = nm THEN <<nm, val>> ELSE m[i]]
    ELSE Append(m, <<nm, val>>)
Bind(st, f, nm, val) == [st EXCEPT !.fr[f].m = BindIn(@, nm, val)]

BuiltinNames == {
  "string", "length", "substring", "substringBefore", "substringAfter", "uppercase", "lowercase",
  "pad", "trim", "contains", "split", "join", "match", "replace", "formatNumber", "formatBase",
  "base64encode", "base64decode", "decodeUrl", "decodeUrlComponent", "encodeUrl", "encodeUrlComponent",
  "number", "abs", "floor", "ceil", "round", "power", "sqrt", "random",
  "sum", "max", "min", "average", "boolean", "not", "exists",
  "distinct", "count", "reverse", "sort", "shuffle", "zip", "append", "map", "filter", "reduce", "single",
  "each", "sift", "keys", "lookup", "spread", "merge", "fromMillis", "toMillis", "type", "error",
  "millis", "now" }

Builtin(nm) == [t |-> "fn", k |-> "builtin", nm |-> nm]

RECURSIVE LookupVar(_, _, _)
LookupVar(st, f, nm) ==
    IF f = 0 THEN (IF nm \in BuiltinNames THEN Builtin(nm) ELSE Undef)
    ELSE LET m == st.fr[f].m
             idx == {i \in 1..Len(m) : m[i][1] = nm}
         IN  IF idx # {} THEN m[CHOOSE i \in idx : TRUE][2]
             ELSE LookupVar(st, st.fr[f].p, nm)

---------------------------------------------------------------------------
(* Operators (C03)                                                          *)

NumResult(v, st) == IF v.t = "numx" THEN Top("number outside the model", st) ELSE Ok(v, st)

\* O1.  a, b are values (possibly Undef)
NumOpResult(op, a, b, st) ==
    IF ~IsUndef(a) /\ ~IsNum(a) THEN
         \* open (O1): a missing right side with an ill-typed left side
         IF IsUndef(b) /\ st.md.o1_undef_wins THEN Ok(Undef, st) ELSE Er("NonNumberLHS", st)
    ELSE IF ~IsUndef(b) /\ ~IsNum(b) THEN
         IF IsUndef(a) /\ st.md.o1_undef_wins THEN Ok(Undef, st) ELSE Er("NonNumberRHS", st)
    ELSE IF IsUndef(a) \/ IsUndef(b) THEN Ok(Undef, st)
    ELSE CASE op = "+" -> NumResult(NumAdd(a, b), st)
           [] op = "-" -> NumResult(NumSub(a, b), st)
           [] op = "*" -> NumResult(NumMul(a, b), st)
           [] op = "/" -> IF NumIsZero(b) THEN (IF NumIsZero(a) THEN Er("NumberNaN", st) ELSE Er("NumberInf", st))
                          ELSE NumResult(NumDiv(a, b), st)
           [] op = "%" -> IF NumIsZero(b) THEN Er("NumberNaN", st) ELSE NumResult(NumMod(a, b), st)

\* O2/O3/O4
Comparable(x) == IsNum(x) \/ IsStr(x)
ValLt(a, b) == IF IsNum(a) THEN NumLt(a, b) ELSE CpsLt(a.s, b.s)
CmpResult(op, a, b, st) ==
    LET ordered == op \in {"<", "<=", ">", ">="} IN
    IF ordered /\ ~IsUndef(a) /\ ~Comparable(a) THEN Er("NonComparableLHS", st)
    ELSE IF ordered /\ ~IsUndef(b) /\ ~Comparable(b) THEN Er("NonComparableRHS", st)
    ELSE IF ordered /\ ~IsUndef(a) /\ ~IsUndef(b) /\ a.t # b.t THEN Er("TypeMismatch", st)
    ELSE IF IsUndef(a) \/ IsUndef(b) THEN Ok(Bool(FALSE), st)
    ELSE IF ~ordered /\ (HasFn(a) \/ HasFn(b)) THEN Top("equality on functions is open", st)
    ELSE CASE op = "="  -> Ok(Bool(JEq(a, b)), st)
           [] op = "!=" -> Ok(Bool(~JEq(a, b)), st)
           [] op = "in" -> Ok(Bool(\E i \in 1..Len(Arrayify(b)) : JEq(a, Arrayify(b)[i])), st)
           [] op = "<"  -> Ok(Bool(ValLt(a, b)), st)
           [] op = "<=" -> Ok(Bool(~ValLt(b, a)), st)
           [] op = ">"  -> Ok(Bool(ValLt(b, a)), st)
           [] op = ">=" -> Ok(Bool(~ValLt(a, b)), st)

\* O6: string form for `&`
ConcatPart(x) == IF IsUndef(x) THEN [ok |-> TRUE, s |-> <<>>] ELSE Stringify(x)

---------------------------------------------------------------------------
(* Signatures (S3).  A parameter is [ty |-> mask, opt |-> 0..3, sub |-> params] *)
(* masks: n=1 s=2 b=4 l=8 a=16 o=32 f=64 j=128 x=256; opt: 1 "?", 2 "+", 3 "-"  *)

HasBit(mask, bit) == ((mask \div bit) % 2) = 1
RECURSIVE ArgFits(_, _)
ArgFits(arg, p) ==
    IF HasBit(p.ty, 256) THEN TRUE
    ELSE LET js == HasBit(p.ty, 128) IN
         CASE arg.t = "str"  -> js \/ HasBit(p.ty, 2)
           [] arg.t = "num"  -> js \/ HasBit(p.ty, 1)
           [] arg.t = "bool" -> js \/ HasBit(p.ty, 4)
           [] arg.t = "fn"   -> HasBit(p.ty, 64)
           [] arg.t = "arr"  -> js \/ (HasBit(p.ty, 16) /\
                                       (p.sub = <<>> \/ \A i \in 1..Len(arg.v) : ArgFits(arg.v[i], p.sub[1])))
           [] arg.t = "obj"  -> js \/ HasBit(p.ty, 32)
           [] OTHER -> FALSE       \* null: the statement has no rule; the port rejects it

---------------------------------------------------------------------------
(* The evaluator                                                            *)

RECURSIVE Eval(_, _, _, _), EvalList(_, _, _, _, _, _), ReplByFn(_, _, _, _, _, _, _), MapStep(_, _, _, _, _, _),
          PathFrom(_, _, _, _, _), NameOn(_, _, _), ApplyFilters(_, _, _, _, _),
          FilterItems(_, _, _, _, _, _, _), Call(_, _, _), CallBuiltin(_, _, _, _),
          EvalPairsGroup(_, _, _, _), Descend(_), EvalBlock(_, _, _, _, _, _),
          CallSeq(_, _, _, _), HofMap(_, _, _, _, _, _), HofFilter(_, _, _, _, _, _),
          HofReduce(_, _, _, _, _), HofSingle(_, _, _, _, _, _), GroupKeys(_, _, _, _, _, _, _),
          GroupVals(_, _, _, _, _, _, _), SortKeys(_, _, _, _, _, _), CmpSortInsert(_, _, _, _, _),
          EachPairs(_, _, _, _, _), SiftPairs(_, _, _, _, _), PartialArgs(_, _, _, _, _, _),
          ApplyTransformIds(_, _, _, _, _, _)

\* evaluate a list of nodes left to right in the same context; result [x, rs, st]
EvalList(nodes, i, acc, ctx, f, st) ==
    IF i > Len(nodes) THEN [x |-> "ok", rs |-> acc, st |-> st]
    ELSE LET R == Eval(nodes[i], ctx, f, st)
         IN  IF R.x # "ok" THEN R ELSE EvalList(nodes, i + 1, Append(acc, R.r), ctx, f, R.st)

\* ---- paths (C01) ----

\* P7 name lookup
NameOn(v, key, md) ==
    CASE v.t = "obj" -> ObjGet(v, key)
      [] v.t = "arr" ->
           LET parts == [i \in 1..Len(v.v) |->
                          LET r == NameOn(v.v[i], key, md)
                          IN  IF IsUndef(r) THEN <<>>
                              \* a nested array contributes its own matches individually (they form
                              \* one flat result sequence); whether an array-valued *member* is
                              \* spliced too is open (name_unit: kept as one item, as the port does)
                              ELSE IF IsArr(r) /\ (IsArr(v.v[i]) \/ ~md.name_unit) THEN r.v
                              ELSE <<r>>]
           IN  SeqValue(SeqConcatAll(parts), FALSE)
      [] OTHER -> Undef

\* The member order of objects is unspecified in the port (Go maps).  An evaluation that
\* enumerates an object with two or more members is *tainted*: its result is compared up to
\* reordering, and otherwise the specification abstains (JOutcome!Verdict1).
Taint(st) == [st EXCEPT !.perm = TRUE]
RECURSIVE MaxMembers(_)
MaxMembers(x) == CASE x.t = "arr" -> LET ms == {MaxMembers(x.v[i]) : i \in 1..Len(x.v)} IN IF ms = {} THEN 0 ELSE CHOOSE m \in ms : \A m2 \in ms : m2 <= m
                   [] x.t = "obj" -> LET ms == {MaxMembers(x.m[i][2]) : i \in 1..Len(x.m)} \cup {Len(x.m)} IN CHOOSE m \in ms : \A m2 \in ms : m2 <= m
                   [] OTHER -> 0

\* P8: values of all members, arrays flattened completely; over an array: over its members
WildcardItems(v) ==
    LET vals == IF IsObj(v) THEN ObjVals(v) ELSE IF IsArr(v) THEN v.v ELSE <<>>
    IN  SeqConcatAll([i \in 1..Len(vals) |-> FlattenAll(vals[i])])

\* P9: pre-order; arrays are represented by their members
Descend(v) ==
    LET self == IF IsArr(v) THEN <<>> ELSE <<v>>
        kids == IF IsObj(v) THEN ObjVals(v) ELSE IF IsArr(v) THEN v.v ELSE <<>>
    IN  self \o SeqConcatAll([i \in 1..Len(kids) |-> Descend(kids[i])])

\* P2: evaluate `step` once per item; drop missing results; result [x, rs, st]
MapStep(step, items, i, acc, f, st) ==
    IF i > Len(items) THEN [x |-> "ok", rs |-> acc, st |-> st]
    ELSE LET R == Eval(step, items[i], f, st)
         IN  IF R.x # "ok" THEN R
             ELSE MapStep(step, items, i + 1, IF IsUndef(R.r) THEN acc ELSE Append(acc, R.r), f, R.st)

\* P4
FlattenStep(rs, isCons) ==
    SeqConcatAll([i \in 1..Len(rs) |-> IF isCons \/ ~IsArr(rs[i]) THEN <<rs[i]>> ELSE rs[i].v])

PathFrom(node, i, items, f, st) ==
    LET step == node.steps[i]
        last == (i = Len(node.steps))
        R    == MapStep(step, items, 1, <<>>, f, st)
    IN  IF R.x # "ok" THEN R
        ELSE IF last /\ Len(R.rs) = 1 /\ IsArr(R.rs[1])                      \* P3
             THEN (IF R.rs[1].v = <<>> THEN Ok(Undef, R.st) ELSE Ok(R.rs[1], R.st))
        ELSE LET its == FlattenStep(R.rs, step.k = "Array")
             IN  IF its = <<>> THEN Ok(Undef, R.st)                          \* P5
                 ELSE IF last THEN Ok(SeqValue(its, node.keep), R.st)        \* P6
                 ELSE PathFrom(node, i + 1, its, f, R.st)

\* "a path that starts with $, $$ or a variable is anchored ... instead of mapping over it": the variable may carry any
\* number of predicates, order-by operators and a grouping (they belong to the step: $v{k: x}.m starts with $v)
RECURSIVE VarHead(_)
VarHead(n) == n.k = "Variable" \/ (n.k \in {"Predicate", "Sort", "Group"} /\ VarHead(n.e))

EvalPath(node, ctx, f, st) ==
    LET s1    == node.steps[1]
        isVar == VarHead(s1)
        its0  == IF isVar \/ ~IsArr(ctx) THEN <<ctx>> ELSE ctx.v             \* P1
    IN  IF s1.k = "Array" THEN
            \* an array constructor in first position is evaluated once, over the whole context
            LET R == Eval(s1, Arr(its0), f, st)
            IN  IF R.x # "ok" THEN R
                ELSE IF R.r.v = <<>> THEN Ok(Undef, R.st)
                ELSE IF Len(node.steps) = 1 THEN Ok(R.r, R.st)
                ELSE PathFrom(node, 2, R.r.v, f, R.st)
        ELSE PathFrom(node, 1, its0, f, st)

\* ---- predicates (C02) ----

IsNumArr(x) == IsArr(x) /\ x.v # <<>> /\ \A i \in 1..Len(x.v) : IsNum(x.v[i])

\* F2: how many times position i (0-based) of n items is selected by index list ks
IndexHits(ks, i, n) ==
    Cardinality({j \in 1..Len(ks) :
        LET k == NumFloor(ks[j]) IN (IF k < 0 THEN k + n ELSE k) = i})
Repeat(x, c) == [j \in 1..c |-> x]

\* one filter over a list of items
FilterItems(flt, items, i, acc, f, st, n) ==
    IF i > n THEN [x |-> "ok", rs |-> acc, st |-> st]
    ELSE LET R == Eval(flt, items[i], f, st)
         IN  IF R.x # "ok" THEN R
             ELSE LET p == R.r
                      keepN == IF IsNum(p) THEN IndexHits(<<p>>, i - 1, n)
                               ELSE IF IsNumArr(p) THEN IndexHits(p.v, i - 1, n)
                               ELSE IF Truthy(p) THEN 1 ELSE 0
                  IN  FilterItems(flt, items, i + 1, acc \o Repeat(items[i], keepN), f, R.st, n)

\* F4-F6: successive filters; `val` is the value being filtered
ApplyFilters(filters, j, val, f, st) ==
    IF j > Len(filters) THEN Ok(val, st)
    ELSE LET items == Arrayify(val)
             R == FilterItems(filters[j], items, 1, <<>>, f, st, Len(items))
         IN  IF R.x # "ok" THEN R
             ELSE IF R.rs = <<>> THEN Ok(Undef, R.st)
             ELSE IF j = Len(filters) THEN Ok(SeqValue(R.rs, FALSE), R.st)
             \* between stacked filters the survivor list is passed on as it is (F5)
             ELSE ApplyFilters(filters, j + 1, Arr(R.rs), f, R.st)

\* ---- grouping and object construction (C14) ----

\* K1: per pair in order, per item in order.  acc: sequence of [key, pair, items]
AddToGroup(acc, key, pair, idx) ==
    IF \E g \in 1..Len(acc) : acc[g].key = key
    THEN [g \in 1..Len(acc) |-> IF acc[g].key = key THEN [acc[g] EXCEPT !.items = Append(@, idx)] ELSE acc[g]]
    ELSE Append(acc, [key |-> key, pair |-> pair, items |-> <<idx>>])

GroupKeys(pairs, p, j, items, acc, f, st) ==
    IF p > Len(pairs) THEN [x |-> "ok", gs |-> acc, st |-> st]
    ELSE IF pairs[p][1].k = "String" THEN
         \* a literal key: the whole context
         IF \E g \in 1..Len(acc) : acc[g].key = pairs[p][1].s THEN Er("DuplicateKey", st)
         ELSE GroupKeys(pairs, p + 1, 1, items, Append(acc, [key |-> pairs[p][1].s, pair |-> p, items |-> <<>>]), f, st)
    ELSE IF j > Len(items) THEN GroupKeys(pairs, p + 1, 1, items, acc, f, st)
    ELSE LET R == Eval(pairs[p][1], items[j], f, st)
         IN  IF R.x # "ok" THEN R
             ELSE IF ~IsStr(R.r) THEN Er("IllegalKey", R.st)
             ELSE IF \E g \in 1..Len(acc) : acc[g].key = R.r.s /\ acc[g].pair # p THEN Er("DuplicateKey", R.st)
             ELSE GroupKeys(pairs, p, j + 1, items, AddToGroup(acc, R.r.s, p, j), f, R.st)

\* K2: value per key over the key's items.  When several members fail, which error is
\* reported is unspecified (C05): the evaluator reports the first in key order.
GroupVals(pairs, gs, g, items, acc, f, st) ==
    IF g > Len(gs) THEN Ok(Obj(ObjFromPairs(acc)), st)
    ELSE LET sel == IF gs[g].items = <<>> THEN items
                    ELSE [i \in 1..Len(gs[g].items) |-> items[gs[g].items[i]]]
             \* open (K2): the value expression sees the list of its items; whether a
             \* one-item list is presented as the item itself is not decided by the statement
             cx  == IF st.md.group_collapse /\ Len(sel) = 1 THEN sel[1] ELSE Arr(sel)
             R   == Eval(pairs[gs[g].pair][2], cx, f, st)
         IN  IF R.x = "err" /\ Len(gs) >= 2 THEN Er("Any", Taint(R.st))
             ELSE IF R.x # "ok" THEN R
             ELSE GroupVals(pairs, gs, g + 1, items,
                            IF IsUndef(R.r) THEN acc ELSE Append(acc, <<gs[g].key, R.r>>), f, R.st)

\* literal keys over an absent context
RECURSIVE GroupValsUndef(_, _, _, _, _, _)
GroupValsUndef(pairs, gs, g, acc, f, st) ==
    IF g > Len(gs) THEN Ok(Obj(ObjFromPairs(acc)), st)
    ELSE LET R == Eval(pairs[gs[g].pair][2], Undef, f, st)
         IN  IF R.x = "err" /\ Len(gs) >= 2 THEN Er("Any", Taint(R.st))
             ELSE IF R.x # "ok" THEN R
             ELSE GroupValsUndef(pairs, gs, g + 1, IF IsUndef(R.r) THEN acc ELSE Append(acc, <<gs[g].key, R.r>>), f, R.st)

EvalPairsGroup(pairs, ctx, f, st) ==
    \* an absent context: what the members see is not decided by the statement.  With literal
    \* keys only, the values are evaluated over the absent context (open: over a list holding null,
    \* as the port does); computed keys over an absent context are left open altogether.
    IF IsUndef(ctx) /\ (\E p \in 1..Len(pairs) : pairs[p][1].k # "String") THEN Top("grouping over a missing context", st)
    ELSE
    LET items == IF IsArr(ctx) THEN ctx.v ELSE IF IsUndef(ctx) THEN (IF st.md.group_undef_null THEN <<Null>> ELSE <<>>) ELSE <<ctx>>
        G == GroupKeys(pairs, 1, 1, items, <<>>, f, st)
    IN  IF G.x # "ok" THEN G
        ELSE IF IsUndef(ctx) /\ ~st.md.group_undef_null THEN GroupValsUndef(pairs, G.gs, 1, <<>>, f, G.st)
        ELSE GroupVals(pairs, G.gs, 1, items, <<>>, f, G.st)

\* ---- sorting (C13) ----

\* T1: key tuples.  kinds[j] \in {"", "num", "str"} remembers the type seen for term j
SortKeys(terms, items, i, acc, kinds, fst) ==
    LET f == fst[1]  st == fst[2] IN
    IF i > Len(items) THEN [x |-> "ok", ks |-> acc, st |-> st]
    ELSE LET R == EvalList([j \in 1..Len(terms) |-> terms[j].e], 1, <<>>, items[i], f, st)
         IN  IF R.x # "ok" THEN R
             ELSE LET bad == {j \in 1..Len(terms) : ~IsUndef(R.rs[j]) /\ ~Comparable(R.rs[j])}
                      mis == {j \in 1..Len(terms) : ~IsUndef(R.rs[j]) /\ Comparable(R.rs[j])
                                                     /\ kinds[j] # "" /\ kinds[j] # R.rs[j].t}
                      firstBad == IF bad \cup mis = {} THEN 0 ELSE CHOOSE j \in bad \cup mis : \A k \in bad \cup mis : j <= k
                  IN  IF firstBad # 0 THEN (IF firstBad \in bad THEN Er("NonSortable", R.st) ELSE Er("SortMismatch", R.st))
                      ELSE SortKeys(terms, items, i + 1, Append(acc, R.rs),
                                    [j \in 1..Len(terms) |-> IF IsUndef(R.rs[j]) THEN kinds[j] ELSE R.rs[j].t],
                                    <<f, R.st>>)

\* T2: a before b ?  (strictly)
KeyLess(terms, ka, kb) ==
    LET diff == {j \in 1..Len(terms) : ~((IsUndef(ka[j]) /\ IsUndef(kb[j])) \/ (~IsUndef(ka[j]) /\ ~IsUndef(kb[j]) /\ ka[j] = kb[j]))}
    IN  IF diff = {} THEN FALSE
        ELSE LET j == CHOOSE j \in diff : \A k \in diff : j <= k
             IN  IF IsUndef(ka[j]) THEN FALSE
                 ELSE IF IsUndef(kb[j]) THEN TRUE
                 ELSE IF terms[j].dir = ">" THEN ValLt(kb[j], ka[j]) ELSE ValLt(ka[j], kb[j])

\* stable insertion sort on indexes
RECURSIVE InsertIdx(_, _, _, _), SortIdx(_, _, _, _)
InsertIdx(sorted, i, terms, keys) ==
    IF sorted = <<>> THEN <<i>>
    ELSE IF KeyLess(terms, keys[i], keys[Last(sorted)]) THEN Append(InsertIdx(Front(sorted), i, terms, keys), Last(sorted))
    ELSE Append(sorted, i)
SortIdx(n, i, terms, keys) == IF i > n THEN <<>> ELSE InsertIdx(SortIdx(n, i, terms, keys), i, terms, keys)
RECURSIVE SortIdxUpTo(_, _, _)
SortIdxUpTo(n, terms, keys) == IF n = 0 THEN <<>> ELSE InsertIdx(SortIdxUpTo(n - 1, terms, keys), n, terms, keys)

\* ---- blocks ----
EvalBlock(exprs, i, lastv, ctx, f, st) ==
    IF i > Len(exprs) THEN Ok(lastv, st)
    ELSE LET R == Eval(exprs[i], ctx, f, st)
         IN  IF R.x # "ok" THEN R ELSE EvalBlock(exprs, i + 1, R.r, ctx, f, R.st)

\* ---- transform helpers (C07) ----

\* label every object of a value with a fresh identity, pre-order; returns [v, next]
RECURSIVE Label(_, _), LabelSeq(_, _, _, _)
LabelSeq(xs, i, next, acc) ==
    IF i > Len(xs) THEN [vs |-> acc, next |-> next]
    ELSE LET L == Label(xs[i], next) IN LabelSeq(xs, i + 1, L.next, Append(acc, L.v))
Label(x, next) ==
    CASE x.t = "arr" -> LET L == LabelSeq(x.v, 1, next, <<>>) IN [v |-> Arr(L.vs), next |-> L.next]
      [] x.t = "obj" -> LET L == LabelSeq(ObjVals(x), 1, next + 1, <<>>)
                        IN  [v |-> [t |-> "obj", m |-> [i \in 1..Len(x.m) |-> <<x.m[i][1], L.vs[i]>>], id |-> next],
                             next |-> L.next]
      [] OTHER -> [v |-> x, next |-> next]

\* identities (of the clone: 1 <= id < next) of the objects a pattern returned, in order, without repeats
RECURSIVE SelIds(_, _)
SelIds(items, next) ==
    IF items = <<>> THEN <<>>
    ELSE LET rest == SelIds(Front(items), next)
             it == Last(items)
         IN  IF IsObj(it) /\ it.id >= 1 /\ it.id < next /\ ~(\E i \in 1..Len(rest) : rest[i] = it.id)
             THEN Append(rest, it.id) ELSE rest

\* the (first) object carrying identity `id` inside x, or Undef
RECURSIVE FindId(_, _), FindIdSeq(_, _, _)
FindIdSeq(xs, i, id) == IF i > Len(xs) THEN Undef
                        ELSE LET r == FindId(xs[i], id) IN IF IsUndef(r) THEN FindIdSeq(xs, i + 1, id) ELSE r
FindId(x, id) == CASE x.t = "arr" -> FindIdSeq(x.v, 1, id)
                   [] x.t = "obj" -> IF x.id = id THEN x ELSE FindIdSeq(ObjVals(x), 1, id)
                   [] OTHER -> Undef
\* replace every object carrying identity `id` by `new`
RECURSIVE ReplaceId(_, _, _)
ReplaceId(x, id, new) ==
    CASE x.t = "arr" -> Arr([i \in 1..Len(x.v) |-> ReplaceId(x.v[i], id, new)])
      [] x.t = "obj" -> IF x.id = id THEN new
                        ELSE [x EXCEPT !.m = [i \in 1..Len(x.m) |-> <<x.m[i][1], ReplaceId(x.m[i][2], id, new)>>]]
      [] OTHER -> x
RECURSIVE MergeInto(_, _, _), DeleteAll(_, _, _)
MergeInto(o, m, i) == IF i > Len(m) THEN o ELSE MergeInto(ObjPut(o, m[i][1], m[i][2]), m, i + 1)
DeleteAll(o, ks, i) == IF i > Len(ks) THEN o ELSE DeleteAll(ObjDel(o, ks[i].s), ks, i + 1)

\* ---- regular expressions (C17): consumers of the engine's match list ----

NoEngine == [k |-> "None"]
EngineLookup(st, re, subj) ==
    LET idx == {i \in 1..Len(st.eng) : st.eng[i].re = re /\ st.eng[i].subj = subj}
    IN  IF idx = {} THEN NoEngine ELSE st.eng[CHOOSE i \in idx : TRUE]

kMatch == <<109, 97, 116, 99, 104>>   kStart == <<115, 116, 97, 114, 116>>   kEnd == <<101, 110, 100>>
kGroups == <<103, 114, 111, 117, 112, 115>>   kNext == <<110, 101, 120, 116>>   kIndex == <<105, 110, 100, 101, 120>>
GroupArr(subj, m) == Arr([g \in 1..Len(GroupTexts(subj, m)) |-> Str(GroupTexts(subj, m)[g])])
\* the i-th match as the object a regex function returns (no value past the last match)
MatchObject(E, subj, i) ==
    IF i > Len(E.ms) THEN Undef
    ELSE Obj(ObjFromPairs(<< <<kMatch, Str(MatchText(subj, E.ms[i]))>>, <<kStart, IntV(E.bi[i][1])>>, <<kEnd, IntV(E.bi[i][2])>>,
                             <<kGroups, GroupArr(subj, E.ms[i])>>,
                             <<kNext, [t |-> "fn", k |-> "matchnext", eng |-> E, subj |-> subj, i |-> i + 1]>> >>))
\* the object $match returns and a replacement function receives
MatchInfo(E, subj, i) ==
    Obj(ObjFromPairs(<< <<kMatch, Str(MatchText(subj, E.ms[i]))>>, <<kIndex, IntV(E.bi[i][1])>>, <<kGroups, GroupArr(subj, E.ms[i])>> >>))

\* ---- extensions (C20): argument passing to registered Go functions ----
\* An extension value is [t |-> "fn", k |-> "ext", ps |-> parameter type names, variadic |-> BOOLEAN,
\*   uh |-> "none" | "undef0" (UndefinedHandler: first argument missing),
\*   ch |-> "none" | "count0" | "count1" (EvalContextHandler: that many arguments supplied),
\*   res |-> "echo" | "two" | "err" | "undef"].  The function reports what it received ("echo"),
\* which makes the conversion relation E1 observable.

OptBase(p) == CASE p = "OptionalFloat64" -> "float64" [] p = "OptionalInt" -> "int" [] p = "OptionalString" -> "string"
                [] p = "OptionalBool" -> "bool" [] p = "OptionalValue" -> "value" [] OTHER -> ""
IsOptParam(p) == OptBase(p) # ""
sNil == <<110, 105, 108>>   sInvalid == <<105, 110, 118, 97, 108, 105, 100>>   sFn == <<102, 110>>   sBytes == <<98, 121, 116, 101, 115, 58>>

\* E1: [ok, echo] - does `arg` fit parameter type p, and what does the function see
RECURSIVE Convert(_, _)
Convert(arg, p) ==
    IF IsUndef(arg) THEN
         (IF IsOptParam(p) THEN [ok |-> "yes", echo |-> Arr(<<Bool(FALSE)>>)]
          ELSE IF p = "interface" THEN [ok |-> "yes", echo |-> Str(sNil)]
          ELSE IF p = "value" THEN [ok |-> "yes", echo |-> Str(sInvalid)]
          ELSE [ok |-> "no"])
    ELSE IF IsOptParam(p) THEN
         (LET C == Convert(arg, OptBase(p)) IN IF C.ok = "yes" THEN [ok |-> "yes", echo |-> Arr(<<Bool(TRUE), C.echo>>)] ELSE C)
    ELSE IF IsNull(arg) THEN [ok |-> "open"]                                    \* JSON null as an argument: not addressed by the statement
    ELSE CASE p \in {"interface", "value"} -> [ok |-> "yes", echo |-> IF IsFn(arg) THEN Str(sFn) ELSE arg]
           [] p = "float64" -> IF IsNum(arg) THEN [ok |-> "yes", echo |-> arg] ELSE [ok |-> "no"]
           \* numbers convert to any numeric kind; what a fraction or an out-of-range value becomes is open
           [] p = "int" -> IF ~IsNum(arg) THEN [ok |-> "no"] ELSE IF IsInteger(arg) THEN [ok |-> "yes", echo |-> arg] ELSE [ok |-> "open"]
           [] p = "uint8" -> IF ~IsNum(arg) THEN [ok |-> "no"] ELSE IF IsInteger(arg) /\ arg.n >= 0 /\ arg.n <= 255 THEN [ok |-> "yes", echo |-> arg] ELSE [ok |-> "open"]
           [] p = "string" -> IF IsStr(arg) THEN [ok |-> "yes", echo |-> arg] ELSE [ok |-> "no"]      \* nothing else converts to string
           [] p = "bytes" -> IF IsStr(arg) THEN [ok |-> "yes", echo |-> Str(sBytes \o arg.s)] ELSE [ok |-> "no"]
           [] p = "bool" -> IF IsBool(arg) THEN [ok |-> "yes", echo |-> arg] ELSE [ok |-> "no"]
           [] p = "slice" -> IF IsArr(arg) THEN [ok |-> "yes", echo |-> arg] ELSE [ok |-> "no"]
           [] p = "map" -> IF IsObj(arg) THEN [ok |-> "yes", echo |-> arg] ELSE [ok |-> "no"]
           [] p = "callable" -> IF IsFn(arg) THEN [ok |-> "yes", echo |-> Str(sFn)] ELSE [ok |-> "no"]
           [] OTHER -> [ok |-> "open"]

\* E2: argument count rule and conversion; cx.site is the context item of the call site
ExtCall(fn, args0, cx) ==
    LET st == cx.st
        ps == fn.ps   np == Len(ps)   argc == Len(args0)
        pre == (fn.ch = "count0" /\ argc = 0) \/ (fn.ch = "count1" /\ argc = 1)
    IN
    IF pre /\ ~cx.hasSite THEN Top("context item through an indirect call is open", st)
    ELSE LET a1 == IF pre THEN <<cx.site>> \o args0 ELSE args0 IN
    IF fn.uh = "undef0" /\ Len(a1) >= 1 /\ IsUndef(a1[1]) THEN Ok(Undef, st)
    ELSE LET fillN == LET cand == {k \in 0..(IF np > Len(a1) THEN np - Len(a1) ELSE 0) : \A i \in Len(a1) + 1..Len(a1) + k : IsOptParam(ps[i])}
                      IN  CHOOSE k \in cand : \A k2 \in cand : k2 <= k
             a2 == a1 \o [i \in 1..fillN |-> Undef]
             n2 == Len(a2)
    IN
    IF (fn.variadic /\ n2 < np - 1) \/ (~fn.variadic /\ n2 # np) THEN ErArgF("ArgCount", argc, fn, cx)
    ELSE LET parOf(i) == IF i <= np THEN ps[i] ELSE ps[np]
             cs == [i \in 1..n2 |-> Convert(a2[i], parOf(i))]
             bad == {i \in 1..n2 : cs[i].ok = "no"}
             open == {i \in 1..n2 : cs[i].ok = "open"}
             firstBad == IF bad = {} THEN 0 ELSE CHOOSE i \in bad : \A j \in bad : i <= j
    IN
    IF open # {} /\ (bad = {} \/ (\E i \in open : i < firstBad)) THEN Top("conversion left open by the statement", st)
    ELSE IF bad # {} THEN ErArgF("ArgType", firstBad, fn, cx)
    ELSE LET fixedN == IF fn.variadic THEN np - 1 ELSE np
             echoes == [i \in 1..fixedN |-> cs[i].echo] \o (IF fn.variadic THEN <<Arr([i \in 1..(n2 - fixedN) |-> cs[fixedN + i].echo])>> ELSE <<>>)
         IN  CASE fn.res \in {"echo", "two"} -> Ok(Arr(echoes), st)
               [] fn.res = "err" -> Er("Any", st)                  \* a non-nil error return becomes Eval's error
               [] fn.res = "undef" -> Ok(Undef, st)                \* jtypes.ErrUndefined: no value
               [] fn.res = "const" -> Ok(fn.ret, st)               \* a function that returns a fixed value (registry histories)

\* ---- calls (C12) ----

\* S3 for typed lambdas: returns [x |-> "ok", rs |-> args'] or an argument error
SigApply(fn, args, st) ==
    LET ps == fn.sig   np == Len(ps)   argc == Len(args)
        a1 == IF argc < np /\ np > 0 /\ ps[1].opt = 3 THEN <<fn.c>> \o args ELSE args
        \* fill missing trailing optionals
        nfill == LET cand == {k \in 0..(IF np > Len(a1) THEN np - Len(a1) ELSE 0) :
                                \A i \in Len(a1) + 1..Len(a1) + k : ps[i].opt = 1}
                 IN CHOOSE k \in cand : \A k2 \in cand : k2 <= k
        a2 == a1 \o [i \in 1..nfill |-> Undef]
        isVar == np > 0 /\ ps[np].opt = 2
    IN  IF Len(a2) < np \/ (Len(a2) > np /\ ~isVar) THEN [x |-> "err", k |-> "ArgCount", st |-> st]
        ELSE LET parOf(i) == IF i <= np THEN ps[i] ELSE ps[np]
                 a3 == [i \in 1..Len(a2) |->
                          IF ~IsUndef(a2[i]) /\ np > 0 /\ HasBit(parOf(i).ty, 16) /\ parOf(i).ty = 16 /\ ~IsArr(a2[i])
                          THEN Arr(<<a2[i]>>) ELSE a2[i]]
                 bad == {i \in 1..Len(a3) : ~IsUndef(a3[i]) /\ ~ArgFits(a3[i], parOf(i))}
             IN  IF bad # {} THEN ErArg("ArgType", CHOOSE i \in bad : \A j \in bad : i <= j, st)
                 ELSE IF isVar
                      THEN IF \E i \in np..Len(a3) : IsUndef(a3[i])
                           THEN Top("missing argument in a variadic tail", st)
                           ELSE [x |-> "ok", rs |-> SubSeq(a3, 1, np - 1) \o <<Arr(SubSeq(a3, np, Len(a3)))>>, st |-> st]
                      ELSE [x |-> "ok", rs |-> a3, st |-> st]

\* bind parameters positionally (S2)
RECURSIVE BindParams(_, _, _, _, _)
BindParams(st, f, ps, args, i) ==
    IF i > Len(ps) THEN st
    ELSE BindParams(Bind(st, f, ps[i], IF i <= Len(args) THEN args[i] ELSE Undef), f, ps, args, i + 1)

\* S4: fill placeholders left to right
PartialArgs(pargs, i, given, acc, fn, st) ==
    IF i > Len(pargs) THEN [x |-> "ok", rs |-> acc, st |-> st]
    ELSE IF pargs[i].k = "Placeholder"
         THEN PartialArgs(pargs, i + 1, IF given = <<>> THEN <<>> ELSE Tail(given),
                          Append(acc, IF given = <<>> THEN Undef ELSE Head(given)), fn, st)
         ELSE LET R == Eval(pargs[i], fn.c, fn.f, st)
              IN  IF R.x # "ok" THEN R ELSE PartialArgs(pargs, i + 1, given, Append(acc, R.r), fn, R.st)

\* chain: apply the functions in order, each to the previous result
CallSeq(fns, i, v, st) ==
    IF i > Len(fns) THEN Ok(v, st)
    ELSE LET R == Call(fns[i], <<v>>, [st |-> st, site |-> Undef, hasSite |-> FALSE])
         IN  IF R.x # "ok" THEN R ELSE CallSeq(fns, i + 1, R.r, R.st)

\* cx = [st, site, hasSite]: store, the call site's context item (S6) and whether the call
\* comes from a call site at all (through a partial or a chain it does not)
Call(fn, args, cx) ==
    LET st == cx.st IN
    CASE fn.k = "lambda" ->
           LET A == IF fn.typed THEN SigApply(fn, args, st) ELSE [x |-> "ok", rs |-> args, st |-> st]
           IN  IF A.x # "ok" THEN A
               ELSE LET st1 == NewFrame(A.st, fn.f)
                        nf  == TopFrame(st1)
                        st2 == BindParams(st1, nf, fn.ps, A.rs, 1)
                    IN  Eval(fn.body, fn.c, nf, st2)
      [] fn.k = "partial" ->
           LET A == PartialArgs(fn.args, 1, args, <<>>, fn, st)
           IN  IF A.x # "ok" THEN A
               \* S6 through a partial application: open
               ELSE Call(fn.pf, A.rs, [st |-> A.st, site |-> fn.c, hasSite |-> FALSE])
      [] fn.k = "chain" -> CallSeq(fn.fns, 1, IF args = <<>> THEN Undef ELSE args[1], st)
      [] fn.k = "builtin" -> CallBuiltin(fn.nm, args, cx.site, cx)
      [] fn.k = "ext" -> ExtCall(fn, args, cx)
      \* R4: a regex literal applied to a string: the first match object, whose `next` enumerates the rest
      [] fn.k = "regex" ->
           IF args = <<>> \/ ~IsStr(args[1]) THEN Ok(Undef, st)
           ELSE LET E == EngineLookup(st, fn.s, args[1].s) IN
                IF "ms" \notin DOMAIN E THEN Top("no engine observation for this pattern and subject", st)
                ELSE Ok(MatchObject(E, args[1].s, 1), st)
      [] fn.k = "matchnext" -> Ok(MatchObject(fn.eng, fn.subj, fn.i), st)
      [] fn.k = "transform" ->
           IF Len(args) # 1 THEN Er("ArgCount", st)
           ELSE IF IsUndef(args[1]) THEN Ok(Undef, st)
           ELSE IF ~(IsObj(args[1]) \/ IsArr(args[1])) THEN ErArg("ArgType", 1, st)
           ELSE LET lab == Label(Strip(args[1]), 1)
                    P == Eval(fn.pat, lab.v, fn.f, st)
                IN  IF P.x # "ok" THEN P
                    ELSE LET sel == SelIds(Arrayify(P.r), lab.next)
                         IN  ApplyTransformIds(fn, sel, 1, lab.v, lab.next, P.st)
      [] OTHER -> Top("call of an unmodelled function kind", st)


\* apply update and delete clauses to the selected objects of the clone, in order
ApplyTransformIds(fn, sel, i, clone, next, st) ==
    IF i > Len(sel) THEN Ok(Strip(clone), st)
    ELSE LET cur == FindId(clone, sel[i])
         IN  IF IsUndef(cur) THEN ApplyTransformIds(fn, sel, i + 1, clone, next, st)
             ELSE LET U == Eval(fn.upd, cur, fn.f, st)
                  IN  IF U.x # "ok" THEN U
                      ELSE IF ~IsUndef(U.r) /\ ~IsObj(U.r) THEN Er("IllegalUpdate", U.st)
                      \* a member value that contains the selected object itself is stored as a snapshot: a value
                      \* of its own, whose objects are no longer the selected ones (an object never contains itself)
                      ELSE LET um == IF IsUndef(U.r) THEN <<>>
                                     ELSE [j \in 1..Len(U.r.m) |-> <<U.r.m[j][1], IF IsUndef(FindId(U.r.m[j][2], sel[i])) THEN U.r.m[j][2] ELSE Strip(U.r.m[j][2])>>]
                               o1 == IF IsUndef(U.r) THEN cur ELSE MergeInto(cur, um, 1)
                               D  == IF fn.del.k = "None" THEN Ok(Undef, U.st) ELSE Eval(fn.del, o1, fn.f, U.st)
                           IN  IF D.x # "ok" THEN D
                               ELSE LET ks == Arrayify(D.r)
                                    IN  IF \E j \in 1..Len(ks) : ~IsStr(ks[j]) THEN Er("IllegalDelete", D.st)
                                        ELSE ApplyTransformIds(fn, sel, i + 1,
                                                 ReplaceId(clone, sel[i], DeleteAll(o1, ks, 1)), next, D.st)

\* ---- higher-order built-ins (C15) ----

FnArity(fn) == CASE fn.k = "lambda" -> Len(fn.ps)
                 [] fn.k = "partial" -> Cardinality({i \in 1..Len(fn.args) : fn.args[i].k = "Placeholder"})
                 [] fn.k = "builtin" -> BuiltinArity(fn.nm)
                 [] fn.k = "ext" -> Len(fn.ps)          \* a registered Go function takes as many as it declares
                 [] OTHER -> 1
Clamp(n, lo, hi) == IF n < lo THEN lo ELSE IF n > hi THEN hi ELSE n
HofArgs(fn, v, i, arr) == SubSeq(<<v, IntV(i), arr>>, 1, Clamp(FnArity(fn), 1, 3))
NoSite(st) == [st |-> st, site |-> Undef, hasSite |-> FALSE]

\* whether a one-item result list of $map/$filter is presented as the item itself is open
HofOut(acc, st) == IF st.md.hof_collapse THEN Ok(SeqValue(acc, FALSE), st) ELSE Ok(Arr(acc), st)
HofMap(fn, items, i, acc, arr, st) ==
    IF i > Len(items) THEN HofOut(acc, st)
    ELSE LET R == Call(fn, HofArgs(fn, items[i], i - 1, arr), NoSite(st))
         IN  IF R.x # "ok" THEN R
             ELSE HofMap(fn, items, i + 1, IF IsUndef(R.r) THEN acc ELSE Append(acc, R.r), arr, R.st)
HofFilter(fn, items, i, acc, arr, st) ==
    IF i > Len(items) THEN HofOut(acc, st)
    ELSE LET R == Call(fn, HofArgs(fn, items[i], i - 1, arr), NoSite(st))
         IN  IF R.x # "ok" THEN R
             ELSE HofFilter(fn, items, i + 1, IF Truthy(R.r) THEN Append(acc, items[i]) ELSE acc, arr, R.st)
HofSingle(fn, items, i, acc, arr, st) ==
    IF i > Len(items) THEN (IF Len(acc) = 1 THEN Ok(acc[1], st) ELSE Er("Any", st))
    ELSE LET R == Call(fn, HofArgs(fn, items[i], i - 1, arr), NoSite(st))
         IN  IF R.x # "ok" THEN R
             ELSE HofSingle(fn, items, i + 1, IF Truthy(R.r) THEN Append(acc, items[i]) ELSE acc, arr, R.st)
HofReduce(fn, items, i, accv, st) ==
    IF i > Len(items) THEN Ok(accv, st)
    ELSE LET R == Call(fn, <<accv, items[i]>>, NoSite(st))
         IN  IF R.x # "ok" THEN R ELSE HofReduce(fn, items, i + 1, R.r, R.st)

EachPairs(fn, m, i, acc, st) ==
    IF i > Len(m) THEN Ok(SeqValue(acc, FALSE), st)
    ELSE LET R == Call(fn, SubSeq(<<m[i][2], Str(m[i][1]), Obj(m)>>, 1, Clamp(FnArity(fn), 1, 3)), NoSite(st))
         IN  IF R.x # "ok" THEN R
             ELSE EachPairs(fn, m, i + 1, IF IsUndef(R.r) THEN acc ELSE Append(acc, R.r), R.st)
SiftPairs(fn, m, i, acc, st) ==
    IF i > Len(m) THEN (IF acc = <<>> THEN Ok(Undef, st) ELSE Ok(Obj(acc), st))
    ELSE LET R == Call(fn, SubSeq(<<m[i][2], Str(m[i][1]), Obj(m)>>, 1, Clamp(FnArity(fn), 1, 3)), NoSite(st))
         IN  IF R.x # "ok" THEN R
             ELSE SiftPairs(fn, m, i + 1, IF Truthy(R.r) THEN Append(acc, m[i]) ELSE acc, R.st)

\* comparator sort (T3): insertion keeping input order among items the comparator does not separate
CmpSortInsert(fn, sorted, x, st, pos) ==
    \* find, from the right, the first position whose element must NOT come after x
    IF pos = 0 THEN [x |-> "ok", rs |-> <<x>> \o sorted, st |-> st]
    ELSE LET R == Call(fn, <<sorted[pos], x>>, NoSite(st))     \* true: sorted[pos] goes after x
         IN  IF R.x # "ok" THEN R
             ELSE IF Truthy(R.r) THEN CmpSortInsert(fn, sorted, x, R.st, pos - 1)
             ELSE [x |-> "ok", rs |-> SubSeq(sorted, 1, pos) \o <<x>> \o SubSeq(sorted, pos + 1, Len(sorted)), st |-> R.st]
\* "x goes after y" as the comparator says (an erroring call counts as false here; CmpSort reports the error)
CmpAfter(fn, x, y, st) == LET R == Call(fn, <<x, y>>, NoSite(st)) IN R.x = "ok" /\ Truthy(R.r)
CmpIsStrictWeakOrder(fn, items, st) ==
    LET n == Len(items)
        A == [i \in 1..n |-> [j \in 1..n |-> CmpAfter(fn, items[i], items[j], st)]]
        Inc(i, j) == ~A[i][j] /\ ~A[j][i]
    IN  /\ \A i \in 1..n : ~A[i][i]
        /\ \A i, j \in 1..n : A[i][j] => ~A[j][i]
        /\ \A i, j, k \in 1..n : (A[i][j] /\ A[j][k]) => A[i][k]
        /\ \A i, j, k \in 1..n : (Inc(i, j) /\ Inc(j, k)) => Inc(i, k)
RECURSIVE CmpSort(_, _, _, _, _)
CmpSort(fn, items, i, sorted, st) ==
    IF i > Len(items) THEN Ok(Arr(sorted), st)
    ELSE LET R == CmpSortInsert(fn, sorted, items[i], st, Len(sorted))
         IN  IF R.x # "ok" THEN R ELSE CmpSort(fn, items, i + 1, R.rs, R.st)

\* ---- built-in functions ----

\* context rule and undefined-argument rule per built-in (from the JSONata documentation)
\* CtxRule(nm, args) : TRUE when the context item is to be prepended
CtxRule(nm, a) ==
    LET n == Len(a)
        num(i) == IsNum(a[i])   str(i) == IsStr(a[i])   fn(i) == IsFn(a[i])   sf(i) == IsStr(a[i]) \/ IsFn(a[i])
    IN  CASE nm \in {"string", "length", "uppercase", "lowercase", "trim", "formatBase", "base64encode",
                     "base64decode", "decodeUrl", "decodeUrlComponent", "encodeUrl", "encodeUrlComponent",
                     "number", "abs", "floor", "ceil", "round", "sqrt", "boolean", "not", "each", "keys",
                     "lookup", "spread", "fromMillis", "toMillis", "type"} -> n = 0
          [] nm \in {"contains", "power", "sift"} -> n = 1
          [] nm = "substring" -> (n = 1 /\ num(1)) \/ (n = 2 /\ num(1) /\ num(2))
          [] nm \in {"substringBefore", "substringAfter"} -> n = 1 /\ str(1)
          [] nm = "pad" -> (n = 1 /\ num(1)) \/ (n = 2 /\ num(1) /\ str(2))
          [] nm = "split" -> (n = 1 /\ sf(1)) \/ (n = 2 /\ sf(1) /\ num(2))
          [] nm = "match" -> (n = 1 /\ fn(1)) \/ (n = 2 /\ fn(1) /\ num(2))
          [] nm = "replace" -> (n = 2 /\ sf(1) /\ sf(2)) \/ (n = 3 /\ sf(1) /\ sf(2) /\ num(3))
          [] nm = "formatNumber" -> (n \in {1, 2}) /\ str(1)
          [] OTHER -> FALSE
\* built-ins whose result is "no value" when their first argument is missing
UndefFirst == BuiltinNames \ {"random", "not", "exists", "distinct", "count", "zip", "append", "error", "millis", "now"}

\* numbers-only array (after scalar-as-one-member-array)
NumItemsOk(x) == LET its == Arrayify(x) IN \A i \in 1..Len(its) : IsNum(its[i])
RECURSIVE SumSeq(_, _, _)
SumSeq(its, i, acc) == IF i > Len(its) \/ acc.t = "numx" THEN acc ELSE SumSeq(its, i + 1, NumAdd(acc, its[i]))
RECURSIVE ExtSeq(_, _, _, _)
ExtSeq(its, i, best, wantMax) ==
    IF i > Len(its) THEN best
    ELSE ExtSeq(its, i + 1, IF (wantMax /\ NumLt(best, its[i])) \/ (~wantMax /\ NumLt(its[i], best)) THEN its[i] ELSE best, wantMax)
RECURSIVE DistinctSeq(_, _, _)
DistinctSeq(its, i, acc) ==
    IF i > Len(its) THEN acc
    ELSE DistinctSeq(its, i + 1, IF \E j \in 1..Len(acc) : JEq(acc[j], its[i]) THEN acc ELSE Append(acc, its[i]))
RECURSIVE ZipSeq(_, _, _)
ZipSeq(arrs, i, n) == IF i > n THEN <<>> ELSE <<Arr([j \in 1..Len(arrs) |-> arrs[j][i]])>> \o ZipSeq(arrs, i + 1, n)
MinLen(arrs) == LET ls == {Len(arrs[j]) : j \in 1..Len(arrs)} IN CHOOSE l \in ls : \A l2 \in ls : l <= l2
RECURSIVE KeysOf(_, _)
KeysOf(x, acc) ==   \* K3: distinct names, first-occurrence order across an array of objects
    CASE x.t = "obj" -> LET ks == ObjKeys(x)
                            F[i \in 0..Len(ks)] == IF i = 0 THEN acc
                                                   ELSE IF \E j \in 1..Len(F[i-1]) : F[i-1][j] = ks[i] THEN F[i-1] ELSE Append(F[i-1], ks[i])
                        IN F[Len(ks)]
      [] x.t = "arr" -> LET G[i \in 0..Len(x.v)] == IF i = 0 THEN acc ELSE KeysOf(x.v[i], G[i-1]) IN G[Len(x.v)]
      [] OTHER -> acc
RECURSIVE SpreadOf(_)
SpreadOf(x) ==
    CASE x.t = "obj" -> [i \in 1..Len(x.m) |-> Obj(<<x.m[i]>>)]
      [] x.t = "arr" -> SeqConcatAll([i \in 1..Len(x.v) |-> SpreadOf(x.v[i])])
      [] OTHER -> <<x>>
RECURSIVE MergeObjs(_, _, _)
MergeObjs(os, i, acc) == IF i > Len(os) THEN acc ELSE MergeObjs(os, i + 1, MergeInto(acc, os[i].m, 1))

TypeName(x) == CASE x.t = "null" -> "null" [] x.t = "num" -> "number" [] x.t = "str" -> "string"
                 [] x.t = "bool" -> "boolean" [] x.t = "arr" -> "array" [] x.t = "obj" -> "object"
                 [] x.t = "fn" -> "function" [] OTHER -> "undefined"
TypeNameCps(x) == CASE x.t = "null" -> <<110,117,108,108>> [] x.t = "num" -> <<110,117,109,98,101,114>>
                 [] x.t = "str" -> <<115,116,114,105,110,103>> [] x.t = "bool" -> <<98,111,111,108,101,97,110>>
                 [] x.t = "arr" -> <<97,114,114,97,121>> [] x.t = "obj" -> <<111,98,106,101,99,116>>
                 [] x.t = "fn" -> <<102,117,110,99,116,105,111,110>> [] OTHER -> <<>>

\* a pure library result (see JLibStr) as an evaluation result.  Ill-typed or ill-counted calls of
\* built-ins must be "errors or no value" (C09); no property fixes which.
LibResult(R, st) ==
    CASE R.ok = "val" -> NumResult(R.v, st)
      [] R.ok = "undef" -> Ok(Undef, st)
      [] R.ok = "err" -> Er("Any", st)
      [] R.ok \in {"argtype", "argcount"} -> Er("AnyOrUndef", st)
      [] R.ok = "top" -> Top(R.why, st)
BadArgs(st) == Er("AnyOrUndef", st)

ReplByFn(fn, E, subj, i, n, acc, st) ==
    IF i > n THEN [x |-> "ok", rs |-> acc, st |-> st]
    ELSE LET R == Call(fn, <<MatchInfo(E, subj, i)>>, [st |-> st, site |-> Undef, hasSite |-> FALSE])
         IN  IF R.x # "ok" THEN R
             ELSE IF ~IsStr(R.r) THEN Er("Any", R.st)
             ELSE ReplByFn(fn, E, subj, i + 1, n, Append(acc, R.r.s), R.st)

\* nm \in {"match", "contains", "split", "replace"} with a regex pattern; a = arguments after context insertion
RegexBuiltin(nm, a, st) ==
    LET n == Len(a)
        opt(i) == n >= i /\ ~IsUndef(a[i])
        lim(i) == NumTrunc(a[i])
    IN
    IF ~IsStr(a[1]) THEN BadArgs(st)
    ELSE IF a[2].k # "regex" THEN Top("user-defined matcher function", st)
    ELSE LET subj == a[1].s
             E == EngineLookup(st, a[2].s, subj)
    IN
    IF "ms" \notin DOMAIN E THEN Top("no engine observation for this pattern and subject", st)
    ELSE IF ~WellFormedMatches(E.ms, Len(subj)) THEN Top("engine observation is not a well-formed match list", st)
    ELSE CASE
       nm = "contains" -> IF n # 2 THEN BadArgs(st) ELSE Ok(Bool(E.ms # <<>>), st)
    [] nm = "match" ->
         IF n > 3 THEN BadArgs(st)
         ELSE IF opt(3) /\ ~IsNum(a[3]) THEN BadArgs(st)
         ELSE IF opt(3) /\ lim(3) < 0 THEN Er("Any", st)
         ELSE LET k == IF opt(3) /\ lim(3) < Len(E.ms) THEN lim(3) ELSE Len(E.ms)
              IN  Ok(Arr([i \in 1..k |-> MatchInfo(E, subj, i)]), st)
    [] nm = "split" ->
         IF n > 3 THEN BadArgs(st)
         ELSE IF opt(3) /\ ~IsNum(a[3]) THEN BadArgs(st)
         ELSE IF opt(3) /\ lim(3) < 0 THEN Er("Any", st)
         ELSE LET parts == SplitByMatches(subj, E.ms, 1, 0)
                  cut == IF opt(3) /\ lim(3) < Len(parts) THEN SubSeq(parts, 1, lim(3)) ELSE parts
              IN  Ok(Arr([i \in 1..Len(cut) |-> Str(cut[i])]), st)
    [] nm = "replace" ->
         IF n < 3 \/ n > 4 THEN BadArgs(st)
         ELSE IF ~(IsStr(a[3]) \/ IsFn(a[3])) THEN BadArgs(st)
         ELSE IF opt(4) /\ ~IsNum(a[4]) THEN BadArgs(st)
         ELSE IF opt(4) /\ lim(4) < 0 THEN Er("Any", st)
         ELSE LET k == IF opt(4) /\ lim(4) < Len(E.ms) THEN lim(4) ELSE Len(E.ms)
              IN  IF IsStr(a[3])
                  THEN Ok(Str(ReplaceMatches(subj, E.ms, [i \in 1..k |-> ExpandTemplate(a[3].s, MatchText(subj, E.ms[i]), GroupTexts(subj, E.ms[i]))], 1, k, 0)), st)
                  ELSE LET R == ReplByFn(a[3], E, subj, 1, k, <<>>, st)
                       IN  IF R.x # "ok" THEN R ELSE Ok(Str(ReplaceMatches(subj, E.ms, R.rs, 1, k, 0)), R.st)


CallBuiltin(nm, args0, site, cx) ==
    LET st == cx.st
        pre == CtxRule(nm, args0)
    IN
    \* S6: a context-defaulting built-in uses the context item of its own call site; when the call
    \* does not come from a call site (partial application, chain, higher-order built-in) the
    \* statement does not say which item it is
    IF pre /\ ~cx.hasSite THEN Top("context item through an indirect call is open", st)
    ELSE LET a == IF pre THEN <<site>> \o args0 ELSE args0
             n == Len(a)
             A(i) == IF i <= n THEN a[i] ELSE Undef
             arr1 == Arrayify(A(1))
    IN
    IF nm \in UndefFirst /\ n >= 1 /\ IsUndef(a[1]) THEN Ok(Undef, st)
    ELSE CASE
       nm = "count"  -> IF n # 1 THEN BadArgs(st) ELSE Ok(IntV(Len(arr1)), st)
    [] nm = "exists" -> IF n # 1 THEN BadArgs(st) ELSE Ok(Bool(~IsUndef(a[1])), st)
    [] nm = "boolean" -> IF n # 1 THEN BadArgs(st) ELSE Ok(Bool(Truthy(a[1])), st)
    [] nm = "not" -> IF n # 1 THEN BadArgs(st) ELSE IF IsUndef(a[1]) THEN Top("$not of a missing value", st) ELSE Ok(Bool(~Truthy(a[1])), st)
    [] nm = "sum" -> IF n # 1 THEN BadArgs(st)
                     ELSE IF ~NumItemsOk(a[1]) THEN Er("Any", st)
                     ELSE NumResult(SumSeq(arr1, 1, IntV(0)), st)
    [] nm \in {"max", "min"} ->
                     IF n # 1 THEN BadArgs(st)
                     ELSE IF ~NumItemsOk(a[1]) THEN Er("Any", st)
                     ELSE IF arr1 = <<>> THEN Ok(Undef, st)
                     ELSE Ok(ExtSeq(arr1, 2, arr1[1], nm = "max"), st)
    [] nm = "average" ->
                     IF n # 1 THEN BadArgs(st)
                     ELSE IF ~NumItemsOk(a[1]) THEN Er("Any", st)
                     ELSE IF arr1 = <<>> THEN Ok(Undef, st)
                     ELSE LET s == SumSeq(arr1, 1, IntV(0)) IN
                          IF s.t = "numx" THEN Top("sum outside the model", st) ELSE NumResult(NumDiv(s, IntV(Len(arr1))), st)
    [] nm = "append" -> IF n # 2 THEN BadArgs(st)
                        ELSE IF IsUndef(a[1]) THEN Ok(a[2], st)
                        ELSE IF IsUndef(a[2]) THEN Ok(a[1], st)
                        ELSE Ok(Arr(Arrayify(a[1]) \o Arrayify(a[2])), st)
    [] nm = "reverse" -> IF n # 1 THEN BadArgs(st) ELSE Ok(Arr(SeqReverse(arr1)), st)
    [] nm = "distinct" -> IF n # 1 THEN BadArgs(st)
                          ELSE IF IsUndef(a[1]) THEN Top("$distinct of a missing value is open", st)
                          ELSE IF HasFn(a[1]) THEN Top("functions under $distinct", st)
                          ELSE IF ~IsArr(a[1]) THEN Ok(a[1], st)
                          ELSE Ok(Arr(DistinctSeq(arr1, 1, <<>>)), st)
    [] nm = "zip" -> IF n = 0 THEN Top("$zip()", st)
                     ELSE IF \E i \in 1..n : IsUndef(a[i]) THEN Ok(Arr(<<>>), st)
                     ELSE LET arrs == [i \in 1..n |-> Arrayify(a[i])] IN Ok(Arr(ZipSeq(arrs, 1, MinLen(arrs))), st)
    [] nm = "shuffle" -> IF n # 1 THEN BadArgs(st) ELSE Ok(Arr(arr1), Taint(st))
    [] nm = "map" -> IF n # 2 THEN BadArgs(st) ELSE IF ~IsFn(A(2)) THEN BadArgs(st)
                     ELSE HofMap(a[2], arr1, 1, <<>>, Arr(arr1), st)
    [] nm = "filter" -> IF n # 2 THEN BadArgs(st) ELSE IF ~IsFn(A(2)) THEN BadArgs(st)
                     ELSE HofFilter(a[2], arr1, 1, <<>>, Arr(arr1), st)
    [] nm = "single" -> IF n # 2 THEN BadArgs(st) ELSE IF ~IsFn(A(2)) THEN BadArgs(st)
                     ELSE HofSingle(a[2], arr1, 1, <<>>, Arr(arr1), st)
    [] nm = "reduce" -> IF n \notin {2, 3} THEN BadArgs(st) ELSE IF ~IsFn(A(2)) THEN BadArgs(st)
                     ELSE IF FnArity(a[2]) # 2 THEN Er("Any", st)
                     ELSE IF n = 3 /\ ~IsUndef(a[3]) THEN HofReduce(a[2], arr1, 1, a[3], st)
                     ELSE IF arr1 = <<>> THEN Ok(Undef, st)
                     ELSE HofReduce(a[2], arr1, 2, arr1[1], st)
    [] nm = "sort" -> IF n \notin {1, 2} THEN BadArgs(st)
                      ELSE IF n = 2 /\ ~IsUndef(a[2]) THEN
                           (IF ~IsFn(a[2]) THEN BadArgs(st)
                            ELSE IF FnArity(a[2]) # 2 THEN Top("comparator that does not take two arguments", st)
                            \* the result is determined by the statement only when "goes after" is a strict weak order on these members
                            ELSE IF ~CmpIsStrictWeakOrder(a[2], arr1, st) THEN Top("comparator that is not a strict weak order on these members", st)
                            ELSE CmpSort(a[2], arr1, 1, <<>>, st))
                      \* fewer than two members need no ordering: whether a lone member of another type is an error is open
                      ELSE IF Len(arr1) <= 1 /\ ~(\A i \in 1..Len(arr1) : IsNum(arr1[i]) \/ IsStr(arr1[i]))
                           THEN Top("sorting fewer than two members of another type", st)
                      ELSE IF (\A i \in 1..Len(arr1) : IsNum(arr1[i])) \/ (\A j \in 1..Len(arr1) : IsStr(arr1[j]))
                           THEN LET keys == [i \in 1..Len(arr1) |-> <<arr1[i]>>]
                                    idx == SortIdxUpTo(Len(arr1), <<[dir |-> "", e |-> [k |-> "None"]]>>, keys)
                                IN  Ok(Arr([i \in 1..Len(idx) |-> arr1[idx[i]]]), st)
                      ELSE Er("Any", st)
    [] nm = "keys" -> IF n # 1 THEN BadArgs(st)
                      ELSE LET ks == KeysOf(a[1], <<>>) IN
                           IF ks = <<>> THEN Ok(Undef, st)
                           ELSE Ok(SeqValue([i \in 1..Len(ks) |-> Str(ks[i])], FALSE), IF MaxMembers(a[1]) >= 2 THEN Taint(st) ELSE st)
    [] nm = "lookup" -> IF n # 2 THEN BadArgs(st) ELSE IF ~IsStr(A(2)) THEN BadArgs(st)
                        \* K4: "$lookup(o, k) equals the field selection of k on o": on an array of objects the members found are
                        \* one flat sequence (array-valued members are spliced, as a path step does) - literally the path k evaluated on o; on an object it is the member
                        ELSE IF IsArr(a[1]) THEN
                             (LET P == Eval([k |-> "Path", steps |-> <<[k |-> "Name", s |-> a[2].s, esc |-> FALSE]>>, keep |-> FALSE], a[1], 1, st) IN
                              IF P.x = "ok" /\ IsUndef(P.r) THEN Top("$lookup of a missing member is open", st) ELSE P)
                        ELSE LET r == NameOn(a[1], a[2].s, st.md) IN
                             IF IsUndef(r) THEN Top("$lookup of a missing member is open", st) ELSE Ok(r, st)
    [] nm = "spread" -> IF n # 1 THEN BadArgs(st)
                        ELSE IF ~(IsObj(a[1]) \/ IsArr(a[1])) THEN Ok(a[1], st)
                        \* K3: one single-member object per member; a list (open: a one-item list as the item)
                        ELSE Ok(IF st.md.hof_collapse THEN SeqValue(SpreadOf(a[1]), FALSE) ELSE Arr(SpreadOf(a[1])),
                                IF MaxMembers(a[1]) >= 2 THEN Taint(st) ELSE st)
    [] nm = "merge" -> IF n # 1 THEN BadArgs(st)
                       ELSE IF \E i \in 1..Len(arr1) : ~IsObj(arr1[i]) THEN Er("Any", st)
                       ELSE Ok(MergeObjs(arr1, 1, Obj(<<>>)), st)
    [] nm = "each" -> IF n # 2 THEN BadArgs(st) ELSE IF ~IsObj(a[1]) THEN BadArgs(st)
                      ELSE IF ~IsFn(A(2)) THEN BadArgs(st)
                      \* the callback takes (value, key, object): what a callback of no or of more than three parameters means is not said
                      ELSE IF FnArity(a[2]) < 1 \/ FnArity(a[2]) > 3 THEN Top("callback of $each with no or more than three parameters", st)
                      ELSE EachPairs(a[2], a[1].m, 1, <<>>, IF Len(a[1].m) >= 2 THEN Taint(st) ELSE st)
    [] nm = "sift" -> IF n # 2 THEN BadArgs(st) ELSE IF ~IsObj(a[1]) THEN BadArgs(st)
                      ELSE IF ~IsFn(A(2)) THEN BadArgs(st)
                      ELSE IF FnArity(a[2]) < 1 \/ FnArity(a[2]) > 3 THEN Top("callback of $sift with no or more than three parameters", st)
                      ELSE SiftPairs(a[2], a[1].m, 1, <<>>, IF Len(a[1].m) >= 2 THEN Taint(st) ELSE st)
    [] nm = "type" -> IF n # 1 THEN BadArgs(st) ELSE Ok(Str(TypeNameCps(a[1])), st)
    [] nm = "error" -> IF n = 1 /\ IsStr(a[1]) THEN Er("Any", st) ELSE Er("Any", st)
    [] nm = "string" -> IF n # 1 THEN BadArgs(st)
                        ELSE LET S == Stringify(a[1]) IN IF S.ok THEN Ok(Str(S.s), st) ELSE Top("$string outside the model", st)
    [] nm \in {"match", "contains", "split", "replace"} /\ n >= 2 /\ IsFn(a[2]) -> RegexBuiltin(nm, a, st)
    [] nm \in StrFnNames -> LibResult(StrCall(nm, a, st.md), st)
    [] nm \in NumFnNames -> LibResult(NumCall(nm, a, st.md), st)
    [] OTHER -> Top("unmodelled built-in", st)

\* ---- the evaluator proper ----

Eval(node, ctx, f, st) ==
    CASE node.k = "String"  -> Ok(Str(node.s), st)
      [] node.k = "Number"  -> NumResult(node.num, st)
      [] node.k = "Boolean" -> Ok(Bool(node.b), st)
      [] node.k = "Null"    -> Ok(Null, st)
      [] node.k = "Variable" -> IF node.nm = "" THEN Ok(ctx, st) ELSE Ok(LookupVar(st, f, node.nm), st)
      [] node.k = "Name"    -> Ok(NameOn(ctx, node.s, st.md), st)
      [] node.k = "Path"    -> EvalPath(node, ctx, f, st)
      [] node.k = "Wildcard" -> Ok(SeqValue(WildcardItems(ctx), FALSE), IF IsObj(ctx) /\ Len(ctx.m) >= 2 THEN Taint(st) ELSE st)
      [] node.k = "Descendent" -> Ok(SeqValue(Descend(ctx), FALSE), IF MaxMembers(ctx) >= 2 THEN Taint(st) ELSE st)
      [] node.k = "Negation" ->
           Then(Eval(node.e, ctx, f, st), LAMBDA A :
                IF IsUndef(A.r) THEN A
                ELSE IF ~IsNum(A.r) THEN Er("NonNumberRHS", A.st)
                ELSE Ok(NumNeg(A.r), A.st))
      [] node.k = "NumOp" ->
           Then(Eval(node.l, ctx, f, st), LAMBDA A :
           Then(Eval(node.r, ctx, f, A.st), LAMBDA B : NumOpResult(node.op, A.r, B.r, B.st)))
      [] node.k = "CmpOp" ->
           Then(Eval(node.l, ctx, f, st), LAMBDA A :
           Then(Eval(node.r, ctx, f, A.st), LAMBDA B : CmpResult(node.op, A.r, B.r, B.st)))
      [] node.k = "BoolOp" ->
           Then(Eval(node.l, ctx, f, st), LAMBDA A :
           Then(Eval(node.r, ctx, f, A.st), LAMBDA B :
                Ok(Bool(IF node.op = "and" THEN Truthy(A.r) /\ Truthy(B.r) ELSE Truthy(A.r) \/ Truthy(B.r)), B.st)))
      [] node.k = "Concat" ->
           Then(Eval(node.l, ctx, f, st), LAMBDA A :
           Then(Eval(node.r, ctx, f, A.st), LAMBDA B :
                LET sa == ConcatPart(A.r)  sb == ConcatPart(B.r)
                IN  IF sa.ok /\ sb.ok THEN Ok(Str(sa.s \o sb.s), B.st) ELSE Top("string form outside the model", B.st)))
      [] node.k = "Range" ->
           Then(Eval(node.l, ctx, f, st), LAMBDA A :
           Then(Eval(node.r, ctx, f, A.st), LAMBDA B :
                IF ~IsUndef(A.r) /\ ~(IsNum(A.r) /\ IsInteger(A.r)) THEN Er("NonIntegerLHS", B.st)
                ELSE IF ~IsUndef(B.r) /\ ~(IsNum(B.r) /\ IsInteger(B.r)) THEN Er("NonIntegerRHS", B.st)
                ELSE IF IsUndef(A.r) \/ IsUndef(B.r) \/ A.r.n > B.r.n THEN Ok(Undef, B.st)
                ELSE IF B.r.n - A.r.n + 1 > 10000000 THEN Er("MaxRangeItems", B.st)
                ELSE IF B.r.n - A.r.n + 1 > 2000 THEN Top("range too long for the model", B.st)
                ELSE Ok(Arr([i \in 1..(B.r.n - A.r.n + 1) |-> IntV(A.r.n + i - 1)]), B.st)))
      [] node.k = "Array" ->
           Then(EvalList(node.items, 1, <<>>, ctx, f, st), LAMBDA L :
                Ok(Arr(SeqConcatAll([i \in 1..Len(L.rs) |->
                        IF node.items[i].k = "Array" THEN (IF IsUndef(L.rs[i]) THEN <<>> ELSE <<L.rs[i]>>)
                        ELSE Arrayify(L.rs[i])])), L.st))
      [] node.k = "Object" -> EvalPairsGroup(node.pairs, ctx, f, st)
      [] node.k = "Group" ->
           Then(Eval(node.e, ctx, f, st), LAMBDA A : EvalPairsGroup(node.pairs, A.r, f, A.st))
      [] node.k = "Block" ->
           LET st1 == NewFrame(st, f) IN EvalBlock(node.exprs, 1, Undef, ctx, TopFrame(st1), st1)
      [] node.k = "Cond" ->
           Then(Eval(node.c, ctx, f, st), LAMBDA C :
                IF Truthy(C.r) THEN Eval(node.th, ctx, f, C.st)
                ELSE IF node.el.k = "None" THEN Ok(Undef, C.st)
                ELSE Eval(node.el, ctx, f, C.st))
      [] node.k = "Assign" ->
           Then(Eval(node.e, ctx, f, st), LAMBDA A : Ok(A.r, Bind(A.st, f, node.nm, A.r)))
      [] node.k = "Predicate" ->
           Then(Eval(node.e, ctx, f, st), LAMBDA A :
                IF IsUndef(A.r) THEN A ELSE ApplyFilters(node.filters, 1, A.r, f, A.st))
      [] node.k = "Sort" ->
           Then(Eval(node.e, ctx, f, st), LAMBDA A :
                IF IsUndef(A.r) THEN A
                ELSE LET items == Arrayify(A.r)
                         K == SortKeys(node.terms, items, 1, <<>>, [j \in 1..Len(node.terms) |-> ""], <<f, A.st>>)
                     IN  IF K.x # "ok" THEN K
                         ELSE LET idx == SortIdxUpTo(Len(items), node.terms, K.ks)
                              \* sorting no items: an empty array or no value - open
                              IN  IF items = <<>> /\ K.st.md.sort_empty_arr THEN Ok(Arr(<<>>), K.st)
                                  ELSE Ok(SeqValue([i \in 1..Len(idx) |-> items[idx[i]]], FALSE), K.st))
      [] node.k = "Lambda" ->
           Ok([t |-> "fn", k |-> "lambda", ps |-> node.params, body |-> node.body, f |-> f, c |-> ctx,
               typed |-> FALSE, sig |-> <<>>], st)
      [] node.k = "TypedLambda" ->
           Ok([t |-> "fn", k |-> "lambda", ps |-> node.params, body |-> node.body, f |-> f, c |-> ctx,
               typed |-> TRUE, sig |-> node.sig], st)
      [] node.k = "Transform" ->
           Ok([t |-> "fn", k |-> "transform", pat |-> node.pat, upd |-> node.upd, del |-> node.del, f |-> f], st)
      [] node.k = "Partial" ->
           Then(Eval(node.fn, ctx, f, st), LAMBDA F :
                IF ~IsFn(F.r) THEN Er("NonCallablePartial", F.st)
                ELSE Ok([t |-> "fn", k |-> "partial", pf |-> F.r, args |-> node.args, f |-> f, c |-> ctx], F.st))
      [] node.k = "Call" ->
           Then(Eval(node.fn, ctx, f, st), LAMBDA F :
                IF ~IsFn(F.r) THEN Er("NonCallable", F.st)
                ELSE Then(EvalList(node.args, 1, <<>>, ctx, f, F.st), LAMBDA L :
                          \* cn: the name the call site uses for the function ("" when the callee is not a plain variable)
                          Call(F.r, L.rs, [st |-> L.st, site |-> ctx, hasSite |-> TRUE,
                                           cn |-> IF node.fn.k = "Variable" THEN node.fn.nm ELSE IF IsFn(F.r) /\ "nm" \in DOMAIN F.r THEN F.r.nm ELSE ""])))
      [] node.k = "Apply" ->
           IF node.r.k = "Call" THEN           \* S5: v ~> f(a)  ==  f(v, a)
                Eval([node.r EXCEPT !.args = <<node.l>> \o @], ctx, f, st)
           ELSE Then(Eval(node.l, ctx, f, st), LAMBDA A :
                Then(Eval(node.r, ctx, f, A.st), LAMBDA B :
                     IF ~IsFn(B.r) THEN Er("NonCallableApply", B.st)
                     ELSE IF IsFn(A.r) THEN Ok([t |-> "fn", k |-> "chain", fns |-> <<A.r, B.r>>], B.st)
                     ELSE Call(B.r, <<A.r>>, [st |-> B.st, site |-> ctx, hasSite |-> FALSE])))
      [] node.k = "Regex" -> Ok([t |-> "fn", k |-> "regex", s |-> node.s], st)
      [] OTHER -> Top("unmodelled node", st)

=============================================================================
