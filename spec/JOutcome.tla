------------------------------ MODULE JOutcome ------------------------------
(***************************************************************************)
(* Outcomes of the Eval action and the membership test used by both        *)
(* conformance directions.                                                 *)
(***************************************************************************)
EXTENDS JEval

\* open choices (behaviours the property texts leave open) - every combination is allowed
OpenFlags == <<"o1_undef_wins", "group_collapse", "name_unit", "floor_params", "hof_collapse", "group_undef_null", "url_form", "sort_empty_arr">>
\* the default is what the pinned port does, so that the first evaluation normally matches
DefaultMd == [o1_undef_wins |-> FALSE, group_collapse |-> FALSE, name_unit |-> TRUE,
              floor_params |-> FALSE, hof_collapse |-> FALSE, group_undef_null |-> TRUE, url_form |-> TRUE, sort_empty_arr |-> TRUE, dev |-> "none"]
\* named deviations of the pinned tree from the specification: used only to classify a
\* mismatch as a listed known finding, never to accept it
KnownDevs == <<>>

\* the default, every single departure from it and every pair of departures
Flip(m, i) == [m EXCEPT ![OpenFlags[i]] = ~@]
OpenMds == {DefaultMd} \cup {Flip(DefaultMd, i) : i \in 1..Len(OpenFlags)}
           \cup {Flip(Flip(DefaultMd, i), j) : i \in 1..Len(OpenFlags), j \in 1..Len(OpenFlags)}

\* an extension knows the name it was registered under (E3: its argument errors name it)
NamedExt(nm, v) == IF v.t = "fn" /\ v.k = "ext" THEN [x \in DOMAIN v \cup {"nm"} |-> IF x = "nm" THEN nm ELSE v[x]] ELSE v
InitStore(input, binds, md) ==
    [fr |-> << [p |-> 0, m |-> << <<"$", input>> >> \o [i \in 1..Len(binds) |-> <<binds[i][1], NamedExt(binds[i][1], binds[i][2])>>]] >>, md |-> md, perm |-> FALSE, eng |-> <<>>]

Run(ast, input, binds, md) == Eval(ast, input, 1, InitStore(input, binds, md))
\* ... with the recorded observations of the regular-expression engine (C17)
RunE(ast, input, binds, md, eng) == Eval(ast, input, 1, [InitStore(input, binds, md) EXCEPT !.eng = eng])

---------------------------------------------------------------------------
RECURSIVE MatchVal(_, _)
MatchVal(obs, exp) ==
    IF obs.t # exp.t THEN FALSE
    ELSE CASE exp.t = "fn"  -> TRUE
           [] exp.t = "arr" -> Len(obs.v) = Len(exp.v) /\ \A i \in 1..Len(exp.v) : MatchVal(obs.v[i], exp.v[i])
           [] exp.t = "obj" -> Len(obs.m) = Len(exp.m) /\ \A i \in 1..Len(exp.m) :
                                   obs.m[i][1] = exp.m[i][1] /\ MatchVal(obs.m[i][2], exp.m[i][2])
           [] exp.t = "num" -> obs.n = exp.n /\ (exp.n = 0 \/ obs.d = exp.d)
           [] exp.t = "str" -> obs.s = exp.s
           [] exp.t = "bool" -> obs.b = exp.b
           [] OTHER -> TRUE

\* the harness identifies a double with a rational only for denominators up to 10^6
RECURSIVE HasBigDen(_)
HasBigDen(x) == CASE x.t = "num" -> x.d > 1000000
                  [] x.t = "arr" -> \E i \in 1..Len(x.v) : HasBigDen(x.v[i])
                  [] x.t = "obj" -> \E i \in 1..Len(x.m) : HasBigDen(x.m[i][2])
                  [] OTHER -> FALSE

\* tainted evaluations (JEval!Taint): equal as multisets at the top level
PermMatch(obs, exp) ==
    obs.t = "arr" /\ exp.t = "arr" /\ Len(obs.v) = Len(exp.v) /\
    \A j \in 1..Len(exp.v) :
        Cardinality({i \in 1..Len(obs.v) : MatchVal(obs.v[i], exp.v[j])}) =
        Cardinality({i \in 1..Len(exp.v) : MatchVal(exp.v[i], exp.v[j])})

\* obs is a legitimate outcome at all (C09/C10: a value, no value, or an error - nothing else)
Legit(obs) == obs.o \in {"val", "undef", "err"}

\* a string outside the model (not UTF-8) somewhere in an observed value: it matches no value of the specification, so it is
\* accepted only where the specification itself abstains (e.g. $base64decode of bytes that are not UTF-8)
RECURSIVE HasStrX(_)
HasStrX(x) == CASE x.t = "strx" -> TRUE
                [] x.t = "arr" -> \E i \in 1..Len(x.v) : HasStrX(x.v[i])
                [] x.t = "obj" -> \E i \in 1..Len(x.m) : HasStrX(x.m[i][2])
                [] OTHER -> FALSE

\* "ok" | "inc" (the specification abstains) | "no"
Verdict1(obs, R) ==
    IF ~Legit(obs) THEN "no"
    ELSE IF R.x = "top" THEN "inc:" \o R.why
    ELSE IF R.st.perm /\ R.x = "err" /\ obs.o # "err" THEN "inc:member order"
    ELSE IF R.x = "err" THEN
         (IF R.k = "AnyOrUndef" THEN (IF obs.o \in {"err", "undef"} THEN "ok" ELSE "no")
          ELSE IF obs.o # "err" THEN "no"
          ELSE IF R.k = "Any" THEN "ok"
          ELSE IF R.k # obs.k THEN "no"
          ELSE IF "i" \in DOMAIN R /\ "i" \in DOMAIN obs /\ R.i # obs.i THEN "no"
          ELSE IF "fname" \in DOMAIN R /\ "fname" \in DOMAIN obs /\ R.fname # obs.fname THEN "no" ELSE "ok")
    ELSE IF IsUndef(R.r) THEN (IF obs.o = "undef" THEN "ok" ELSE "no")
    ELSE IF obs.o # "val" THEN "no"
    ELSE IF HasNumX(R.r) \/ HasBigDen(R.r) THEN "inc:number outside the model"
    ELSE IF MatchVal(obs.r, R.r) THEN "ok"
    ELSE IF R.st.perm THEN (IF PermMatch(obs.r, R.r) THEN "ok" ELSE "inc:member order")
    ELSE "no"

\* all open choices, default first; a deviation only classifies
VerdictE(obs, ast, input, binds, eng) ==
    LET v0 == Verdict1(obs, RunE(ast, input, binds, DefaultMd, eng))
    IN  IF v0 # "no" \/ ~Legit(obs) THEN v0
        \* a null in the input: how null members take part in sort keys, predicates and transforms is left to the code (abstain) -
        \* but null is a value (C10: "null, booleans, ..."; ErrUndefined "is reported only then"), so an evaluation whose
        \* result is exactly the null value may not be reported as "no value"
        ELSE IF HasNull(input) THEN
             (LET R0 == RunE(ast, input, binds, DefaultMd, eng)
              IN  IF obs.o = "undef" /\ ~IsNull(input) /\ R0.x = "ok" /\ IsNull(R0.r) THEN "no;null-reported-as-undefined" ELSE "inc:null in the input")   \* (a top-level null is "no input", as Eval(nil))
        ELSE LET vs == {Verdict1(obs, RunE(ast, input, binds, md, eng)) : md \in OpenMds}
                 incs == {v \in vs : v # "ok" /\ v # "no"}
             IN  IF "ok" \in vs THEN "ok" ELSE IF incs # {} THEN CHOOSE v \in incs : TRUE
                 ELSE LET ds == {i \in 1..Len(KnownDevs) :
                                   Verdict1(obs, RunE(ast, input, binds, [DefaultMd EXCEPT !.dev = KnownDevs[i]], eng)) = "ok"}
                      IN  IF ds = {} THEN "no" ELSE "dev:" \o KnownDevs[CHOOSE i \in ds : TRUE]

\* C10: "no value" is reported as ErrUndefined and only then (where the specification pins the outcome)
UndefDiffers(obs, ast, input, binds, eng) ==
    LET R == RunE(ast, input, binds, DefaultMd, eng)
    IN  R.x = "ok" /\ ~HasNull(input) /\ Legit(obs) /\ (IsUndef(R.r) # (obs.o = "undef"))

Verdict(obs, ast, input, binds) == VerdictE(obs, ast, input, binds, <<>>)

\* the outcome the specification expects under the default choices, for export (G direction)
Expected(ast, input, binds) ==
    LET R == Run(ast, input, binds, DefaultMd)
    IN  CASE R.x = "top" -> [o |-> "top", why |-> R.why]
          [] R.x = "err" -> [o |-> "err", k |-> R.k]
          [] OTHER -> IF IsUndef(R.r) THEN [o |-> "undef"] ELSE [o |-> "val", r |-> Strip(R.r)]
=============================================================================
