------------------------------- MODULE JRegex -------------------------------
(***************************************************************************)
(* Regular expressions (C17).  The regular-expression ENGINE is an         *)
(* environment of this system: for a pattern and a subject it reports a    *)
(* match list                                                              *)
(*     ms  = << <<s0, e0, s1, e1, ...>>, ... >>    code-point offsets,     *)
(*           -1 for a group that did not participate                       *)
(*     bi  = << <<byteStart, byteEnd>>, ... >>     the same matches in     *)
(*           the engine's own (byte) offsets                               *)
(* Everything the port builds on top of the match list is specified here   *)
(* as a function of it: match objects, $match, $contains, $split,          *)
(* $replace with a template, the $N expansion rule.                        *)
(***************************************************************************)
EXTENDS JLibNum

\* R0: what an engine may report (environment assumption, checked on every recorded entry)
WellFormedMatches(ms, n) ==
    /\ \A i \in 1..Len(ms) : /\ Len(ms[i]) >= 2 /\ (Len(ms[i]) % 2) = 0
                             /\ 0 <= ms[i][1] /\ ms[i][1] <= ms[i][2] /\ ms[i][2] <= n
                             /\ \A g \in 2..(Len(ms[i]) \div 2) :
                                    (ms[i][2 * g - 1] = 0 - 1 /\ ms[i][2 * g] = 0 - 1)
                                    \/ (ms[i][1] <= ms[i][2 * g - 1] /\ ms[i][2 * g - 1] <= ms[i][2 * g] /\ ms[i][2 * g] <= ms[i][2])
    /\ \A i \in 1..Len(ms) - 1 : ms[i][2] <= ms[i + 1][1] /\ ms[i][1] < ms[i + 1][2]

Piece(subj, s, e) == IF s < 0 THEN <<>> ELSE SubSeq(subj, s + 1, e)
MatchText(subj, m) == Piece(subj, m[1], m[2])
GroupTexts(subj, m) == [g \in 1..((Len(m) \div 2) - 1) |-> Piece(subj, m[2 * g + 1], m[2 * g + 2])]

\* R2: the replacement template.  gs: group texts of the match, mt: the matched text
RECURSIVE TakeDigitsR(_)
TakeDigitsR(s) == IF s # <<>> /\ Head(s) >= 48 /\ Head(s) <= 57 THEN <<Head(s)>> \o TakeDigitsR(Tail(s)) ELSE <<>>
RECURSIVE PrefixVal(_, _)
PrefixVal(ds, k) == IF k = 0 THEN 0 ELSE PrefixVal(ds, k - 1) * 10 + (ds[k] - 48)
RECURSIVE ExpandTemplate(_, _, _)
ExpandTemplate(t, mt, gs) ==
    IF t = <<>> THEN <<>>
    ELSE IF Head(t) # 36 THEN <<Head(t)>> \o ExpandTemplate(Tail(t), mt, gs)
    ELSE LET r == Tail(t) IN
         IF r = <<>> THEN <<36>>
         ELSE IF Head(r) = 36 THEN <<36>> \o ExpandTemplate(Tail(r), mt, gs)                    \* $$ is a dollar sign
         ELSE IF Head(r) < 48 \/ Head(r) > 57 THEN <<36>> \o ExpandTemplate(r, mt, gs)         \* a lone $ is literal
         ELSE IF Head(r) = 48 THEN mt \o ExpandTemplate(Tail(r), mt, gs)                        \* $0 is the match
         ELSE LET ds == TakeDigitsR(r)
                  nd == IF Len(ds) > 4 THEN 4 ELSE Len(ds)
                  \* the longest digit prefix whose number is an existing group
                  ok == {k \in 1..nd : PrefixVal(ds, k) <= Len(gs)}
              IN  IF ok = {} THEN ExpandTemplate(Tail(r), mt, gs)                                \* no such group: empty, one digit consumed
                  ELSE LET k == CHOOSE k \in ok : \A k2 \in ok : k2 <= k
                       IN  gs[PrefixVal(ds, k)] \o ExpandTemplate(SubSeq(r, k + 1, Len(r)), mt, gs)

\* $split: the text between consecutive matches
RECURSIVE SplitByMatches(_, _, _, _)
SplitByMatches(subj, ms, i, pos) ==
    IF i > Len(ms) THEN <<SubSeq(subj, pos + 1, Len(subj))>>
    ELSE <<SubSeq(subj, pos + 1, ms[i][1])>> \o SplitByMatches(subj, ms, i + 1, ms[i][2])

\* $replace with per-match replacement texts reps[i], for the first n matches
RECURSIVE ReplaceMatches(_, _, _, _, _, _)
ReplaceMatches(subj, ms, reps, i, n, pos) ==
    IF i > n THEN SubSeq(subj, pos + 1, Len(subj))
    ELSE SubSeq(subj, pos + 1, ms[i][1]) \o reps[i] \o ReplaceMatches(subj, ms, reps, i + 1, n, ms[i][2])
=============================================================================
