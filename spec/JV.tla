------------------------------- MODULE JV -------------------------------
(***************************************************************************)
(* Value domain of the JSONata specification.                              *)
(*                                                                         *)
(* House rules (DESIGN.md A.5): one TLA+ sort per record field name;       *)
(* tags are compared before payloads; `%` and `\div` always parenthesised. *)
(*                                                                         *)
(*   t : tag string          n, d : integers        s : code-point seq     *)
(*   v : sequence of values  m : sequence of <<key, value>> pairs          *)
(*   b : boolean             id : integer (object identity, C07)           *)
(***************************************************************************)
EXTENDS Integers, Sequences, FiniteSets, TLC

Undef   == [t |-> "undef"]
Null    == [t |-> "null"]
Bool(x) == [t |-> "bool", b |-> x]
Str(cps)== [t |-> "str", s |-> cps]
Arr(xs) == [t |-> "arr", v |-> xs]
Obj(ps) == [t |-> "obj", m |-> ps, id |-> 0]
NumX    == [t |-> "numx"]          \* a finite number the model cannot represent exactly

IsUndef(x) == x.t = "undef"
IsNum(x)   == x.t = "num"
IsStr(x)   == x.t = "str"
IsBool(x)  == x.t = "bool"
IsArr(x)   == x.t = "arr"
IsObj(x)   == x.t = "obj"
IsFn(x)    == x.t = "fn"
IsNull(x)  == x.t = "null"

---------------------------------------------------------------------------
(* Exact numbers: rationals n/d, d > 0, lowest terms, components bounded so *)
(* that TLC's 32-bit integers never overflow.  A result outside the bounds  *)
(* is NumX ("not representable"); the evaluator turns it into Top.          *)

Lim == 1000000000
AbsI(x) == IF x < 0 THEN 0 - x ELSE x
MaxI(a, b) == IF a >= b THEN a ELSE b
MinI(a, b) == IF a <= b THEN a ELSE b
SignI(x) == IF x < 0 THEN 0 - 1 ELSE IF x > 0 THEN 1 ELSE 0

RECURSIVE Gcd(_, _)
Gcd(a, b) == IF b = 0 THEN a ELSE Gcd(b, (a % b))

\* n may be negative, d > 0
Num(n, d) == LET g == Gcd(AbsI(n), d)
             IN  IF g = 0 THEN [t |-> "num", n |-> 0, d |-> 1]
                 ELSE [t |-> "num", n |-> SignI(n) * (AbsI(n) \div g), d |-> (d \div g)]
IntV(n) == [t |-> "num", n |-> n, d |-> 1]

MulFits(a, b) == (a = 0) \/ (b = 0) \/ (AbsI(a) <= (Lim \div AbsI(b)))

RECURSIVE IsPow2(_)
IsPow2(d) == IF d = 1 THEN TRUE ELSE IF (d % 2) = 1 THEN FALSE ELSE IsPow2(d \div 2)
\* Dyadic numbers are exactly representable as doubles (within our bounds),
\* so arithmetic on them is exact in the implementation as long as the
\* exact result is dyadic too (or is rounded only once, at the very end).
Dyadic(x) == IsPow2(x.d)
IsInteger(x) == x.d = 1 \/ x.n = 0

\* IEEE zero has a sign that exact rationals do not have.  A zero whose sign the model does not
\* track ("-0", 0 * -1, -4 % 2, ...) is written 0/2: it behaves as 0 everywhere, but its string
\* form is not decided by the specification (the port prints "-0" for a negative zero).
ZeroU == [t |-> "num", n |-> 0, d |-> 2]
IsZeroU(x) == x.n = 0 /\ x.d = 2

NumAdd(x, y) == IF ~(Dyadic(x) /\ Dyadic(y)) THEN NumX
                ELSE IF MulFits(x.n, y.d) /\ MulFits(y.n, x.d) /\ MulFits(x.d, y.d)
                        /\ AbsI(x.n * y.d) + AbsI(y.n * x.d) <= Lim
                     THEN (IF IsZeroU(x) /\ IsZeroU(y) THEN ZeroU ELSE Num(x.n * y.d + y.n * x.d, x.d * y.d)) ELSE NumX
NumNeg(x)    == IF x.n = 0 THEN ZeroU ELSE [t |-> "num", n |-> 0 - x.n, d |-> x.d]
NumSub(x, y) == NumAdd(x, NumNeg(y))
NumMul(x, y) == IF ~(Dyadic(x) /\ Dyadic(y)) THEN NumX
                ELSE IF MulFits(x.n, y.n) /\ MulFits(x.d, y.d)
                     THEN (IF (x.n = 0 \/ y.n = 0) /\ (x.n < 0 \/ y.n < 0 \/ IsZeroU(x) \/ IsZeroU(y)) THEN ZeroU
                           ELSE Num(x.n * y.n, x.d * y.d)) ELSE NumX
\* y # 0.  The exact quotient; when it is not dyadic the implementation's
\* double is the correctly rounded quotient (one IEEE operation) and the
\* harness projects that double back onto the unique small rational.
NumDiv(x, y) == IF ~(Dyadic(x) /\ Dyadic(y)) THEN NumX
                ELSE IF MulFits(x.n, y.d) /\ MulFits(x.d, y.n)
                     THEN (IF x.n = 0 /\ (y.n < 0 \/ IsZeroU(x)) THEN ZeroU
                           ELSE Num(SignI(y.n) * x.n * y.d, x.d * AbsI(y.n))) ELSE NumX
NumLt(x, y)  == IF MulFits(x.n, y.d) /\ MulFits(y.n, x.d) THEN x.n * y.d < y.n * x.d
                ELSE \* compare by sign and magnitude without multiplying: fall back on integer parts
                     (x.n \div x.d) < (y.n \div y.d)
NumEq(x, y)  == x.n = y.n /\ (x.n = 0 \/ x.d = y.d)
NumIsZero(x) == x.n = 0
\* floor and truncation of a rational
NumFloor(x)  == x.n \div x.d                       \* TLC's \div is floor division
NumTrunc(x)  == SignI(x.n) * (AbsI(x.n) \div x.d)
\* truncated remainder with the dividend's sign (math.Mod), y # 0, both dyadic
NumMod(x, y) == IF ~(Dyadic(x) /\ Dyadic(y)) THEN NumX
                ELSE IF ~(MulFits(x.n, y.d) /\ MulFits(y.n, x.d) /\ MulFits(x.d, y.d)) THEN NumX
                ELSE LET a == AbsI(x.n) * y.d   b == AbsI(y.n) * x.d   c == x.d * y.d
                     IN  IF (a % b) = 0 /\ (x.n < 0 \/ IsZeroU(x)) THEN ZeroU ELSE Num(SignI(x.n) * (a % b), c)

---------------------------------------------------------------------------
(* Sequences helpers                                                        *)

RECURSIVE SeqConcatAll(_)
SeqConcatAll(ss) == IF ss = <<>> THEN <<>> ELSE Head(ss) \o SeqConcatAll(Tail(ss))

SeqMap(F(_), xs) == [i \in 1..Len(xs) |-> F(xs[i])]
Last(xs) == xs[Len(xs)]
Front(xs) == SubSeq(xs, 1, Len(xs) - 1)
RECURSIVE SeqFilter(_, _)
SeqFilter(P(_), xs) == IF xs = <<>> THEN <<>>
                       ELSE IF P(Head(xs)) THEN <<Head(xs)>> \o SeqFilter(P, Tail(xs))
                            ELSE SeqFilter(P, Tail(xs))
SeqReverse(xs) == [i \in 1..Len(xs) |-> xs[Len(xs) + 1 - i]]

\* code-point sequences: lexicographic order
RECURSIVE CpsLt(_, _)
CpsLt(a, b) == IF b = <<>> THEN FALSE
               ELSE IF a = <<>> THEN TRUE
               ELSE IF Head(a) < Head(b) THEN TRUE
               ELSE IF Head(a) > Head(b) THEN FALSE
               ELSE CpsLt(Tail(a), Tail(b))

---------------------------------------------------------------------------
(* Objects: association lists sorted by key (code-point order), keys unique *)

RECURSIVE ObjGet(_, _)
ObjGetM(m, key) == LET idx == {i \in 1..Len(m) : m[i][1] = key}
                   IN  IF idx = {} THEN Undef ELSE m[CHOOSE i \in idx : TRUE][2]
ObjGet(o, key) == ObjGetM(o.m, key)
ObjHas(o, key) == \E i \in 1..Len(o.m) : o.m[i][1] = key

\* insert or replace, keeping the list sorted
RECURSIVE InsertPair(_, _, _)
InsertPair(m, key, val) ==
    IF m = <<>> THEN << <<key, val>> >>
    ELSE IF m[1][1] = key THEN << <<key, val>> >> \o Tail(m)
    ELSE IF CpsLt(key, m[1][1]) THEN << <<key, val>> >> \o m
    ELSE <<m[1]>> \o InsertPair(Tail(m), key, val)
RemoveKey(m, key) == SeqFilter(LAMBDA p : p[1] # key, m)
ObjPut(o, key, val) == [o EXCEPT !.m = InsertPair(o.m, key, val)]
ObjDel(o, key) == [o EXCEPT !.m = RemoveKey(o.m, key)]
RECURSIVE ObjFromPairs(_)
ObjFromPairs(ps) == IF ps = <<>> THEN <<>> ELSE InsertPair(ObjFromPairs(Front(ps)), Last(ps)[1], Last(ps)[2])
ObjKeys(o) == [i \in 1..Len(o.m) |-> o.m[i][1]]
ObjVals(o) == [i \in 1..Len(o.m) |-> o.m[i][2]]

---------------------------------------------------------------------------
(* Identity-insensitive equality, kinds, truthiness                        *)

RECURSIVE Strip(_)
Strip(x) == CASE x.t = "num" -> IF x.n = 0 THEN [t |-> "num", n |-> 0, d |-> 1] ELSE x
              [] x.t = "arr" -> Arr([i \in 1..Len(x.v) |-> Strip(x.v[i])])
              [] x.t = "obj" -> Obj([i \in 1..Len(x.m) |-> <<x.m[i][1], Strip(x.m[i][2])>>])
              [] OTHER -> x

RECURSIVE HasFn(_)
HasFn(x) == CASE x.t = "fn"  -> TRUE
              [] x.t = "arr" -> \E i \in 1..Len(x.v) : HasFn(x.v[i])
              [] x.t = "obj" -> \E i \in 1..Len(x.m) : HasFn(x.m[i][2])
              [] OTHER -> FALSE
RECURSIVE HasNumX(_)
HasNumX(x) == CASE x.t = "numx" -> TRUE
              [] x.t = "arr" -> \E i \in 1..Len(x.v) : HasNumX(x.v[i])
              [] x.t = "obj" -> \E i \in 1..Len(x.m) : HasNumX(x.m[i][2])
              [] OTHER -> FALSE
RECURSIVE HasNull(_)
HasNull(x) == CASE x.t = "null" -> TRUE
              [] x.t = "arr" -> \E i \in 1..Len(x.v) : HasNull(x.v[i])
              [] x.t = "obj" -> \E i \in 1..Len(x.m) : HasNull(x.m[i][2])
              [] OTHER -> FALSE
RECURSIVE HasNonDyadic(_)
HasNonDyadic(x) == CASE x.t = "num" -> ~Dyadic(x)
              [] x.t = "arr" -> \E i \in 1..Len(x.v) : HasNonDyadic(x.v[i])
              [] x.t = "obj" -> \E i \in 1..Len(x.m) : HasNonDyadic(x.m[i][2])
              [] OTHER -> FALSE

\* JSON equality on function-free values (O2).  Tags first.
JEq(a, b) == IF a.t # b.t THEN FALSE
             ELSE IF a.t \in {"arr", "obj", "num"} THEN Strip(a) = Strip(b)
             ELSE a = b

Arrayify(x) == IF IsUndef(x) THEN <<>> ELSE IF IsArr(x) THEN x.v ELSE <<x>>

\* the value of a result sequence (path normalisation P6)
SeqValue(items, keep) == IF items = <<>> THEN Undef
                         ELSE IF Len(items) = 1 /\ ~keep THEN items[1]
                         ELSE Arr(items)

\* O9 boolean cast
RECURSIVE Truthy(_)
Truthy(x) == CASE x.t = "bool" -> x.b
               [] x.t = "num"  -> x.n # 0
               [] x.t = "str"  -> x.s # <<>>
               [] x.t = "arr"  -> \E i \in 1..Len(x.v) : Truthy(x.v[i])
               [] x.t = "obj"  -> x.m # <<>>
               [] OTHER -> FALSE            \* undef, null, fn

\* completely flatten nested arrays
RECURSIVE FlattenAll(_)
FlattenAll(x) == IF IsArr(x) THEN SeqConcatAll([i \in 1..Len(x.v) |-> FlattenAll(x.v[i])])
                 ELSE <<x>>

=============================================================================
