------------------------------ MODULE TraceApi ------------------------------
(***************************************************************************)
(* Trace validation of API histories recorded from the real code against   *)
(* the system specification JApi.  Each recorded event must be a step of   *)
(* the corresponding JApi action with the logged arguments; the logged     *)
(* projected state (document after the call, tree after the call) and the  *)
(* logged outcome are asserted after each step.  A step that is not        *)
(* allowed is reported ("VERDICT <id> <what>") and the history continues   *)
(* from the specification's state, so the rest of the trace is still       *)
(* checked; `Reset` starts an independent history in the same run.         *)
(***************************************************************************)
EXTENDS JApi, Json, TLCExt

CONSTANT TraceFile
TraceLines == ndJsonDeserialize(TraceFile)

VARIABLE l
tvars == <<greg, expr, heap, hist, gsnap, locals, nops, l>>

Ev == TraceLines[l]
IsEvent(name) == l <= Len(TraceLines) /\ Ev.ev = name /\ l' = l + 1
Has(e, f) == f \in DOMAIN e
Report(id, what) == PrintT("VERDICT " \o ToString(id) \o " " \o what)

\* C20 (E4): names are non-empty letters/digits/underscore.  The harness only uses ASCII names,
\* plus a few invalid ones; validity is logged by the code and decided here.
ValidNameCps(cs) == cs # <<>> /\ \A i \in 1..Len(cs) :
                       (cs[i] >= 48 /\ cs[i] <= 57) \/ (cs[i] >= 65 /\ cs[i] <= 90) \/ (cs[i] >= 97 /\ cs[i] <= 122) \/ cs[i] = 95
                       \/ cs[i] \in {233, 955, 1078}     \* letters beyond ASCII used by the driver

\* C20 (E4): the shapes a registered Go function may have: any parameters, one result or a result and an error.
\* The driver registers, now and then, a value of another shape (recorded as val.shape); it must be rejected.
ValidShape(v) == ~("shape" \in DOMAIN v) \/ v.shape \in {"ok1", "ok2"}
Registrable(e) == ValidNameCps(e.nmcps) /\ ValidShape(e.val)

TraceInit == ApiInit /\ l = 1

TReset ==
    /\ IsEvent("Reset")
    /\ greg' = <<>> /\ expr' = [e \in ExprIds |-> None] /\ hist' = <<>>
    /\ heap' = [d \in DocIds |-> Undef]
    /\ gsnap' = [e \in ExprIds |-> <<>>] /\ locals' = [e \in ExprIds |-> <<>>] /\ nops' = 0

TRegisterGlobal ==
    /\ IsEvent("RegisterGlobal")
    /\ nops' = nops
    /\ IF Registrable(Ev)
       THEN /\ RegisterGlobal(Ev.nm, Ev.val)
            /\ (IF Ev.ok THEN TRUE ELSE Report(Ev.id, "no;valid-registration-rejected"))
       ELSE /\ UNCHANGED <<greg, expr, heap, hist, gsnap, locals>>          \* rejected: nothing changes
            /\ (IF ~Ev.ok THEN TRUE ELSE Report(Ev.id, IF ValidNameCps(Ev.nmcps) THEN "no;invalid-shape-accepted" ELSE "no;invalid-name-accepted"))

TCompile ==
    /\ IsEvent("Compile")
    /\ nops' = nops
    /\ ApiCompile(Ev.e, Ev.ast)

TRegisterExpr ==
    /\ IsEvent("RegisterExpr")
    /\ nops' = nops
    /\ IF Registrable(Ev)
       THEN /\ RegisterExpr(Ev.e, Ev.nm, Ev.val)
            /\ (IF Ev.ok THEN TRUE ELSE Report(Ev.id, "no;valid-registration-rejected"))
       ELSE /\ UNCHANGED <<greg, expr, heap, hist, gsnap, locals>>
            /\ (IF ~Ev.ok THEN TRUE ELSE Report(Ev.id, IF ValidNameCps(Ev.nmcps) THEN "no;invalid-shape-accepted" ELSE "no;invalid-name-accepted"))

TSetDoc ==
    /\ IsEvent("SetDoc")
    /\ nops' = nops
    /\ CallerMutates(Ev.d, Ev.val)

\* sanctioned variation (C05)
RECURSIVE MayVary(_)
MayVarySeq(ns) == \E i \in 1..Len(ns) : MayVary(ns[i])
MayVary(n) ==
    CASE n.k = "Variable" -> n.nm \in {"random", "shuffle", "now", "millis", "keys", "each", "spread", "sift", "merge"}
      [] n.k \in {"Wildcard", "Descendent"} -> TRUE
      \* an object constructor may report any of the errors of its pairs (map order): values never vary, errors may
      [] n.k \in {"Object", "Group"} -> (\E i \in 1..Len(n.pairs) : MayVary(n.pairs[i][1]) \/ MayVary(n.pairs[i][2])) \/ (n.k = "Group" /\ MayVary(n.e))
      [] n.k = "Transform" -> MayVary(n.pat) \/ MayVary(n.upd) \/ MayVary(n.del)
      [] n.k = "Path" -> MayVarySeq(n.steps)
      [] n.k \in {"Negation"} -> MayVary(n.e)
      [] n.k \in {"NumOp", "CmpOp", "BoolOp", "Concat", "Range", "Apply"} -> MayVary(n.l) \/ MayVary(n.r)
      [] n.k = "Array" -> MayVarySeq(n.items)
      [] n.k = "Block" -> MayVarySeq(n.exprs)
      [] n.k \in {"Lambda", "TypedLambda"} -> MayVary(n.body)
      [] n.k \in {"Partial", "Call"} -> MayVary(n.fn) \/ MayVarySeq(n.args)
      [] n.k = "Predicate" -> MayVary(n.e) \/ MayVarySeq(n.filters)
      [] n.k = "Cond" -> MayVary(n.c) \/ MayVary(n.th) \/ (n.el.k # "None" /\ MayVary(n.el))
      [] n.k = "Assign" -> MayVary(n.e)
      [] n.k = "Sort" -> MayVary(n.e) \/ \E i \in 1..Len(n.terms) : MayVary(n.terms[i].e)
      [] OTHER -> FALSE

\* C20: names registered anywhere in this history; a wrong outcome of a program that mentions one of
\* them is a registry-visibility failure (the specification's outcome is computed from expr[e].reg)
RegNamesNow == {greg[i][1] : i \in 1..Len(greg)} \cup UNION {{expr[e].reg[i][1] : i \in 1..Len(expr[e].reg)} : e \in {x \in ExprIds : expr[x] # None}}
                \cup UNION {{gsnap[e][i][1] : i \in 1..Len(gsnap[e])} : e \in ExprIds}
RECURSIVE Mentions(_, _)
MentionsSeq(ns, N) == \E i \in 1..Len(ns) : Mentions(ns[i], N)
Mentions(n, N) ==
    CASE n.k = "Variable" -> n.nm \in N
      [] n.k = "Path" -> MentionsSeq(n.steps, N)
      [] n.k \in {"Negation"} -> Mentions(n.e, N)
      [] n.k \in {"NumOp", "CmpOp", "BoolOp", "Concat", "Range", "Apply"} -> Mentions(n.l, N) \/ Mentions(n.r, N)
      [] n.k = "Array" -> MentionsSeq(n.items, N)
      [] n.k = "Block" -> MentionsSeq(n.exprs, N)
      [] n.k \in {"Lambda", "TypedLambda"} -> Mentions(n.body, N)
      [] n.k \in {"Partial", "Call"} -> Mentions(n.fn, N) \/ MentionsSeq(n.args, N)
      [] n.k = "Predicate" -> Mentions(n.e, N) \/ MentionsSeq(n.filters, N)
      [] n.k = "Cond" -> Mentions(n.c, N) \/ Mentions(n.th, N) \/ (n.el.k # "None" /\ Mentions(n.el, N))
      [] n.k = "Assign" -> Mentions(n.e, N)
      [] n.k \in {"Object", "Group"} -> \E i \in 1..Len(n.pairs) : Mentions(n.pairs[i][1], N) \/ Mentions(n.pairs[i][2], N)
      [] OTHER -> FALSE

\* an earlier Eval of the same expression on an equal input with equal bindings (C05 Repeatable)
Earlier(e, inp, reg) == {i \in 1..Len(hist) : hist[i].e = e /\ hist[i].ast = expr[e].ast /\ hist[i].inp = inp /\ hist[i].reg = reg}

TEval ==
    /\ IsEvent("Eval")
    /\ nops' = nops
    /\ expr[Ev.e] # None
    /\ LET e == Ev.e
           v == Verdict(Ev.out, expr[e].ast, heap[Ev.d], expr[e].reg)
           f0 == IF Ev.inp # heap[Ev.d] THEN ";harness-document-mismatch" ELSE ""
           f1 == IF ~Ev.inp_same THEN ";input-modified" ELSE ""
           f3 == IF ~Ev.ast_same \/ (Has(Ev, "ast_after") /\ Ev.ast_after # expr[e].ast) THEN ";ast-modified" ELSE ""
           f4 == IF ~Ev.str_same THEN ";string-changed" ELSE ""
           prev == Earlier(e, heap[Ev.d], expr[e].reg)
           f5 == IF prev # {} /\ ~MayVary(expr[e].ast) /\ (\E i \in prev : hist[i].out # Ev.out /\ ~(hist[i].out.o = "err" /\ Ev.out.o = "err")) THEN ";not-repeatable" ELSE ""
           f6 == IF v = "no" /\ Mentions(expr[e].ast, RegNamesNow) THEN ";registry-visibility" ELSE ""
           all == v \o f0 \o f1 \o f3 \o f4 \o f5 \o f6
       IN  /\ (IF all = "ok" THEN TRUE ELSE Report(Ev.id, all))
           \* the specification's step: nothing but the observation changes
           /\ hist' = Append(hist, [e |-> e, ast |-> expr[e].ast, reg |-> expr[e].reg, inp |-> heap[Ev.d], out |-> Ev.out])
           /\ UNCHANGED <<greg, expr, heap, gsnap, locals>>

TraceNext == TReset \/ TRegisterGlobal \/ TCompile \/ TRegisterExpr \/ TSetDoc \/ TEval
TraceSpec == TraceInit /\ [][TraceNext]_tvars

\* every line was consumed by a step of the specification
TraceAccepted == LET d == TLCGet("stats").diameter IN
                 IF d - 1 = Len(TraceLines) THEN TRUE
                 ELSE PrintT("REJECTED after line " \o ToString(d - 1) \o " of " \o ToString(Len(TraceLines))) /\ FALSE
=============================================================================
