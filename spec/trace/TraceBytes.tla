----------------------------- MODULE TraceBytes -----------------------------
(***************************************************************************)
(* Trace validation of Expr.EvalBytes calls (C10): the input byte string   *)
(* is decoded exactly when it is a JSON text (JJson), and for the program  *)
(* "$" the bytes that come back are a JSON text denoting the same value.   *)
(***************************************************************************)
EXTENDS JJson, JOutcome, Json, TLCExt

CONSTANT TraceFile
TraceLines == ndJsonDeserialize(TraceFile)

VARIABLES l, verdict
tvars == <<l, verdict>>
Has(e, f) == f \in DOMAIN e

LineVerdict(e) ==
    LET o == e.out
        P == JsonParse(e.bytes)
    IN  IF o.o \notin {"val", "err", "undef"} THEN "no;evalbytes-" \o o.o
        ELSE IF ~P.ok THEN (IF o.o = "err" /\ o.k = "Json" THEN "ok"
                            ELSE IF o.o = "err" THEN "no;evalbytes-malformed-input-not-reported-as-such"
                            ELSE "no;evalbytes-malformed-input-accepted")
        ELSE IF ~P.clean THEN "inc:input with replaced characters or numbers beyond the double range"
        \* a top-level null decodes to Go's nil, which Eval takes for 'no input': "$" then has no value
        ELSE IF P.v = Null /\ o.o = "undef" THEN "ok"
        ELSE IF o.o # "val" THEN "no;evalbytes-valid-input-rejected"
        ELSE IF HasNumX(P.v) THEN "inc:number outside the model"
        ELSE LET R == JsonParse(o.rb) IN
             IF ~R.ok THEN "no;evalbytes-result-is-not-json"
             ELSE IF ~R.clean \/ HasNumX(R.v) THEN "inc:number outside the model"
             ELSE IF MatchVal(R.v, P.v) THEN "ok" ELSE "no;evalbytes-result-differs-from-input"

Init == l \in 1..Len(TraceLines) /\ verdict = "pending"
Check == verdict = "pending" /\ verdict' = LineVerdict(TraceLines[l]) /\ UNCHANGED l
Spec == Init /\ [][Check]_tvars
Report == IF verdict \in {"pending", "ok"} THEN TRUE ELSE PrintT("VERDICT " \o ToString(TraceLines[l].id) \o " " \o verdict)
=============================================================================
