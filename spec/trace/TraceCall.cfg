SPECIFICATION TraceSpec
CONSTANTS
  TraceFile = "trace.ndjson"
  Gs = {1, 2, 3}
  Tree = 0
  Fns = {"f", "h"}
  Shared = FALSE
INVARIANT OwnContextObserved
POSTCONDITION TraceAccepted
CHECK_DEADLOCK FALSE
