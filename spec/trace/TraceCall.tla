------------------------------ MODULE TraceCall ------------------------------
(***************************************************************************)
(* Trace validation of the call-protocol steps recorded through the gate   *)
(* hook while a TLC-enumerated schedule was forced on the real code.       *)
(* Every recorded SetCtx / Invoke event must be the corresponding step of  *)
(* JCall for that goroutine (a Descend step, which has no gate in the      *)
(* code, is composed silently before a SetCtx of a nested call), and the   *)
(* context item the built-in actually read (hook "ctx-use") is recorded in *)
(* obs, so that the invariant OwnContext is evaluated on the real          *)
(* execution at every step.                                                *)
(***************************************************************************)
EXTENDS JCall, Json, TLCExt

CONSTANT TraceFile
TraceLines == ndJsonDeserialize(TraceFile)

VARIABLE l
tvars == <<stack, slot, obs, done, l>>

Ev == TraceLines[l]
IsEvent(name) == l <= Len(TraceLines) /\ Ev.ev = name /\ l' = l + 1
Has(e, f) == f \in DOMAIN e

TraceInit == /\ stack = [g \in Gs |-> <<>>] /\ slot = [f \in Fns |-> NoCtx] /\ obs = [g \in Gs |-> <<>>] /\ done = [g \in Gs |-> TRUE] /\ l = 1

\* a new history starts only when every call tree of the previous one has been invoked to its end
TReset ==
    /\ IsEvent("Reset")
    /\ \A g \in Gs : done[g]
    /\ stack' = [g \in Gs |-> IF g <= Len(Ev.trees) THEN <<Frame(Ev.trees[g])>> ELSE <<>>]
    /\ done' = [g \in Gs |-> g > Len(Ev.trees)]
    /\ obs' = [g \in Gs |-> <<>>]
    /\ slot' = [f \in Fns |-> NoCtx]

\* a SetCtx event: the step itself, or - for a nested call - the silent Descend followed by it
DescendThenSetCtx(g) ==
    /\ ~done[g] /\ stack[g] # <<>> /\ Top(g).phase = "args" /\ Top(g).argi < Len(Top(g).call.args)
    /\ LET fr == Top(g)  a == fr.call.args[fr.argi + 1]
       IN  stack' = [stack EXCEPT ![g] = [@ EXCEPT ![Len(@)] = [fr EXCEPT !.argi = @ + 1]] \o <<[Frame(a) EXCEPT !.phase = "args", !.own = a.ctx]>>]
    /\ UNCHANGED <<slot, obs, done>>
TSetCtx == IsEvent("SetCtx") /\ (SetCtx(Ev.g) \/ DescendThenSetCtx(Ev.g))

\* an Invoke event: the frame is popped and what the built-in read is recorded
TInvoke ==
    /\ IsEvent("Invoke")
    /\ LET g == Ev.g IN
       /\ ~done[g] /\ stack[g] # <<>> /\ Top(g).phase = "args" /\ Top(g).argi = Len(Top(g).call.args)
       /\ obs' = [obs EXCEPT ![g] = Append(@, [own |-> Top(g).call.ctx, used |-> IF Has(Ev, "used") THEN Ev.used ELSE 0 - 2])]
       /\ stack' = [stack EXCEPT ![g] = SubSeq(@, 1, Len(@) - 1)]
       /\ done' = [done EXCEPT ![g] = Len(stack[g]) = 1]
       /\ UNCHANGED slot

TraceNext == TReset \/ TSetCtx \/ TInvoke
TraceSpec == TraceInit /\ [][TraceNext]_tvars

\* every context-defaulting call read the context item of its own call site
OwnContextObserved == \A g \in Gs : \A i \in 1..Len(obs[g]) : obs[g][i].used = obs[g][i].own

TraceAccepted == LET d == TLCGet("stats").diameter IN
                 IF d - 1 = Len(TraceLines) THEN TRUE
                 ELSE PrintT("REJECTED after line " \o ToString(d - 1) \o " of " \o ToString(Len(TraceLines))) /\ FALSE
=============================================================================
