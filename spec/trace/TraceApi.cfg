SPECIFICATION TraceSpec
CONSTANTS
  TraceFile = "trace.ndjson"
  ExprIds = {1, 2, 3}
  DocIds = {1, 2, 3}
  Programs = {}
  Docs = {}
  RegNames = {}
  RegVals = {}
  Dev = {}
  MaxHist = 100000
  MaxOps = 100000
INVARIANTS Visibility
POSTCONDITION TraceAccepted
CHECK_DEADLOCK FALSE
