------------------------------ MODULE TraceNum ------------------------------
(***************************************************************************)
(* Trace validation of $round / $string / $number / $formatNumber calls    *)
(* (C18) against the decimal-digit specification JNumFmt.  A line is one   *)
(* process-local sequence of calls; every step records the double passed   *)
(* in as its shortest decimal form, the other arguments, and what came     *)
(* back through the real API.                                              *)
(***************************************************************************)
EXTENDS JNumFmt, JLibNum, Json, TLCExt

CONSTANT TraceFile
TraceLines == ndJsonDeserialize(TraceFile)

VARIABLES l, verdict
tvars == <<l, verdict>>
Has(e, f) == f \in DOMAIN e

FormatOf(s) == [k \in FormatKeys |-> IF Has(s, "opts") /\ k \in DOMAIN s.opts THEN s.opts[k] ELSE DefaultFormat[k]]


\* magnitude: x = 0.d1d2... * 10^Mag(x)
Mag(x) == LET y == DecNorm(x) IN Len(y.ds) + y.e

\* the leading k digits of a decimal (the rest cut off)
Lead(x, k) == IF Len(x.ds) <= k THEN x ELSE Dec(x.sg, SubSeq(x.ds, 1, k), x.e + (Len(x.ds) - k))

\* | a - b | <= h for signed decimals
AbsWithinSigned(a, b, h) == LET d == DecSub(a, b) IN DecIsZero(d) \/ ~DecAbsLt(h, d)

\* O1 on doubles of any magnitude: the operands' exact decimal expansions, exact decimal arithmetic, and the
\* result's exact expansion within half a unit in the last place (1.2 * 10^-16 relative) of the real result
Tol(E) == Dec(1, BigMul(E.ds, <<1, 2>>), E.e - 17)
Near(o, E) == IF DecIsZero(E) THEN DecIsZero(o) ELSE DecSign(o) = DecSign(E) /\ AbsWithin(o, E, Tol(E))
\* correct rounding, exactly: the recorded double (exact expansion r.xe, neighbouring doubles r.lo < r.xe < r.hi) is a double
\* nearest to the real number E - no other double lies closer (a tie leaves both neighbours)
DistLe(a, b, E) == LET da == DecSub(a, E)  db == DecSub(b, E) IN ~DecAbsLt(db, da)        \* |a - E| <= |b - E|
Nearest(r, E) == IF "lo" \in DOMAIN r /\ "hi" \in DOMAIN r THEN DistLe(r.xe, r.lo, E) /\ DistLe(r.xe, r.hi, E) ELSE Near(r.xe, E)
OpVerdict(s) ==
    LET o == s.out IN
    IF ~Has(s, "xe") /\ s.op # "&" THEN "inc:operand with a long binary expansion"
    ELSE LET \* + - * / : forty leading digits of each operand carry more than the result can show
             X == IF s.op = "%" THEN s.xe ELSE Lead(s.xe, 40)
             Y == IF s.op = "%" THEN s.ye ELSE Lead(s.ye, 40)
             hasNum == o.o = "val" /\ Has(o, "xe")
             hasBool == o.o = "val" /\ Has(o, "b")
             span == LET lo == IF X.e < Y.e THEN X.e ELSE Y.e
                         hi == IF Mag(X) > Mag(Y) THEN Mag(X) ELSE Mag(Y) IN hi - lo
         IN
         CASE s.op \in {"+", "-", "*"} ->
                LET Y1 == IF s.op = "-" THEN DecNeg(Y) ELSE Y
                    \* an addend more than 45 orders of magnitude below the other does not show in the sum
                    E == IF s.op = "*" THEN DecMul(X, Y)
                         ELSE IF DecIsZero(X) THEN Y1 ELSE IF DecIsZero(Y1) THEN X
                         ELSE IF Mag(X) - Mag(Y1) > 45 THEN X ELSE IF Mag(Y1) - Mag(X) > 45 THEN Y1
                         ELSE DecAdd(X, Y1) IN
                IF ~DecIsZero(E) /\ Mag(E) >= 310 THEN (IF o.o = "err" THEN "ok" ELSE "no;num-op-overflow-not-reported")
                ELSE IF ~DecIsZero(E) /\ Mag(E) < 0 - 306 THEN "inc:result in the subnormal range"
                ELSE IF o.o = "err" THEN (IF Mag(E) = 309 THEN "inc:result at the edge of the double range" ELSE "no;num-op-failed")
                ELSE IF ~hasNum THEN "inc:result with a long binary expansion"
                \* (E was computed from forty leading digits of each operand: first the coarse test, then correct rounding on the exact operands)
                ELSE IF ~Near(o.xe, E) THEN "no;num-op-wrong-result"
                ELSE IF Len(s.xe.ds) + Len(s.ye.ds) <= 120 /\ (s.op = "*" \/ span <= 60)
                     THEN (IF Nearest(o, IF s.op = "+" THEN DecAdd(s.xe, s.ye) ELSE IF s.op = "-" THEN DecSub(s.xe, s.ye) ELSE DecMul(s.xe, s.ye)) THEN "ok" ELSE "no;num-op-not-correctly-rounded")
                ELSE "ok"
           [] s.op = "/" ->
                IF DecIsZero(Y) THEN (IF o.o = "err" THEN "ok" ELSE "no;num-op-division-by-zero-not-reported")
                ELSE IF DecIsZero(X) THEN (IF hasNum /\ DecIsZero(o.xe) THEN "ok" ELSE "no;num-op-wrong-result")
                ELSE IF Mag(X) - Mag(Y) >= 311 THEN (IF o.o = "err" THEN "ok" ELSE "no;num-op-overflow-not-reported")
                ELSE IF Mag(X) - Mag(Y) >= 308 \/ Mag(X) - Mag(Y) < 0 - 305 THEN "inc:result at the edge of the double range"
                ELSE IF o.o = "err" THEN "no;num-op-failed"
                ELSE IF ~hasNum THEN "inc:result with a long binary expansion"
                ELSE IF ~(DecSign(o.xe) = DecSign(X) * DecSign(Y) /\ AbsWithin(DecMul(o.xe, Y), X, Tol(X))) THEN "no;num-op-wrong-result"
                \* correct rounding of the quotient q: |q*y - x| is not larger than for either neighbouring double
                ELSE IF Has(o, "lo") /\ Has(o, "hi") /\ Len(s.xe.ds) + Len(s.ye.ds) <= 120 /\ span <= 60
                     THEN (LET R(q) == DecSub(DecMul(q, s.ye), s.xe) IN
                           IF ~DecAbsLt(R(o.lo), R(o.xe)) /\ ~DecAbsLt(R(o.hi), R(o.xe)) THEN "ok" ELSE "no;num-op-not-correctly-rounded")
                ELSE "ok"
           [] s.op = "%" ->
                IF DecIsZero(Y) THEN (IF o.o = "err" THEN "ok" ELSE "no;num-op-division-by-zero-not-reported")
                ELSE IF span > 60 THEN "inc:remainder of operands very far apart"
                ELSE IF ~hasNum THEN (IF o.o = "err" THEN "no;num-op-failed" ELSE "inc:result with a long binary expansion")
                ELSE IF DecSame(o.xe, DecRem(X, Y)) THEN "ok" ELSE "no;num-op-wrong-remainder"
           [] s.op \in {"<", "<=", ">", ">=", "=", "!="} ->
                IF ~hasBool THEN "no;num-op-comparison-not-boolean"
                ELSE LET want == CASE s.op = "<" -> DecLt(s.xe, s.ye) [] s.op = "<=" -> ~DecLt(s.ye, s.xe) [] s.op = ">" -> DecLt(s.ye, s.xe)
                                   [] s.op = ">=" -> ~DecLt(s.xe, s.ye) [] s.op = "=" -> DecSame(s.xe, s.ye) [] OTHER -> ~DecSame(s.xe, s.ye)
                     IN  IF o.b = want THEN "ok" ELSE "no;num-op-wrong-comparison"
           \* O6: & concatenates the string forms of its operands (the shortest decimal forms, N3)
           [] s.op = "&" ->
                IF o.o # "val" \/ ~Has(o, "s") THEN "no;num-op-concatenation-failed"
                ELSE LET T(x) == IF DecNorm(x).sg = 0 THEN {<<48>>, <<45, 48>>} ELSE {DecText(x)} IN
                     IF \E a \in T(s.x), b \in T(s.y) : o.s = a \o b THEN "ok" ELSE "no;num-op-wrong-string-form"
           \* O7: [x..y] lists the integers from x to y (counted here): non-integer bounds and more than ten million items are errors
           [] s.op = ".." ->
                LET IsInt(d) == DecIsZero(d) \/ DecNorm(d).e >= 0
                    sz == DecAdd(DecSub(s.ye, s.xe), Dec(1, <<1>>, 0))
                IN  IF ~IsInt(s.xe) \/ ~IsInt(s.ye) THEN (IF o.o = "err" THEN "ok" ELSE "no;num-op-range-with-non-integer-bound")
                    ELSE IF DecLt(s.ye, s.xe) THEN (IF hasNum /\ DecIsZero(o.xe) THEN "ok" ELSE "no;num-op-range-not-empty")
                    ELSE IF DecLt(Dec(1, <<1>>, 7), sz) THEN (IF o.o = "err" THEN "ok" ELSE "no;num-op-range-limit-not-reported")
                    ELSE IF hasNum /\ DecSame(o.xe, sz) THEN "ok" ELSE "no;num-op-range-wrong-size"
           [] OTHER -> "inc:operator outside TraceNum"

\* C11 (J2): a JSON number as a program denotes the double nearest to the decimal it spells
LiteralVerdict(s) ==
    LET o == s.out
        P == ParseNumeral(s.s)
    IN  IF ~P.ok \/ P.neg \/ (Len(P.ip) > 1 /\ P.ip[1] = 48) THEN "inc:not a JSON number without sign"
        ELSE IF Len(StripLeadingZeros(P.ex)) > 2 \/ NumeralTooBig(P) THEN "inc:numeral near the double range"
        ELSE IF o.o # "val" \/ ~Has(o, "x") THEN "no;json-number-literal-rejected"
        ELSE LET e0 == IF P.ex = <<>> THEN 0 ELSE DigitsVal(P.ex, 0)
                 D == NumeralDec(FALSE, P.ip, P.fp, IF P.eneg THEN 0 - e0 ELSE e0)
             IN  IF DecNorm(D).sg = 0 THEN (IF DecNorm(o.x).sg = 0 THEN "ok" ELSE "no;json-number-literal-value")
                 ELSE IF Mag(D) < 0 - 300 \/ Mag(D) > 300 THEN "inc:numeral near the double range"
                 ELSE IF ~Has(o, "xe") THEN (IF D.sg = o.x.sg /\ AbsWithin(o.x, D, Slack(D)) THEN "ok" ELSE "no;json-number-literal-value")
                 ELSE IF Nearest(o, D) THEN "ok" ELSE "no;json-number-literal-value"

\* A3 on doubles of any magnitude: $sum $max $min $average $count of an array of numbers.  The sum is the real sum up to the
\* rounding of n - 1 additions (n * 1.2 * 10^-16 of the sum of the magnitudes); max and min are members; the average is the sum over n.
RECURSIVE DecSumSeq(_, _, _), DecAbsSumSeq(_, _, _)
DecSumSeq(xs, i, acc) == IF i > Len(xs) THEN acc ELSE DecSumSeq(xs, i + 1, DecAdd(acc, xs[i]))
DecAbsSumSeq(xs, i, acc) == IF i > Len(xs) THEN acc ELSE DecAbsSumSeq(xs, i + 1, DecAdd(acc, Dec(1, xs[i].ds, xs[i].e)))
AggVerdict(s) ==
    LET o == s.out  n == Len(s.xs) IN
    IF ~Has(s, "xes") THEN "inc:operand with a long binary expansion"
    ELSE LET X == [i \in 1..n |-> Lead(s.xes[i], 40)]
             hasNum == o.o = "val" /\ Has(o, "xe")
             total == DecSumSeq(X, 1, Dec(0, <<0>>, 0))
             mags == DecAbsSumSeq(X, 1, Dec(0, <<0>>, 0))
             tol == IF DecIsZero(mags) THEN Dec(1, <<0>>, 0) ELSE Dec(1, BigMul(mags.ds, NatDigits(12 * (n + 1))), mags.e - 17)
             span == LET lo == MinS({X[i].e : i \in 1..n})  hi == MaxS({Len(X[i].ds) + X[i].e : i \in 1..n}) IN hi - lo
         IN  IF n = 0 THEN (IF s.name = "sum" THEN (IF hasNum /\ DecIsZero(o.xe) THEN "ok" ELSE "no;num-agg-empty-sum")
                            ELSE IF s.name = "count" THEN (IF hasNum /\ DecIsZero(o.xe) THEN "ok" ELSE "no;num-agg-count")
                            ELSE IF o.o = "err" \/ o.o = "undef" THEN "ok" ELSE "inc:aggregate of an empty array")
             ELSE IF span > 120 THEN "inc:members very far apart"
             ELSE CASE s.name = "count" -> IF hasNum /\ DecSame(o.xe, Dec(1, NatDigits(n), 0)) THEN "ok" ELSE "no;num-agg-count"
                    [] s.name \in {"max", "min"} ->
                         LET best == CHOOSE i \in 1..n : \A j \in 1..n : IF s.name = "max" THEN ~DecLt(s.xes[i], s.xes[j]) ELSE ~DecLt(s.xes[j], s.xes[i])
                         IN  IF hasNum /\ DecSame(o.xe, s.xes[best]) THEN "ok" ELSE "no;num-agg-extreme"
                    [] s.name = "sum" ->
                         IF ~DecIsZero(total) /\ Mag(total) >= 310 THEN (IF o.o = "err" THEN "ok" ELSE "no;num-agg-overflow-not-reported")
                         ELSE IF o.o = "err" THEN (IF Mag(mags) >= 309 THEN "inc:result at the edge of the double range" ELSE "no;num-agg-failed")
                         ELSE IF ~hasNum THEN "inc:result with a long binary expansion"
                         ELSE IF AbsWithinSigned(o.xe, total, tol) THEN "ok" ELSE "no;num-agg-wrong-sum"
                    [] s.name = "average" ->
                         IF o.o = "err" THEN (IF Mag(mags) >= 309 THEN "inc:result at the edge of the double range" ELSE "no;num-agg-failed")
                         ELSE IF ~hasNum THEN "inc:result with a long binary expansion"
                         ELSE IF AbsWithinSigned(DecMul(o.xe, Dec(1, NatDigits(n), 0)), total, DecAbsAdd(tol, tol)) THEN "ok" ELSE "no;num-agg-wrong-average"
                    [] OTHER -> "inc:aggregate outside TraceNum"

StepVerdict(s) ==
    LET o == s.out IN
    IF o.o = "bad" THEN "inc:the harness could not pose the case"
    ELSE IF o.o \notin {"val", "err"} /\ ~(s.fn = "agg" /\ o.o = "undef") THEN "no;num-" \o o.o
    ELSE CASE s.fn = "fmt" ->
              LET F == FormatOf(s)
                  valid == PictureValid(s.pic, F)
              IN  IF DecNorm(s.x).sg # 0 /\ Mag(s.x) < 0 - 306 THEN "inc:subnormal double (its decimal form is far from its value)"
                  ELSE IF valid = "unsure" THEN "inc:picture corner outside JNumFmt"
                  ELSE IF valid = "no" THEN (IF o.o = "err" THEN "ok" ELSE "no;num-invalid-picture-accepted")
                  ELSE IF o.o = "err" \/ ~Has(o, "s") THEN "no;num-valid-picture-rejected"
                  ELSE LET rb == ReadsBack(o.s, s.x, s.pic, F) IN
                       IF rb = "yes" THEN "ok" ELSE IF rb = "unsure" THEN "inc:picture corner outside JNumFmt" ELSE "no;num-format-" \o SubSeq(rb, 4, Len(rb))
           [] s.fn = "round" ->
              \* N2, for |x| * 10^p below 2^53 (the scaled value is exactly representable)
              IF o.o # "val" \/ ~Has(o, "x") THEN "no;num-round-failed"
              ELSE IF DecNorm(s.x).sg # 0 /\ Mag(s.x) + s.p > 15 THEN "inc:scaled value beyond 2^53"
              ELSE LET E == RoundDec(s.x, s.p) IN
                   \* the rounded decimal lies beyond the largest double: what is returned then is not said (an infinity is never right)
                   IF DecAbsLt(Dec(1, <<1, 7, 9, 7, 6, 9, 3, 1, 3, 4, 8, 6, 2, 3, 1, 5, 7>>, 292), E) THEN "inc:rounded value beyond the largest double"
                   ELSE IF DecEq([o.x EXCEPT !.sg = IF DecNorm(o.x).sg = 0 THEN 0 ELSE @], E) THEN "ok"
                   ELSE IF SigDigits(E) > 15 /\ E.sg = o.x.sg /\ AbsWithin(o.x, E, Slack(E)) THEN "ok"
                   ELSE "no;num-round-wrong"
           [] s.fn = "string" ->
              IF o.o # "val" \/ ~Has(o, "s") THEN "no;num-string-failed"
              ELSE IF o.s = DecText([s.x EXCEPT !.sg = IF DecNorm(s.x).sg = 0 THEN 0 ELSE @]) THEN "ok"
              ELSE IF DecNorm(s.x).sg = 0 /\ o.s = <<45, 48>> THEN "ok"                     \* the text of a negative zero is left open
              ELSE "no;num-string-not-shortest-form"
           [] s.fn = "numrt" ->
              IF o.o # "val" \/ ~Has(o, "x") THEN "no;num-round-trip-failed"
              ELSE IF DecEq(o.x, s.x) \/ (DecNorm(s.x).sg = 0 /\ DecNorm(o.x).sg = 0) THEN "ok" ELSE "no;num-round-trip"
           [] s.fn = "literal" -> LiteralVerdict(s)
           [] s.fn = "number" ->
              LET P == ParseNumeral(s.s) IN
              IF ~P.ok THEN (IF o.o = "err" THEN "ok" ELSE "no;num-non-numeral-accepted")
              ELSE IF NumeralTooBig(P) THEN (IF o.o = "err" THEN "ok" ELSE "inc:numeral near the double range")
              ELSE IF o.o # "val" \/ ~Has(o, "x") THEN (IF Len(StripLeadingZeros(P.ex)) > 2 THEN "inc:numeral near the double range" ELSE "no;num-numeral-rejected")
              ELSE IF Len(StripLeadingZeros(P.ex)) > 2 THEN "inc:numeral near the double range"
              ELSE LET e0 == IF P.ex = <<>> THEN 0 ELSE DigitsVal(P.ex, 0)
                       D == NumeralDec(P.neg, P.ip, P.fp, IF P.eneg THEN 0 - e0 ELSE e0)
                   IN  IF DecNorm(D).sg = 0 THEN (IF DecNorm(o.x).sg = 0 THEN "ok" ELSE "no;num-numeral-value")
                       ELSE IF SigDigits(D) <= 15 THEN (IF DecEq(o.x, D) THEN "ok" ELSE "no;num-numeral-value")
                       ELSE IF Has(o, "xe") /\ Mag(D) > 0 - 300 /\ Mag(D) < 300 THEN (IF DecSign(o.xe) = DecSign(D) /\ Nearest(o, D) THEN "ok" ELSE "no;num-numeral-value")
                       ELSE IF D.sg = o.x.sg /\ AbsWithin(o.x, D, Slack(D)) THEN "ok" ELSE "no;num-numeral-value"
           [] s.fn = "op" -> OpVerdict(s)
           [] s.fn = "agg" -> AggVerdict(s)
           [] OTHER -> "no;num-" \o o.o

RECURSIVE FirstBad(_, _)
FirstBad(steps, i) ==
    IF i > Len(steps) THEN "ok"
    ELSE LET v == StepVerdict(steps[i]) IN
         IF v = "ok" THEN FirstBad(steps, i + 1)
         ELSE IF SubSeq(v, 1, 3) = "inc" THEN (LET r == FirstBad(steps, i + 1) IN IF r = "ok" THEN v ELSE r)
         ELSE v \o ";step-" \o ToString(i)
LineVerdict(e) == FirstBad(e.steps, 1)

Init == l \in 1..Len(TraceLines) /\ verdict = "pending"
Check == verdict = "pending" /\ verdict' = LineVerdict(TraceLines[l]) /\ UNCHANGED l
Spec == Init /\ [][Check]_tvars
Report == IF verdict \in {"pending", "ok"} THEN TRUE ELSE PrintT("VERDICT " \o ToString(TraceLines[l].id) \o " " \o verdict)
=============================================================================
