------------------------------ MODULE TraceNum ------------------------------
(***************************************************************************)
(* Trace validation of $round / $string / $number / $formatNumber calls    *)
(* (C18) against the decimal-digit specification JNumFmt.  A line is one   *)
(* process-local sequence of calls; every step records the double passed   *)
(* in as its shortest decimal form, the other arguments, and what came     *)
(* back through the real API.                                              *)
(***************************************************************************)
EXTENDS JNumFmt, JLibNum, Json, TLCExt

CONSTANT TraceFile
TraceLines == ndJsonDeserialize(TraceFile)

VARIABLES l, verdict
tvars == <<l, verdict>>
Has(e, f) == f \in DOMAIN e

FormatOf(s) == [k \in FormatKeys |-> IF Has(s, "opts") /\ k \in DOMAIN s.opts THEN s.opts[k] ELSE DefaultFormat[k]]

\* magnitude: x = 0.d1d2... * 10^Mag(x)
Mag(x) == LET y == DecNorm(x) IN Len(y.ds) + y.e

StepVerdict(s) ==
    LET o == s.out IN
    IF o.o = "bad" THEN "inc:the harness could not pose the case"
    ELSE IF o.o \notin {"val", "err"} THEN "no;num-" \o o.o
    ELSE CASE s.fn = "fmt" ->
              LET F == FormatOf(s)
                  valid == PictureValid(s.pic, F)
              IN  IF DecNorm(s.x).sg # 0 /\ Mag(s.x) < 0 - 306 THEN "inc:subnormal double (its decimal form is far from its value)"
                  ELSE IF valid = "unsure" THEN "inc:picture corner outside JNumFmt"
                  ELSE IF valid = "no" THEN (IF o.o = "err" THEN "ok" ELSE "no;num-invalid-picture-accepted")
                  ELSE IF o.o = "err" \/ ~Has(o, "s") THEN "no;num-valid-picture-rejected"
                  ELSE LET rb == ReadsBack(o.s, s.x, s.pic, F) IN
                       IF rb = "yes" THEN "ok" ELSE IF rb = "unsure" THEN "inc:picture corner outside JNumFmt" ELSE "no;num-format-" \o SubSeq(rb, 4, Len(rb))
           [] s.fn = "round" ->
              \* N2, for |x| * 10^p below 2^53 (the scaled value is exactly representable)
              IF o.o # "val" \/ ~Has(o, "x") THEN "no;num-round-failed"
              ELSE IF DecNorm(s.x).sg # 0 /\ Mag(s.x) + s.p > 15 THEN "inc:scaled value beyond 2^53"
              ELSE LET E == RoundDec(s.x, s.p) IN
                   IF DecEq([o.x EXCEPT !.sg = IF DecNorm(o.x).sg = 0 THEN 0 ELSE @], E) THEN "ok"
                   ELSE IF SigDigits(E) > 15 /\ E.sg = o.x.sg /\ AbsWithin(o.x, E, Slack(E)) THEN "ok"
                   ELSE "no;num-round-wrong"
           [] s.fn = "string" ->
              IF o.o # "val" \/ ~Has(o, "s") THEN "no;num-string-failed"
              ELSE IF o.s = DecText([s.x EXCEPT !.sg = IF DecNorm(s.x).sg = 0 THEN 0 ELSE @]) THEN "ok"
              ELSE IF DecNorm(s.x).sg = 0 /\ o.s = <<45, 48>> THEN "ok"                     \* the text of a negative zero is left open
              ELSE "no;num-string-not-shortest-form"
           [] s.fn = "numrt" ->
              IF o.o # "val" \/ ~Has(o, "x") THEN "no;num-round-trip-failed"
              ELSE IF DecEq(o.x, s.x) \/ (DecNorm(s.x).sg = 0 /\ DecNorm(o.x).sg = 0) THEN "ok" ELSE "no;num-round-trip"
           [] s.fn = "number" ->
              LET P == ParseNumeral(s.s) IN
              IF ~P.ok THEN (IF o.o = "err" THEN "ok" ELSE "no;num-non-numeral-accepted")
              ELSE IF NumeralTooBig(P) THEN (IF o.o = "err" THEN "ok" ELSE "inc:numeral near the double range")
              ELSE IF o.o # "val" \/ ~Has(o, "x") THEN (IF Len(StripLeadingZeros(P.ex)) > 2 THEN "inc:numeral near the double range" ELSE "no;num-numeral-rejected")
              ELSE IF Len(StripLeadingZeros(P.ex)) > 2 THEN "inc:numeral near the double range"
              ELSE LET e0 == IF P.ex = <<>> THEN 0 ELSE DigitsVal(P.ex, 0)
                       D == NumeralDec(P.neg, P.ip, P.fp, IF P.eneg THEN 0 - e0 ELSE e0)
                   IN  IF DecNorm(D).sg = 0 THEN (IF DecNorm(o.x).sg = 0 THEN "ok" ELSE "no;num-numeral-value")
                       ELSE IF SigDigits(D) <= 15 THEN (IF DecEq(o.x, D) THEN "ok" ELSE "no;num-numeral-value")
                       ELSE IF D.sg = o.x.sg /\ AbsWithin(o.x, D, Slack(D)) THEN "ok" ELSE "no;num-numeral-value"
           [] OTHER -> "no;num-" \o o.o

RECURSIVE FirstBad(_, _)
FirstBad(steps, i) ==
    IF i > Len(steps) THEN "ok"
    ELSE LET v == StepVerdict(steps[i]) IN
         IF v = "ok" THEN FirstBad(steps, i + 1)
         ELSE IF SubSeq(v, 1, 3) = "inc" THEN (LET r == FirstBad(steps, i + 1) IN IF r = "ok" THEN v ELSE r)
         ELSE v \o ";step-" \o ToString(i)
LineVerdict(e) == FirstBad(e.steps, 1)

Init == l \in 1..Len(TraceLines) /\ verdict = "pending"
Check == verdict = "pending" /\ verdict' = LineVerdict(TraceLines[l]) /\ UNCHANGED l
Spec == Init /\ [][Check]_tvars
Report == IF verdict \in {"pending", "ok"} THEN TRUE ELSE PrintT("VERDICT " \o ToString(TraceLines[l].id) \o " " \o verdict)
=============================================================================
