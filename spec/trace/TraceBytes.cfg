SPECIFICATION Spec
CONSTANTS
  TraceFile = "trace.ndjson"
INVARIANT Report
CHECK_DEADLOCK FALSE
