------------------------------ MODULE TraceLex ------------------------------
(***************************************************************************)
(* Trace validation of Compile calls (C08; token agreement for C04, C11).  *)
(* Each line records one Compile of a byte string: the tokens the real     *)
(* lexer handed to the parser (hook verifToken), the outcome, and the      *)
(* totality side conditions.  The recorded token sequence must be the one  *)
(* the scanner specification JLex produces step by step (type, byte range, *)
(* position after the token), every step must keep Bounds and make         *)
(* Progress, and the outcome must lie in Compile's closed outcome domain.  *)
(***************************************************************************)
EXTENDS JLexFn, Json, TLCExt

CONSTANT TraceFile
TraceLines == ndJsonDeserialize(TraceFile)

VARIABLES l, verdict
tvars == <<l, verdict>>

\* token types of the port, in their numeric order
TokNames == <<"eof", "error", "string", "number", "boolean", "null", "name", "nameesc", "variable", "regex",
              "[", "]", "{", "}", "(", ")", ".", ",", ":", ";", "?", "+", "-", "*", "/", "%", "|", "=", "!=", "<", "<=", ">", ">=",
              "~>", "^", "&", "..", ":=", "**", "and", "or", "in">>
TokName(n) == IF n + 1 <= Len(TokNames) THEN TokNames[n + 1] ELSE "unknown"

Slice(B, s, e) == SubSeq(B, s + 1, e)
KeywordOf(bs) == CASE bs = <<97, 110, 100>> -> "and" [] bs = <<111, 114>> -> "or" [] bs = <<105, 110>> -> "in"
                   [] bs = <<116, 114, 117, 101>> -> "boolean" [] bs = <<102, 97, 108, 115, 101>> -> "boolean"
                   [] bs = <<110, 117, 108, 108>> -> "null" [] OTHER -> "name"
SpecType(B, tok) == IF tok.ty = "name" THEN KeywordOf(Slice(B, tok.s, tok.e)) ELSE tok.ty

\* replay of the recorded tokens through the scanner specification; returns "" or the first disagreement
RECURSIVE Replay(_, _, _, _)
Replay(B, toks, i, L) ==
    IF i > Len(toks) THEN ""
    ELSE LET T == LexToken(B, L, toks[i].ar)
             want == TokName(toks[i].ty)
         IN  IF ~(0 <= T.L.start /\ T.L.start <= T.L.cur /\ T.L.cur <= Len(B)) THEN "bounds"
             ELSE IF SpecType(B, T.tok) # want THEN "token-type"
             ELSE IF T.tok.s # toks[i].s THEN "token-start"
             ELSE IF want \notin {"regex", "eof", "error"} /\ T.tok.e # toks[i].e THEN "token-end"
             ELSE IF T.L.cur # toks[i].cur THEN "position"
             ELSE IF want \notin {"eof", "error"} /\ T.L.cur <= L.cur THEN "no-progress"
             ELSE Replay(B, toks, i + 1, T.L)

DefinedErrTypes == 1..27

LineVerdict(e) ==
    LET B == e.bytes
        o == e.out
        dom == IF o.o = "ok" THEN (IF o.nil_expr THEN "nil-expression" ELSE "")
               ELSE IF o.o = "err" THEN
                    (IF o.k # "Parse" THEN "error-not-a-parse-error"
                     ELSE IF o.ptype \notin DefinedErrTypes THEN "undefined-error-type"
                     ELSE IF ~o.msg_ok THEN "empty-message"
                     ELSE IF ~o.nil_expr THEN "expression-with-error"
                     ELSE IF o.pos < 0 \/ o.pos > Len(B) THEN "position-outside-input"
                     ELSE "")
               ELSE o.o                                   \* panic, timeout, crash: not a step of Compile
        side == IF "must_ok" \in DOMAIN e /\ ~e.must_ok THEN "mustcompile-disagrees"
                ELSE IF "str_ok" \in DOMAIN e /\ ~e.str_ok THEN "string-panics"
                ELSE IF "eval" \in DOMAIN e /\ e.eval \in {"panic", "timeout", "crash"} THEN "returned-expression-cannot-be-evaluated"
                ELSE ""
        lex == IF o.o \in {"ok", "err"} THEN Replay(B, e.toks, 1, LInit) ELSE ""
    IN  IF dom = "" /\ side = "" /\ lex = "" THEN "ok"
        ELSE "no" \o (IF dom # "" THEN ";compile-" \o dom ELSE "") \o (IF side # "" THEN ";" \o side ELSE "")
                  \o (IF lex # "" THEN ";lexer-" \o lex ELSE "")

Init == l \in 1..Len(TraceLines) /\ verdict = "pending"
Check == verdict = "pending" /\ verdict' = LineVerdict(TraceLines[l]) /\ UNCHANGED l
Spec == Init /\ [][Check]_tvars
Report == IF verdict \in {"pending", "ok"} THEN TRUE ELSE PrintT("VERDICT " \o ToString(TraceLines[l].id) \o " " \o verdict)
=============================================================================
