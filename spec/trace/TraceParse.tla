----------------------------- MODULE TraceParse -----------------------------
(***************************************************************************)
(* Trace validation of Compile calls against the grammar (C04) on top of   *)
(* the scanner checks of TraceLex: the tree the real parser built for the  *)
(* recorded bytes must be the tree JSyntax!Parse builds, and Compile must  *)
(* fail exactly when JSyntax!Parse rejects the text (where the grammar     *)
(* specification does not abstain).                                        *)
(***************************************************************************)
EXTENDS JSyntax, Json, TLCExt

CONSTANT TraceFile
TraceLines == ndJsonDeserialize(TraceFile)

VARIABLES l, verdict
tvars == <<l, verdict>>

LineVerdict(e) ==
    LET B == e.bytes
        o == e.out
        S == Parse(B)
    IN  IF o.o \notin {"ok", "err"} THEN "no;compile-" \o o.o
        ELSE IF S.ok = "abstain" THEN "inc:grammar outside JSyntax"
        ELSE IF S.ok = "yes" /\ o.o = "err" THEN "no;parse-rejected-valid-text"
        ELSE IF S.ok = "no" /\ o.o = "ok" THEN "no;parse-accepted-invalid-text"
        ELSE IF S.ok = "yes" /\ S.ast # e.ast THEN "no;parse-tree-differs"
        ELSE "ok"

Init == l \in 1..Len(TraceLines) /\ verdict = "pending"
Check == verdict = "pending" /\ verdict' = LineVerdict(TraceLines[l]) /\ UNCHANGED l
Spec == Init /\ [][Check]_tvars
Report == IF verdict \in {"pending", "ok"} THEN TRUE ELSE PrintT("VERDICT " \o ToString(TraceLines[l].id) \o " " \o verdict)
=============================================================================
