----------------------------- MODULE TraceParse -----------------------------
(***************************************************************************)
(* Trace validation of Compile calls against the grammar (C04) on top of   *)
(* the scanner checks of TraceLex: the tree the real parser built for the  *)
(* recorded bytes must be the tree JSyntax!Parse builds, and Compile must  *)
(* fail exactly when JSyntax!Parse rejects the text (where the grammar     *)
(* specification does not abstain).                                        *)
(***************************************************************************)
EXTENDS JSyntax, Json, TLCExt

CONSTANT TraceFile
TraceLines == ndJsonDeserialize(TraceFile)

VARIABLES l, verdict
tvars == <<l, verdict>>

RECURSIVE HasRegex(_)
HasRegexSeq(ns) == \E i \in 1..Len(ns) : HasRegex(ns[i])
HasRegex(n) ==
    CASE n.k = "Regex" -> TRUE
      [] n.k = "Path" -> HasRegexSeq(n.steps)
      [] n.k \in {"Negation"} -> HasRegex(n.e)
      [] n.k \in {"NumOp", "CmpOp", "BoolOp", "Concat", "Range", "Apply"} -> HasRegex(n.l) \/ HasRegex(n.r)
      [] n.k = "Array" -> HasRegexSeq(n.items)
      [] n.k = "Block" -> HasRegexSeq(n.exprs)
      [] n.k \in {"Object", "Group"} -> (\E i \in 1..Len(n.pairs) : HasRegex(n.pairs[i][1]) \/ HasRegex(n.pairs[i][2])) \/ (n.k = "Group" /\ HasRegex(n.e))
      [] n.k = "Lambda" -> HasRegex(n.body)
      [] n.k \in {"Partial", "Call"} -> HasRegex(n.fn) \/ HasRegexSeq(n.args)
      [] n.k = "Predicate" -> HasRegex(n.e) \/ HasRegexSeq(n.filters)
      [] n.k = "Cond" -> HasRegex(n.c) \/ HasRegex(n.th) \/ HasRegex(n.el)
      [] n.k = "Assign" -> HasRegex(n.e)
      [] n.k = "Sort" -> HasRegex(n.e) \/ \E i \in 1..Len(n.terms) : HasRegex(n.terms[i].e)
      [] n.k = "Transform" -> HasRegex(n.pat) \/ HasRegex(n.upd) \/ HasRegex(n.del)
      [] OTHER -> FALSE

LineVerdict(e) ==
    LET B == e.bytes
        o == e.out
        S == Parse(B)
    IN  IF o.o \notin {"ok", "err"} THEN "no;compile-" \o o.o
        ELSE IF S.ok = "abstain" THEN "inc:grammar outside JSyntax"
        \* the validity of a (non-empty) regex pattern is decided by the engine, not by the grammar
        ELSE IF S.ok = "yes" /\ o.o = "err" /\ o.ptype = 15 /\ HasRegex(S.ast) THEN "inc:regex pattern rejected by the engine"
        ELSE IF S.ok = "yes" /\ o.o = "err" THEN "no;parse-rejected-valid-text"
        ELSE IF S.ok = "no" /\ o.o = "ok" THEN "no;parse-accepted-invalid-text"
        ELSE IF S.ok = "yes" /\ S.ast # e.ast THEN "no;parse-tree-differs"
        ELSE "ok"

Init == l \in 1..Len(TraceLines) /\ verdict = "pending"
Check == verdict = "pending" /\ verdict' = LineVerdict(TraceLines[l]) /\ UNCHANGED l
Spec == Init /\ [][Check]_tvars
Report == IF verdict \in {"pending", "ok"} THEN TRUE ELSE PrintT("VERDICT " \o ToString(TraceLines[l].id) \o " " \o verdict)
=============================================================================
