------------------------------ MODULE TraceDate ------------------------------
(***************************************************************************)
(* Trace validation of $fromMillis / $toMillis calls (C19) against the     *)
(* calendar and picture specification JLibDate.  A step records the        *)
(* instant (day, millisecond of day), picture and offset passed through    *)
(* the real API and what came back.                                        *)
(***************************************************************************)
EXTENDS JLibDate, Json, TLCExt

CONSTANT TraceFile
TraceLines == ndJsonDeserialize(TraceFile)

VARIABLES l, verdict
tvars == <<l, verdict>>
Has(e, f) == f \in DOMAIN e

LocalYear(day, ms, off) == Civil(day + FloorDiv(ms + off * 60000, 86400000)).y

LineVerdict(e) ==
    LET o == e.out
        hasPic == Has(e, "pic")   hasTz == Has(e, "tz")
    IN
    IF o.o \notin {"val", "undef", "err"} THEN "no;date-" \o o.o
    ELSE CASE e.fn = "from" ->
              LET v == FromMillisVerdict(e.day, e.msod, IF hasPic THEN e.pic ELSE <<>>, hasPic, IF hasTz THEN e.tz ELSE <<>>, hasTz, IF o.o = "val" /\ Has(o, "s") THEN o.s ELSE <<>>)
              IN  IF v = "error-expected" THEN (IF o.o = "err" THEN "ok" ELSE "no;date-invalid-picture-or-offset-accepted")
                  ELSE IF o.o # "val" THEN (IF v = "open" THEN "inc:picture component outside JLibDate" ELSE "no;date-valid-call-rejected")
                  ELSE IF v = "yes" THEN "ok" ELSE IF v = "open" THEN "inc:picture component outside JLibDate" ELSE "no;date-wrong-field"
           \* $toMillis(text, picture): a malformed picture, or a text that lacks a literal character of the picture, is an error;
           \* which instant a matching text denotes is left to the code (the three round-trip pictures are covered by "rt")
           [] e.fn = "to" /\ hasPic ->
              LET S == ScanPicture(e.pic, 1, <<>>, <<>>, 0, 0, 0)
              IN  IF ~S.ok \/ ~HasMarker(e.pic) THEN (IF o.o = "err" THEN "ok" ELSE "no;date-invalid-picture-or-offset-accepted")
                  ELSE IF \E i \in 1..Len(e.pic) : e.pic[i] \notin {91, 93} /\ ~(e.pic[i] >= 48 /\ e.pic[i] <= 57) /\ ~(e.pic[i] >= 65 /\ e.pic[i] <= 90) /\ ~(e.pic[i] >= 97 /\ e.pic[i] <= 122)
                                                   /\ e.pic[i] \notin {44, 42, 45, 32} /\ ~(\E j \in 1..Len(e.s) : e.s[j] = e.pic[i])
                       THEN (IF o.o = "err" THEN "ok" ELSE "no;date-text-not-matching-the-picture-accepted")
                  ELSE "inc:parsing by picture outside JLibDate"
           [] e.fn = "to" ->
              LET P == ParseIso(e.s)
              IN  IF P.ok THEN (IF o.o = "val" /\ Has(o, "day") /\ o.day = P.day /\ o.msod = P.ms THEN "ok" ELSE "no;date-wrong-instant")
                  ELSE (IF o.o = "err" THEN "ok" ELSE "inc:text outside the default layouts of JLibDate")
           \* D6: within one evaluation every $now() and $millis() denotes one and the same instant, which lies
           \* between the wall-clock times at which Eval was entered and left
           [] e.fn = "clock" ->
              IF o.o # "val" THEN "no;date-clock-evaluation-failed"
              ELSE LET Le(a, b) == a[1] < b[1] \/ (a[1] = b[1] /\ a[2] <= b[2])
                   IN  IF \E i \in 1..Len(e.vals) : e.vals[i] # e.vals[1] THEN "no;date-clock-not-constant-within-one-evaluation"
                       ELSE IF ~(Le(e.t0, e.vals[1]) /\ Le(e.vals[1], e.t1)) THEN "no;date-clock-outside-the-evaluation"
                       ELSE "ok"
           [] e.fn = "rt" ->
              \* D5: $toMillis($fromMillis(t, picture, tz), picture) = t for the instants the picture can represent
              LET O == IF hasTz THEN ParseOffset(e.tz) ELSE [ok |-> TRUE, off |-> 0]
              IN  IF ~O.ok THEN (IF o.o = "err" THEN "ok" ELSE "no;date-invalid-picture-or-offset-accepted")
                  ELSE IF o.o = "val" /\ Has(o, "day") /\ o.day = e.day /\ o.msod = e.msod THEN "ok"
                  \* the instant lies in the years 1000..9999 but its local date in the requested offset does not
                  ELSE IF LocalYear(e.day, e.msod, O.off) \notin 1000..9999 THEN "no;date-round-trip-local-year-outside-1000-9999"
                  ELSE "no;date-round-trip"

Init == l \in 1..Len(TraceLines) /\ verdict = "pending"
Check == verdict = "pending" /\ verdict' = LineVerdict(TraceLines[l]) /\ UNCHANGED l
Spec == Init /\ [][Check]_tvars
Report == IF verdict \in {"pending", "ok"} THEN TRUE ELSE PrintT("VERDICT " \o ToString(TraceLines[l].id) \o " " \o verdict)
=============================================================================
