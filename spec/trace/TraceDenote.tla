----------------------------- MODULE TraceDenote -----------------------------
(***************************************************************************)
(* C11 - JSON texts are expressions that denote themselves.  The           *)
(* denotation of a text is defined by the specification alone: the grammar *)
(* (JSyntax!Parse: string escapes incl. \uXXXX and surrogate pairs, number *)
(* syntax, nested containers) followed by the evaluation rules of literals *)
(* and constructors (JEval).  A recorded step is the bytes, the outcome of *)
(* compiling them as an expression and evaluating it with EvalBytes, and - *)
(* as an environment observation - what encoding/json decodes the same     *)
(* bytes to.  Where the exact-number model abstains (more than 9           *)
(* significant digits, magnitudes beyond 1e9) the reference decoding is    *)
(* the oracle, and it is also cross-checked against the specification      *)
(* wherever both speak.                                                    *)
(***************************************************************************)
EXTENDS JSyntax, JOutcome, Json, TLCExt

CONSTANT TraceFile
TraceLines == ndJsonDeserialize(TraceFile)

VARIABLES l, verdict
tvars == <<l, verdict>>

Inp == Obj(<< <<(<<97>>), IntV(1)>>, <<(<<98>>), Arr(<<IntV(2)>>)>> >>)
HasF(e, f) == f \in DOMAIN e

LineVerdict(e) ==
    LET B == e.bytes
        o == e.out
        S == Parse(B)
    IN  IF o.o \notin {"val", "undef", "err"} THEN "no;denote-" \o o.o
        ELSE IF S.ok = "abstain" THEN "inc:grammar outside JSyntax"
        ELSE IF S.ok = "no" THEN (IF o.o = "err" /\ o.k = "Parse" THEN "ok" ELSE "no;denote-malformed-text-accepted")
        ELSE IF o.o = "err" /\ o.k = "Parse" THEN "no;denote-valid-text-rejected"
        \* a "$" may have become a variable reference (a mutated text): variables are not part of JSON texts, and the
        \* scanner-level tree keeps their names as code points, which the evaluator specification does not look up
        ELSE IF \E i \in 1..Len(B) : B[i] = 36 THEN "inc:text with a variable sign"
        ELSE LET v == Verdict(o, S.ast, IF HasF(e, "inp") THEN e.inp ELSE Inp, <<>>)
             IN  IF v = "ok" THEN
                      \* the reference decoder, where it accepted the text, must agree with the specification too
                      (IF HasF(e, "ref") /\ o.o = "val" /\ ~MatchVal(e.ref, o.r) THEN "no;json-reference-decoder-differs" ELSE "ok")
                 ELSE IF v = "no" THEN "no;denote-wrong-value"
                 ELSE IF HasF(e, "ref") THEN (IF o.o = "val" /\ MatchVal(o.r, e.ref) THEN "ok" ELSE "no;denote-differs-from-reference-decoder")
                 ELSE v

Init == l \in 1..Len(TraceLines) /\ verdict = "pending"
Check == verdict = "pending" /\ verdict' = LineVerdict(TraceLines[l]) /\ UNCHANGED l
Spec == Init /\ [][Check]_tvars
Report == IF verdict \in {"pending", "ok"} THEN TRUE ELSE PrintT("VERDICT " \o ToString(TraceLines[l].id) \o " " \o verdict)
=============================================================================
