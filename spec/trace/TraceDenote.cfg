SPECIFICATION Spec
CONSTANTS
  TraceFile = "trace.ndjson"
  Stale = FALSE
INVARIANT Report
CHECK_DEADLOCK FALSE
