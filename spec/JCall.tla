------------------------------- MODULE JCall -------------------------------
(***************************************************************************)
(* Refinement of one built-in function call into the steps the evaluator   *)
(* takes (eval.go evalFunctionCall), per goroutine and per call frame:     *)
(*                                                                         *)
(*   Resolve  look the function up, push a frame for the call              *)
(*   SetCtx   record the caller's name and context item for the call       *)
(*   Descend  the next argument is itself a call: push its frame           *)
(*   Invoke   the built-in reads "its" context item and runs; pop          *)
(*                                                                         *)
(* Each goroutine evaluates a constant call tree [fn, ctx, args].  In the  *)
(* design every call owns its context (a per-call copy of the callable).   *)
(* The pinned code kept name and context in the process-wide callable:     *)
(* deviation Shared = TRUE stores them in one cell per built-in, written   *)
(* by SetCtx and read by Invoke.  One model decides three clauses:         *)
(*   - C12 (context item of the own call site) with one goroutine and      *)
(*     nested calls,                                                       *)
(*   - C05 (no dependence on earlier calls) - a stale cell,                *)
(*   - C06 (isolation) with 2..3 goroutines interleaved.                   *)
(***************************************************************************)
EXTENDS Integers, Sequences, FiniteSets, TLC

CONSTANTS Gs,        \* goroutines
          Tree,      \* Tree[g]: the call tree goroutine g evaluates: [fn, ctx, args]
          Fns,       \* built-in function names
          Shared     \* deviation: context lives in the shared callable

VARIABLES stack,  \* stack[g]: sequence of frames [call, phase, argi, own]
          slot,   \* slot[f]: the shared cell of built-in f (only meaningful when Shared)
          obs,    \* obs[g]: sequence of [own, used] - what each completed call was given and what it read
          done    \* done[g]: the goroutine has finished its tree
callvars == <<stack, slot, obs, done>>

NoCtx == 0
Frame(c) == [call |-> c, phase |-> "resolved", argi |-> 0, own |-> NoCtx]

CallInit ==
    /\ stack = [g \in Gs |-> <<Frame(Tree[g])>>]
    /\ slot = [f \in Fns |-> NoCtx]
    /\ obs = [g \in Gs |-> <<>>]
    /\ done = [g \in Gs |-> FALSE]

Top(g) == stack[g][Len(stack[g])]
SetTop(g, fr) == [stack EXCEPT ![g] = [@ EXCEPT ![Len(@)] = fr]]

\* record name and context for the call: in a per-call copy (design) or in the shared callable (deviation)
SetCtx(g) ==
    /\ ~done[g] /\ stack[g] # <<>> /\ Top(g).phase = "resolved"
    /\ stack' = SetTop(g, [Top(g) EXCEPT !.phase = "args", !.own = Top(g).call.ctx])
    /\ slot' = IF Shared THEN [slot EXCEPT ![Top(g).call.fn] = Top(g).call.ctx] ELSE slot
    /\ UNCHANGED <<obs, done>>

\* evaluate the next argument; an argument that is a call gets its own frame
Descend(g) ==
    /\ ~done[g] /\ stack[g] # <<>> /\ Top(g).phase = "args" /\ Top(g).argi < Len(Top(g).call.args)
    /\ LET fr == Top(g)  a == fr.call.args[fr.argi + 1]
       IN  stack' = [stack EXCEPT ![g] = [@ EXCEPT ![Len(@)] = [fr EXCEPT !.argi = @ + 1]] \o <<Frame(a)>>]
    /\ UNCHANGED <<slot, obs, done>>

\* all arguments evaluated: the built-in runs and reads its context item
Invoke(g) ==
    /\ ~done[g] /\ stack[g] # <<>> /\ Top(g).phase = "args" /\ Top(g).argi = Len(Top(g).call.args)
    /\ LET fr == Top(g)
           used == IF Shared THEN slot[fr.call.fn] ELSE fr.own
       IN  /\ obs' = [obs EXCEPT ![g] = Append(@, [own |-> fr.call.ctx, used |-> used])]
           /\ stack' = [stack EXCEPT ![g] = SubSeq(@, 1, Len(@) - 1)]
           /\ done' = [done EXCEPT ![g] = Len(stack[g]) = 1]
    /\ UNCHANGED slot

CallNext == \E g \in Gs : SetCtx(g) \/ Descend(g) \/ Invoke(g)
CallSpec == CallInit /\ [][CallNext]_callvars /\ WF_callvars(CallNext)

\* every call used the context item of its own call site
OwnContext == \A g \in Gs : \A i \in 1..Len(obs[g]) : obs[g][i].used = obs[g][i].own
\* every goroutine finishes
AllDone == <>(\A g \in Gs : done[g])
=============================================================================
