------------------------------ MODULE TraceEval ------------------------------
(***************************************************************************)
(* Trace validation of recorded Eval calls.  Every line of the trace is    *)
(* one step of the Eval action of JApi:                                    *)
(*    pre-state  (expression ast, caller's document inp, bindings)         *)
(*    post-state (outcome out, document after, ast after)                  *)
(* Lines are independent one-step behaviours, so TLC checks them in        *)
(* parallel: Init picks a line, Check evaluates it.  A failing line never  *)
(* stops the run; it is printed and counted.                               *)
(***************************************************************************)
EXTENDS JOutcome, Json, TLCExt

CONSTANT TraceFile
TraceLines == ndJsonDeserialize(TraceFile)

VARIABLES l, verdict
vars == <<l, verdict>>

Init == l \in 1..Len(TraceLines) /\ verdict = "pending"

\* sanctioned variation between two evaluations (C05): $random, $shuffle, the clock, the member
\* order of objects, and which error an object constructor reports
RECURSIVE MayVary(_)
MayVarySeq(ns) == \E i \in 1..Len(ns) : MayVary(ns[i])
MayVary(n) ==
    CASE n.k = "Variable" -> n.nm \in {"random", "shuffle", "now", "millis", "keys", "each", "spread", "sift", "merge"}
      [] n.k \in {"Wildcard", "Descendent"} -> TRUE
      [] n.k \in {"Object", "Group"} -> (\E i \in 1..Len(n.pairs) : MayVary(n.pairs[i][1]) \/ MayVary(n.pairs[i][2])) \/ (n.k = "Group" /\ MayVary(n.e))
      [] n.k = "Transform" -> MayVary(n.pat) \/ MayVary(n.upd) \/ MayVary(n.del)
      [] n.k = "Path" -> MayVarySeq(n.steps)
      [] n.k \in {"Negation"} -> MayVary(n.e)
      [] n.k \in {"NumOp", "CmpOp", "BoolOp", "Concat", "Range", "Apply"} -> MayVary(n.l) \/ MayVary(n.r)
      [] n.k = "Array" -> MayVarySeq(n.items)
      [] n.k = "Block" -> MayVarySeq(n.exprs)
      [] n.k \in {"Lambda", "TypedLambda"} -> MayVary(n.body)
      [] n.k \in {"Partial", "Call"} -> MayVary(n.fn) \/ MayVarySeq(n.args)
      [] n.k = "Predicate" -> MayVary(n.e) \/ MayVarySeq(n.filters)
      [] n.k = "Cond" -> MayVary(n.c) \/ MayVary(n.th) \/ (n.el.k # "None" /\ MayVary(n.el))
      [] n.k = "Assign" -> MayVary(n.e)
      [] n.k = "Sort" -> MayVary(n.e) \/ \E i \in 1..Len(n.terms) : MayVary(n.terms[i].e)
      [] OTHER -> FALSE

\* an object constructor with several failing pairs may report any of their errors (Go's map order): between two
\* evaluations only the error may differ, never a value
RECURSIVE HasCtor(_)
HasCtorSeq(ns) == \E i \in 1..Len(ns) : HasCtor(ns[i])
HasCtor(n) ==
    CASE n.k \in {"Object", "Group"} -> TRUE
      [] n.k = "Transform" -> HasCtor(n.pat) \/ HasCtor(n.upd) \/ HasCtor(n.del)
      [] n.k = "Path" -> HasCtorSeq(n.steps)
      [] n.k \in {"Negation"} -> HasCtor(n.e)
      [] n.k \in {"NumOp", "CmpOp", "BoolOp", "Concat", "Range", "Apply"} -> HasCtor(n.l) \/ HasCtor(n.r)
      [] n.k = "Array" -> HasCtorSeq(n.items)
      [] n.k = "Block" -> HasCtorSeq(n.exprs)
      [] n.k \in {"Lambda", "TypedLambda"} -> HasCtor(n.body)
      [] n.k \in {"Partial", "Call"} -> HasCtor(n.fn) \/ HasCtorSeq(n.args)
      [] n.k = "Predicate" -> HasCtor(n.e) \/ HasCtorSeq(n.filters)
      [] n.k = "Cond" -> HasCtor(n.c) \/ HasCtor(n.th) \/ (n.el.k # "None" /\ HasCtor(n.el))
      [] n.k = "Assign" -> HasCtor(n.e)
      [] n.k = "Sort" -> HasCtor(n.e) \/ \E i \in 1..Len(n.terms) : HasCtor(n.terms[i].e)
      [] OTHER -> FALSE

Has(e, f) == f \in DOMAIN e
\* the two outcomes are both errors (what a constructor's map order may change)
ErrorsOnly(e, other) == HasCtor(e.ast) /\ e.out.o = "err" /\ Has(e, other) /\ "o" \in DOMAIN e[other] /\ e[other].o = "err"

\* the verdict on one recorded step: the semantic verdict followed by the frame conditions of
\* the Eval action that the step violates (nothing but the outcome may change: C05, C07; the
\* outcome is JSON and EvalBytes agrees: C10)
LineVerdict(e) ==
    \* a literal whose pattern is empty or that the engine rejects is a compile error (C17), flags or no flags
    IF Has(e, "rx_invalid") /\ e.rx_invalid THEN
        (IF e.ev = "Compile" /\ e.out.o = "err" /\ e.out.k = "Parse" THEN "ok" ELSE "no;invalid-pattern-accepted")
    ELSE IF e.ev = "Compile" THEN
        (IF e.out.o = "err" /\ e.out.k = "Parse" THEN "skip:compile-error" ELSE "no")
    ELSE
    LET eng == IF Has(e, "eng") THEN e.eng ELSE <<>>
        tree == IF Has(e, "want_ast") THEN e.want_ast ELSE e.ast
        v0 == VerdictE(e.out, tree, e.inp, e.binds, eng)
        \* a result that depends on the member order of an object is compared as a multiset; when that fails the specification
        \* abstains (what was done with the members afterwards may depend on their order) - except when the enumeration is
        \* the outermost operation and nothing else in the program enumerates: then the result is a permutation of the
        \* specified one, or the evaluation is wrong
        v == IF v0 = "inc:member order" /\ tree.k = "Call" /\ tree.fn.k = "Variable" /\ tree.fn.nm \in {"each", "keys", "spread"}
                   /\ ~MayVarySeq(tree.args) /\ ~HasCtorSeq(tree.args) THEN "no" ELSE v0
        f1 == IF (Has(e, "inp_same") /\ ~e.inp_same) \/ (Has(e, "inp_after") /\ e.inp_after # e.inp) THEN ";input-modified" ELSE ""
        f2 == IF (Has(e, "binds_same") /\ ~e.binds_same) \/ (Has(e, "binds_after") /\ e.binds_after # e.binds) THEN ";binds-modified" ELSE ""
        f3 == IF (Has(e, "ast_same") /\ ~e.ast_same) \/ (Has(e, "ast_after") /\ e.ast_after # e.ast) THEN ";ast-modified" ELSE ""
        f4 == IF Has(e, "str_same") /\ ~e.str_same THEN ";string-changed" ELSE ""
        f5 == IF Has(e, "same2") /\ ~e.same2 /\ ~MayVary(e.ast) /\ ~ErrorsOnly(e, "out2") THEN ";not-repeatable" ELSE ""
        f5b == IF Has(e, "same3") /\ ~e.same3 /\ ~MayVary(e.ast) /\ ~ErrorsOnly(e, "out3") THEN ";history-dependent" ELSE ""
        \* the same case evaluated by one process after all the other cases of the run, and by another before them
        f5c == IF Has(e, "rev_same") /\ ~e.rev_same /\ ~MayVary(e.ast) /\ ~(HasCtor(e.ast) /\ e.ord_fwd.o = "err" /\ e.ord_rev.o = "err") THEN ";order-dependent" ELSE ""
        f6 == IF Has(e, "mar") /\ e.mar # "ok" THEN ";not-json" ELSE ""
        f7 == IF Has(e, "eb") /\ e.eb \notin {"ok", "skip"} /\ ~(MayVary(e.ast) /\ e.eb \in {"different-value", "different-error"}) THEN ";evalbytes-differs" ELSE ""
        f8 == IF v = "no" /\ UndefDiffers(e.out, IF Has(e, "want_ast") THEN e.want_ast ELSE e.ast, e.inp, e.binds, eng) THEN ";undefined-mismatch" ELSE ""
    IN  v \o f1 \o f2 \o f3 \o f4 \o f5 \o f5b \o f5c \o f6 \o f7 \o f8

Check == /\ verdict = "pending"
         /\ verdict' = LineVerdict(TraceLines[l])
         /\ UNCHANGED l

Next == Check
Spec == Init /\ [][Next]_vars

\* always true; reports every line that is not accepted
Report == verdict \in {"pending", "ok"} \/ PrintT("VERDICT " \o ToString(TraceLines[l].id) \o " " \o verdict)
=============================================================================
