------------------------------ MODULE JNumFmt ------------------------------
(***************************************************************************)
(* Numbers as exact decimals (C18): a double is presented by the harness   *)
(* as its shortest decimal form  sg * (d1 d2 ... dn) * 10^e  (strconv,     *)
(* trusted), and everything else is arithmetic on digit sequences, so it   *)
(* is exact whatever the magnitude.                                        *)
(*                                                                         *)
(*   RoundDec(x, p)          half-to-even at the p-th fraction digit       *)
(*   DecText(x)              the text $string prints for x                 *)
(*   PictureValid(pic)       the XPath decimal-format picture grammar      *)
(*   ReadsBack(out, x, pic)  the relational statement of $formatNumber:    *)
(*       out = prefix numeral suffix, the numeral has at least the         *)
(*       mandatory digits, grouping separators at the picture's positions, *)
(*       and its value is x (scaled for % and per-mille, or mantissa times *)
(*       power of ten) rounded to the picture's fraction digits            *)
(***************************************************************************)
EXTENDS Integers, Sequences, FiniteSets, TLC

\* ---- natural numbers as digit sequences, most significant digit first ----
RECURSIVE StripLZ(_)
StripLZ(a) == IF Len(a) > 1 /\ a[1] = 0 THEN StripLZ(Tail(a)) ELSE IF a = <<>> THEN <<0>> ELSE a
Zeros(k) == [i \in 1..k |-> 0]
Shl(a, k) == IF k <= 0 THEN a ELSE a \o Zeros(k)
RECURSIVE LexLt(_, _)
LexLt(a, b) == IF a = <<>> THEN FALSE ELSE IF a[1] < b[1] THEN TRUE ELSE IF a[1] > b[1] THEN FALSE ELSE LexLt(Tail(a), Tail(b))
BigLt(a0, b0) == LET a == StripLZ(a0)  b == StripLZ(b0) IN IF Len(a) # Len(b) THEN Len(a) < Len(b) ELSE LexLt(a, b)
BigEq(a, b) == StripLZ(a) = StripLZ(b)
BigLe(a, b) == BigLt(a, b) \/ BigEq(a, b)
PadL(a, n) == Zeros(n - Len(a)) \o a
\* a - b for a >= b
BigSub(a0, b0) ==
    LET n == IF Len(a0) > Len(b0) THEN Len(a0) ELSE Len(b0)
        a == PadL(a0, n)  b == PadL(b0, n)
        \* borrow into position i (from the right): computed from the least significant digit
        Bor[i \in 0..n] == IF i = 0 THEN 0 ELSE IF a[n + 1 - i] - Bor[i - 1] < b[n + 1 - i] THEN 1 ELSE 0
    IN  StripLZ([j \in 1..n |-> LET i == n + 1 - j IN (a[j] - Bor[i - 1] - b[j] + 10) % 10])
BigAdd(a0, b0) ==
    LET n == (IF Len(a0) > Len(b0) THEN Len(a0) ELSE Len(b0)) + 1
        a == PadL(a0, n)  b == PadL(b0, n)
        Car[i \in 0..n] == IF i = 0 THEN 0 ELSE IF a[n + 1 - i] + b[n + 1 - i] + Car[i - 1] >= 10 THEN 1 ELSE 0
    IN  StripLZ([j \in 1..n |-> LET i == n + 1 - j IN (a[j] + b[j] + Car[i - 1]) % 10])
BigAbsDiff(a, b) == IF BigLt(a, b) THEN BigSub(b, a) ELSE BigSub(a, b)
IsZeroBig(a) == \A i \in 1..Len(a) : a[i] = 0

\* a * d for one digit d
BigMulDigit(a, d) ==
    LET n == Len(a) + 1
        x == PadL(a, n)
        Car[i \in 0..n] == IF i = 0 THEN 0 ELSE (x[n + 1 - i] * d + Car[i - 1]) \div 10
    IN  StripLZ([j \in 1..n |-> LET i == n + 1 - j IN (x[j] * d + Car[i - 1]) % 10])
\* schoolbook product
RECURSIVE BigMul(_, _)
BigMul(a, b) == IF b = <<>> THEN <<0>>
                ELSE BigAdd(Shl(BigMulDigit(a, b[1]), Len(b) - 1), BigMul(a, Tail(b)))
\* long division: [q, r] with a = q * b + r, 0 <= r < b   (b # 0)
RECURSIVE DivDigit(_, _, _)
DivDigit(r, b, k) == IF BigLt(r, b) THEN [k |-> k, r |-> r] ELSE DivDigit(BigSub(r, b), b, k + 1)
RECURSIVE BigDivModAcc(_, _, _, _)
BigDivModAcc(a, b, q, r) ==
    IF a = <<>> THEN [q |-> StripLZ(q), r |-> StripLZ(r)]
    ELSE LET r1 == StripLZ(r \o <<a[1]>>)
             d == DivDigit(r1, b, 0)
         IN  BigDivModAcc(Tail(a), b, q \o <<d.k>>, d.r)
BigDivMod(a, b) == BigDivModAcc(a, b, <<>>, <<0>>)

\* ---- decimals [sg, ds, e]: sg * ds * 10^e ----
Dec(sg, ds, e) == [sg |-> sg, ds |-> ds, e |-> e]
RECURSIVE StripTZ(_, _)
StripTZ(ds, e) == IF Len(ds) > 1 /\ ds[Len(ds)] = 0 THEN StripTZ(SubSeq(ds, 1, Len(ds) - 1), e + 1) ELSE [ds |-> ds, e |-> e]
DecNorm(x) == LET d == StripLZ(x.ds) IN
              IF IsZeroBig(d) THEN Dec(0, <<0>>, 0)
              ELSE LET t == StripTZ(d, x.e) IN Dec(x.sg, t.ds, t.e)
DecEq(x, y) == DecNorm(x) = DecNorm(y)
\* |x| and |y| brought to a common exponent
AlignedAbs(x, y) == LET e0 == IF x.e < y.e THEN x.e ELSE y.e IN [a |-> Shl(x.ds, x.e - e0), b |-> Shl(y.ds, y.e - e0), e |-> e0]
\* | |x| - |y| | <= h   (h a decimal, h >= 0)
AbsWithin(x, y, h) ==
    LET e0 == IF x.e < y.e THEN (IF x.e < h.e THEN x.e ELSE h.e) ELSE (IF y.e < h.e THEN y.e ELSE h.e)
    IN  BigLe(BigAbsDiff(Shl(x.ds, x.e - e0), Shl(y.ds, y.e - e0)), Shl(h.ds, h.e - e0))
Scale10(x, k) == Dec(x.sg, x.ds, x.e + k)

\* ---- exact arithmetic on decimals (used on the exact decimal expansions of doubles) ----
DecIsZero(x) == IsZeroBig(x.ds)
DecSign(x) == IF DecIsZero(x) THEN 0 ELSE x.sg
DecNeg(x) == Dec(0 - x.sg, x.ds, x.e)
\* order of magnitude first: digit sequences are aligned only when it is the same
DMag(x) == LET d == StripLZ(x.ds) IN Len(d) + x.e
DecAbsLt(x, y) == IF DecIsZero(x) THEN ~DecIsZero(y) ELSE IF DecIsZero(y) THEN FALSE
                  ELSE IF DMag(x) # DMag(y) THEN DMag(x) < DMag(y)
                  ELSE LET A == AlignedAbs(x, y) IN BigLt(A.a, A.b)
DecAbsEq(x, y) == IF DecIsZero(x) \/ DecIsZero(y) THEN DecIsZero(x) /\ DecIsZero(y)
                  ELSE DMag(x) = DMag(y) /\ LET A == AlignedAbs(x, y) IN BigEq(A.a, A.b)
DecLt(x, y) == LET sx == DecSign(x)  sy == DecSign(y) IN
               IF sx # sy THEN sx < sy
               ELSE IF sx = 0 THEN FALSE
               ELSE IF sx > 0 THEN DecAbsLt(x, y) ELSE DecAbsLt(y, x)
DecSame(x, y) == DecSign(x) = DecSign(y) /\ (DecSign(x) = 0 \/ DecAbsEq(x, y))
DecAdd(x, y) ==
    LET A == AlignedAbs(x, y)  sx == DecSign(x)  sy == DecSign(y) IN
    IF sx = 0 THEN y ELSE IF sy = 0 THEN x
    ELSE IF sx = sy THEN Dec(sx, BigAdd(A.a, A.b), A.e)
    ELSE IF BigLt(A.a, A.b) THEN Dec(sy, BigSub(A.b, A.a), A.e)
    ELSE IF BigEq(A.a, A.b) THEN Dec(0, <<0>>, 0)
    ELSE Dec(sx, BigSub(A.a, A.b), A.e)
DecSub(x, y) == DecAdd(x, DecNeg(y))
DecMul(x, y) == IF DecSign(x) = 0 \/ DecSign(y) = 0 THEN Dec(0, <<0>>, 0) ELSE Dec(x.sg * y.sg, BigMul(x.ds, y.ds), x.e + y.e)
\* the truncated remainder with the dividend's sign: x - y * trunc(x / y)    (y # 0)
DecRem(x, y) == LET A == AlignedAbs(x, y)
                    r == BigDivMod(A.a, A.b).r
                IN  IF IsZeroBig(r) THEN Dec(0, <<0>>, 0) ELSE Dec(x.sg, r, A.e)

\* N2: half-to-even at the p-th fraction digit (p may be negative)
RoundDec(x0, p) ==
    LET x == DecNorm(x0) IN
    IF x.sg = 0 \/ x.e >= 0 - p THEN x                      \* no digits beyond position p
    ELSE LET cut == (0 - p) - x.e                           \* number of digits to drop (>= 1)
             n == Len(x.ds)
         IN  IF cut > n THEN Dec(0, <<0>>, 0)               \* |x| < 0.5 * 10^-p  (cut > n means at least one leading zero before the dropped part)
             ELSE LET keep == IF cut = n THEN <<0>> ELSE SubSeq(x.ds, 1, n - cut)
                      drop == SubSeq(x.ds, n - cut + 1, n)
                      half == <<5>> \o Zeros(cut - 1)
                      up == BigLt(half, drop) \/ (BigEq(half, drop) /\ (keep[Len(keep)] % 2) = 1)
                      kept == IF up THEN BigAdd(keep, <<1>>) ELSE keep
                  IN  DecNorm(Dec(x.sg, kept, 0 - p))

\* ---- text forms ----
DigCps(ds) == [i \in 1..Len(ds) |-> 48 + ds[i]]
RECURSIVE NatDigits(_)
NatDigits(n) == IF n < 10 THEN <<n>> ELSE NatDigits(n \div 10) \o <<n % 10>>
\* the text $string prints: plain decimal for 1e-6 <= |x| < 1e21, exponent form d.ddde+N / d.ddde-N otherwise (the ES6 number-to-string layout)
DecText(x0) ==
    LET x == DecNorm(x0)
        n == Len(x.ds)
        mag == n + x.e                                   \* x = 0.d1d2.. * 10^mag
        sign == IF x.sg < 0 THEN <<45>> ELSE <<>>
    IN  IF x.sg = 0 THEN <<48>>
        ELSE IF mag > 21 \/ mag < 0 - 5 THEN
             \* d.ddde[+-]xx
             sign \o <<48 + x.ds[1]>> \o (IF n > 1 THEN <<46>> \o DigCps(Tail(x.ds)) ELSE <<>>) \o <<101>> \o (IF mag - 1 < 0 THEN <<45>> ELSE <<43>>)
                  \o DigCps(NatDigits(IF mag - 1 < 0 THEN 1 - mag ELSE mag - 1))
        ELSE IF x.e >= 0 THEN sign \o DigCps(Shl(x.ds, x.e))
        ELSE IF mag > 0 THEN sign \o DigCps(SubSeq(x.ds, 1, mag)) \o <<46>> \o DigCps(SubSeq(x.ds, mag + 1, n))
        ELSE sign \o <<48, 46>> \o DigCps(Zeros(0 - mag)) \o DigCps(x.ds)

\* ---- pictures (XPath 3.1 decimal-format picture grammar) under a decimal format F ----
\* F = [dec, grp, exp, minus, zero, digit, psep : code points;  pct, pml : code-point sequences]
DefaultFormat == [dec |-> 46, grp |-> 44, exp |-> 101, minus |-> 45, zero |-> 48, digit |-> 35, psep |-> 59, pct |-> <<37>>, pml |-> <<8240>>]
FormatKeys == {"dec", "grp", "exp", "minus", "zero", "digit", "psep", "pct", "pml"}
\* a format is usable when its characters are pairwise distinct and its digits do not collide with them
FormatSane(F) == LET singles == <<F.dec, F.grp, F.exp, F.minus, F.digit, F.psep>> IN
                 /\ \A i, j \in 1..6 : i < j => singles[i] # singles[j]
                 /\ \A i \in 1..6 : singles[i] < F.zero \/ singles[i] > F.zero + 9
                 /\ F.pct # <<>> /\ F.pml # <<>> /\ F.pct # F.pml
                 /\ \A s \in {F.pct, F.pml} : \A k \in 1..Len(s) : (s[k] < F.zero \/ s[k] > F.zero + 9) /\ \A i \in 1..6 : singles[i] # s[k]

MinS(S) == CHOOSE x \in S : \A y \in S : x <= y
MaxS(S) == CHOOSE x \in S : \A y \in S : y <= x
Count(s, P(_)) == Cardinality({i \in 1..Len(s) : P(s[i])})
IndexSet(s, P(_)) == {i \in 1..Len(s) : P(s[i])}
Occurrences(s, w) == {i \in 1..(Len(s) - Len(w) + 1) : SubSeq(s, i, i + Len(w) - 1) = w}

\* split at the pattern separator
SubPictures(pic, F) == LET semis == IndexSet(pic, LAMBDA c : c = F.psep) IN
                       IF semis = {} THEN <<pic>>
                       ELSE IF Cardinality(semis) = 1 THEN LET i == MinS(semis) IN <<SubSeq(pic, 1, i - 1), SubSeq(pic, i + 1, Len(pic))>>
                       ELSE <<>>

\* analysis of one sub-picture.  ok = "yes" | "no" | "unsure" (the grammar's corner the model leaves alone:
\* an exponent separator outside the digits, where XPath makes it a passive character)
Analyse(sp, F) ==
    LET IsDigC(c) == c >= F.zero /\ c <= F.zero + 9
        IsPicDigit(c) == IsDigC(c) \/ c = F.digit
        IsActive(c) == IsPicDigit(c) \/ c = F.dec \/ c = F.grp
        act == IndexSet(sp, IsActive)
        pct == Cardinality(Occurrences(sp, F.pct))   pml == Cardinality(Occurrences(sp, F.pml))
    IN  IF sp = <<>> \/ act = {} THEN [ok |-> "no"]                                  \* a sub-picture needs a digit sign
        ELSE LET first == MinS(act)
                 lastAct == MaxS(act)
                 eIdx == {i \in first..lastAct : sp[i] = F.exp}
                 eAny == IndexSet(sp, LAMBDA c : c = F.exp)
                 hasE == eIdx # {}
                 mantEnd == IF hasE THEN MinS(eIdx) - 1 ELSE lastAct
                 expPart == IF hasE THEN SubSeq(sp, MinS(eIdx) + 1, lastAct) ELSE <<>>
                 mant == SubSeq(sp, first, mantEnd)
                 prefix == SubSeq(sp, 1, first - 1)
                 suffix == SubSeq(sp, lastAct + 1, Len(sp))
                 dots == IndexSet(mant, LAMBDA c : c = F.dec)
                 ip == IF dots = {} THEN mant ELSE SubSeq(mant, 1, MinS(dots) - 1)
                 fp == IF dots = {} THEN <<>> ELSE SubSeq(mant, MinS(dots) + 1, Len(mant))
                 minInt0 == Count(ip, IsDigC)
                 minFrac0 == Count(fp, IsDigC)
                 maxFrac0 == Count(fp, IsPicDigit)
                 \* XPath 4.7.4: adjustments when no digit is mandatory
                 noneGiven == minInt0 = 0 /\ maxFrac0 = 0
                 minInt1 == IF noneGiven /\ ~hasE THEN 1 ELSE IF hasE /\ minInt0 = 0 /\ Count(ip, LAMBDA c : c = F.digit) > 0 THEN 1 ELSE minInt0
                 minFrac1 == IF noneGiven /\ hasE THEN 1 ELSE minFrac0
                 maxFrac1 == IF noneGiven /\ hasE THEN 1 ELSE maxFrac0
                 minFrac2 == IF minInt1 = 0 /\ minFrac1 = 0 THEN 1 ELSE minFrac1
                 maxFrac2 == IF maxFrac1 < minFrac2 THEN minFrac2 ELSE maxFrac1
                 \* integer grouping positions: digit places to the right of each separator
                 commas == IndexSet(ip, LAMBDA c : c = F.grp)
                 groups == {Count(SubSeq(ip, i + 1, Len(ip)), IsPicDigit) : i \in commas}
                 g == IF groups = {} THEN 0 ELSE MinS(groups)
                 regular == groups # {} /\ groups = {g * k : k \in 1..Cardinality(groups)}
                 \* XPath 3.1 adds: the digits left of the leftmost separator are at most one group; 3.0 does not - both readings are allowed
                 leftDigits == IF commas = {} THEN 0 ELSE Count(SubSeq(ip, 1, MinS(commas) - 1), IsPicDigit)
                 \* fraction grouping positions: digit places to the left of each separator
                 fcommas == IndexSet(fp, LAMBDA c : c = F.grp)
                 fgroups == {Count(SubSeq(fp, 1, i - 1), IsPicDigit) : i \in fcommas}
                 \* validity
                 passiveInside == \E i \in first..lastAct : ~IsActive(sp[i]) /\ ~(hasE /\ i = MinS(eIdx))
                 badComma == (ip # <<>> /\ ip[Len(ip)] = F.grp) \/ (fp # <<>> /\ fp[1] = F.grp) \/ (\E i \in 1..Len(mant) - 1 : mant[i] = F.grp /\ mant[i + 1] = F.grp)
                 intOrder == \E i, j \in 1..Len(ip) : i < j /\ IsDigC(ip[i]) /\ ip[j] = F.digit
                 fracOrder == \E i, j \in 1..Len(fp) : i < j /\ fp[i] = F.digit /\ IsDigC(fp[j])
             IN  IF Cardinality(dots) > 1 \/ pct > 1 \/ pml > 1 \/ (pct > 0 /\ pml > 0) \/ Count(mant, IsPicDigit) = 0 \/ badComma \/ intOrder \/ fracOrder
                    \/ (~hasE /\ passiveInside)
                 THEN [ok |-> "no"]
                 \* exponent separators: one before the first or after the last digit sign is a passive character (part of the prefix
                 \* or suffix); among the digit signs, decided only when there is a single one and it sits between digit signs
                 ELSE IF eIdx # {} /\ ~(Cardinality(eIdx) = 1 /\ hasE /\ expPart # <<>> /\ IsPicDigit(sp[MinS(eIdx) - 1]) /\ \A i \in 1..Len(expPart) : IsDigC(expPart[i]))
                 THEN [ok |-> "unsure"]
                 ELSE IF hasE /\ (pct + pml > 0 \/ passiveInside) THEN [ok |-> "no"]
                 ELSE [ok |-> "yes", prefix |-> prefix, suffix |-> suffix, minInt |-> minInt1, minFrac |-> minFrac2, maxFrac |-> maxFrac2,
                       groups |-> groups, gsize |-> IF regular THEN g ELSE 0, leftDigits |-> leftDigits, fgroups |-> fgroups,
                       scale |-> IF pct > 0 THEN 2 ELSE IF pml > 0 THEN 3 ELSE 0,
                       expDigits |-> Len(expPart), sf |-> minInt0]

PictureValid(pic, F) ==
    LET sps == SubPictures(pic, F) IN
    IF ~FormatSane(F) THEN "unsure"
    ELSE IF pic = <<>> \/ sps = <<>> THEN "no"
    ELSE LET as == [i \in 1..Len(sps) |-> Analyse(sps[i], F).ok] IN
         IF \E i \in 1..Len(as) : as[i] = "no" THEN "no" ELSE IF \E i \in 1..Len(as) : as[i] = "unsure" THEN "unsure" ELSE "yes"

\* the numeral in the middle of the output: digits with grouping separators, optional decimal separator, optional exponent
ParseNumeralOut(s, F) ==
    LET IsDigC(c) == c >= F.zero /\ c <= F.zero + 9
        eIdx == IndexSet(s, LAMBDA c : c = F.exp)
        mant == IF eIdx = {} THEN s ELSE SubSeq(s, 1, MinS(eIdx) - 1)
        ex == IF eIdx = {} THEN <<>> ELSE SubSeq(s, MinS(eIdx) + 1, Len(s))
        exNeg == ex # <<>> /\ ex[1] = F.minus
        exDs == IF exNeg THEN Tail(ex) ELSE ex
        dots == IndexSet(mant, LAMBDA c : c = F.dec)
        ip == IF dots = {} THEN mant ELSE SubSeq(mant, 1, MinS(dots) - 1)
        fp == IF dots = {} THEN <<>> ELSE SubSeq(mant, MinS(dots) + 1, Len(mant))
        idig == SelectSeq(ip, IsDigC)
        fdig == SelectSeq(fp, IsDigC)
        seps == {Count(SubSeq(ip, i + 1, Len(ip)), IsDigC) : i \in IndexSet(ip, LAMBDA c : c = F.grp)}
        fseps == {Count(SubSeq(fp, 1, i - 1), IsDigC) : i \in IndexSet(fp, LAMBDA c : c = F.grp)}
        okc == /\ \A i \in 1..Len(ip) : IsDigC(ip[i]) \/ ip[i] = F.grp
               /\ \A i \in 1..Len(fp) : IsDigC(fp[i]) \/ fp[i] = F.grp
               /\ Cardinality(dots) <= 1 /\ Cardinality(eIdx) <= 1
               /\ (eIdx = {} \/ (exDs # <<>> /\ Len(exDs) <= 4 /\ \A i \in 1..Len(exDs) : IsDigC(exDs[i])))
               /\ Cardinality(seps) = Count(ip, LAMBDA c : c = F.grp) /\ 0 \notin seps /\ Len(idig) \notin seps
               /\ Cardinality(fseps) = Count(fp, LAMBDA c : c = F.grp) /\ 0 \notin fseps
        exVal == LET G[i \in 0..Len(exDs)] == IF i = 0 THEN 0 ELSE G[i - 1] * 10 + (exDs[i] - F.zero) IN G[Len(exDs)]
    IN  [ok |-> okc, idigits |-> [i \in 1..Len(idig) |-> idig[i] - F.zero], seps |-> seps, fseps |-> fseps, fdigits |-> [i \in 1..Len(fdig) |-> fdig[i] - F.zero],
         hasDot |-> dots # {}, ex |-> IF exNeg THEN 0 - exVal ELSE exVal, exDigits |-> Len(exDs), hasE |-> eIdx # {}]

\* numbers are doubles: two decimals closer than this relative distance are the same number to the model
\* (x times 10^-15, about nine units in the last place; scaling by 100, 1000 or powers of ten in binary arithmetic stays inside it)
Slack(v) == Dec(1, v.ds, v.e - 15)
DecAbsAdd(a, b) == LET e0 == IF a.e < b.e THEN a.e ELSE b.e IN Dec(1, BigAdd(Shl(a.ds, a.e - e0), Shl(b.ds, b.e - e0)), e0)

\* N4: "yes" | "no:<which clause>" | "unsure"
ReadsBack1(out, x0, neg, pic, F) ==
    LET x == DecNorm(x0)
        sps == SubPictures(pic, F)
        useSecond == neg /\ Len(sps) = 2
        A == Analyse(IF useSecond THEN sps[2] ELSE sps[1], F)
    IN  IF PictureValid(pic, F) # "yes" THEN "unsure"
        ELSE LET prefix == (IF neg /\ ~useSecond THEN <<F.minus>> ELSE <<>>) \o A.prefix
                 n == Len(out)
             IN  IF n < Len(prefix) + Len(A.suffix) \/ SubSeq(out, 1, Len(prefix)) # prefix \/ SubSeq(out, n - Len(A.suffix) + 1, n) # A.suffix THEN "no:prefix-suffix-or-sign"
                 ELSE LET P == ParseNumeralOut(SubSeq(out, Len(prefix) + 1, n - Len(A.suffix)), F)
                      IN  IF ~P.ok THEN "no:not-a-numeral"
                          ELSE LET ni == Len(P.idigits)   nf == Len(P.fdigits)
                                   numDigits == IF P.idigits \o P.fdigits = <<>> THEN <<0>> ELSE P.idigits \o P.fdigits
                                   pw == IF A.expDigits > 0 THEN P.ex ELSE 0
                                   N == Dec(1, numDigits, pw - nf)
                                   v == Scale10(Dec(1, x.ds, x.e), A.scale)
                                   half == Dec(1, <<5>>, pw - A.maxFrac - 1)
                                   digitsOk == ni >= A.minInt /\ nf >= A.minFrac /\ nf <= A.maxFrac /\ (ni <= A.minInt \/ P.idigits[1] # 0)
                                   dotOk == P.hasDot = (nf > 0)
                                   regularSeps == {A.gsize * k : k \in 1..((IF ni = 0 THEN 0 ELSE ni - 1) \div (IF A.gsize = 0 THEN 1 ELSE A.gsize))}
                                   literalSeps == {p \in A.groups : p < ni}
                                   groupOk == IF A.gsize > 0 THEN (P.seps = regularSeps \/ (A.leftDigits > A.gsize /\ P.seps = literalSeps)) ELSE P.seps = literalSeps
                                   fgroupOk == {p \in A.fgroups : p < nf} \subseteq P.fseps /\ P.fseps \subseteq {p \in A.fgroups : p <= nf}
                                   expOk == IF A.expDigits = 0 THEN ~P.hasE ELSE P.hasE /\ P.exDigits >= A.expDigits /\ (x.sg # 0 \/ P.ex = 0 \/ IsZeroBig(numDigits))
                                   valueOk == AbsWithin(N, v, DecAbsAdd(half, Slack(v)))
                               IN  IF ~digitsOk THEN "no:digit-counts" ELSE IF ~dotOk THEN "no:decimal-separator"
                                   ELSE IF ~groupOk \/ ~fgroupOk THEN "no:grouping" ELSE IF ~expOk THEN "no:exponent" ELSE IF ~valueOk THEN "no:value" ELSE "yes"
\* the sign of a negative zero is left open
ReadsBack(out, x0, pic, F) ==
    IF DecNorm(x0).sg = 0 /\ x0.sg < 0
    THEN LET a == ReadsBack1(out, x0, TRUE, pic, F)  b == ReadsBack1(out, x0, FALSE, pic, F) IN IF a = "yes" \/ b = "yes" THEN "yes" ELSE b
    ELSE ReadsBack1(out, x0, x0.sg < 0, pic, F)

\* ---- $number on decimals: the value of an accepted numeral [neg, ip, fp, eneg, ex] (code points) ----
NumeralDec(neg, ip, fp, ex) == Dec(IF neg THEN 0 - 1 ELSE 1, [i \in 1..Len(ip \o fp) |-> (ip \o fp)[i] - 48], ex - Len(fp))
SigDigits(x) == Len(DecNorm(x).ds)
=============================================================================
