------------------------------ MODULE JNumFmt ------------------------------
(***************************************************************************)
(* Numbers as exact decimals (C18): a double is presented by the harness   *)
(* as its shortest decimal form  sg * (d1 d2 ... dn) * 10^e  (strconv,     *)
(* trusted), and everything else is arithmetic on digit sequences, so it   *)
(* is exact whatever the magnitude.                                        *)
(*                                                                         *)
(*   RoundDec(x, p)          half-to-even at the p-th fraction digit       *)
(*   DecText(x)              the text $string prints for x                 *)
(*   PictureValid(pic)       the XPath decimal-format picture grammar      *)
(*   ReadsBack(out, x, pic)  the relational statement of $formatNumber:    *)
(*       out = prefix numeral suffix, the numeral has at least the         *)
(*       mandatory digits, grouping separators at the picture's positions, *)
(*       and its value is x (scaled for % and per-mille, or mantissa times *)
(*       power of ten) rounded to the picture's fraction digits            *)
(***************************************************************************)
EXTENDS Integers, Sequences, FiniteSets, TLC

\* ---- natural numbers as digit sequences, most significant digit first ----
RECURSIVE StripLZ(_)
StripLZ(a) == IF Len(a) > 1 /\ a[1] = 0 THEN StripLZ(Tail(a)) ELSE IF a = <<>> THEN <<0>> ELSE a
Zeros(k) == [i \in 1..k |-> 0]
Shl(a, k) == IF k <= 0 THEN a ELSE a \o Zeros(k)
RECURSIVE LexLt(_, _)
LexLt(a, b) == IF a = <<>> THEN FALSE ELSE IF a[1] < b[1] THEN TRUE ELSE IF a[1] > b[1] THEN FALSE ELSE LexLt(Tail(a), Tail(b))
BigLt(a0, b0) == LET a == StripLZ(a0)  b == StripLZ(b0) IN IF Len(a) # Len(b) THEN Len(a) < Len(b) ELSE LexLt(a, b)
BigEq(a, b) == StripLZ(a) = StripLZ(b)
BigLe(a, b) == BigLt(a, b) \/ BigEq(a, b)
PadL(a, n) == Zeros(n - Len(a)) \o a
\* a - b for a >= b
BigSub(a0, b0) ==
    LET n == IF Len(a0) > Len(b0) THEN Len(a0) ELSE Len(b0)
        a == PadL(a0, n)  b == PadL(b0, n)
        \* borrow into position i (from the right): computed from the least significant digit
        Bor[i \in 0..n] == IF i = 0 THEN 0 ELSE IF a[n + 1 - i] - Bor[i - 1] < b[n + 1 - i] THEN 1 ELSE 0
    IN  StripLZ([j \in 1..n |-> LET i == n + 1 - j IN (a[j] - Bor[i - 1] - b[j] + 10) % 10])
BigAdd(a0, b0) ==
    LET n == (IF Len(a0) > Len(b0) THEN Len(a0) ELSE Len(b0)) + 1
        a == PadL(a0, n)  b == PadL(b0, n)
        Car[i \in 0..n] == IF i = 0 THEN 0 ELSE IF a[n + 1 - i] + b[n + 1 - i] + Car[i - 1] >= 10 THEN 1 ELSE 0
    IN  StripLZ([j \in 1..n |-> LET i == n + 1 - j IN (a[j] + b[j] + Car[i - 1]) % 10])
BigAbsDiff(a, b) == IF BigLt(a, b) THEN BigSub(b, a) ELSE BigSub(a, b)
IsZeroBig(a) == \A i \in 1..Len(a) : a[i] = 0

\* ---- decimals [sg, ds, e]: sg * ds * 10^e ----
Dec(sg, ds, e) == [sg |-> sg, ds |-> ds, e |-> e]
RECURSIVE StripTZ(_, _)
StripTZ(ds, e) == IF Len(ds) > 1 /\ ds[Len(ds)] = 0 THEN StripTZ(SubSeq(ds, 1, Len(ds) - 1), e + 1) ELSE [ds |-> ds, e |-> e]
DecNorm(x) == LET d == StripLZ(x.ds) IN
              IF IsZeroBig(d) THEN Dec(0, <<0>>, 0)
              ELSE LET t == StripTZ(d, x.e) IN Dec(x.sg, t.ds, t.e)
DecEq(x, y) == DecNorm(x) = DecNorm(y)
\* |x| and |y| brought to a common exponent
AlignedAbs(x, y) == LET e0 == IF x.e < y.e THEN x.e ELSE y.e IN [a |-> Shl(x.ds, x.e - e0), b |-> Shl(y.ds, y.e - e0), e |-> e0]
\* | |x| - |y| | <= h   (h a decimal, h >= 0)
AbsWithin(x, y, h) ==
    LET e0 == IF x.e < y.e THEN (IF x.e < h.e THEN x.e ELSE h.e) ELSE (IF y.e < h.e THEN y.e ELSE h.e)
    IN  BigLe(BigAbsDiff(Shl(x.ds, x.e - e0), Shl(y.ds, y.e - e0)), Shl(h.ds, h.e - e0))
Scale10(x, k) == Dec(x.sg, x.ds, x.e + k)

\* N2: half-to-even at the p-th fraction digit (p may be negative)
RoundDec(x0, p) ==
    LET x == DecNorm(x0) IN
    IF x.sg = 0 \/ x.e >= 0 - p THEN x                      \* no digits beyond position p
    ELSE LET cut == (0 - p) - x.e                           \* number of digits to drop (>= 1)
             n == Len(x.ds)
         IN  IF cut > n THEN Dec(0, <<0>>, 0)               \* |x| < 0.5 * 10^-p  (cut > n means at least one leading zero before the dropped part)
             ELSE LET keep == IF cut = n THEN <<0>> ELSE SubSeq(x.ds, 1, n - cut)
                      drop == SubSeq(x.ds, n - cut + 1, n)
                      half == <<5>> \o Zeros(cut - 1)
                      up == BigLt(half, drop) \/ (BigEq(half, drop) /\ (keep[Len(keep)] % 2) = 1)
                      kept == IF up THEN BigAdd(keep, <<1>>) ELSE keep
                  IN  DecNorm(Dec(x.sg, kept, 0 - p))

\* ---- text forms ----
DigCps(ds) == [i \in 1..Len(ds) |-> 48 + ds[i]]
RECURSIVE NatDigits(_)
NatDigits(n) == IF n < 10 THEN <<n>> ELSE NatDigits(n \div 10) \o <<n % 10>>
\* the text $string prints: plain decimal for 1e-6 <= |x| < 1e21, exponent form otherwise (as encoding/json)
DecText(x0) ==
    LET x == DecNorm(x0)
        n == Len(x.ds)
        mag == n + x.e                                   \* x = 0.d1d2.. * 10^mag
        sign == IF x.sg < 0 THEN <<45>> ELSE <<>>
    IN  IF x.sg = 0 THEN <<48>>
        ELSE IF mag > 21 \/ mag < 0 - 5 THEN
             \* d.ddde[+-]xx
             sign \o <<48 + x.ds[1]>> \o (IF n > 1 THEN <<46>> \o DigCps(Tail(x.ds)) ELSE <<>>) \o <<101>> \o (IF mag - 1 < 0 THEN <<45>> ELSE <<43>>)
                  \o (LET ex == NatDigits(IF mag - 1 < 0 THEN 1 - mag ELSE mag - 1) IN DigCps(IF Len(ex) = 1 THEN <<0>> \o ex ELSE ex))
        ELSE IF x.e >= 0 THEN sign \o DigCps(Shl(x.ds, x.e))
        ELSE IF mag > 0 THEN sign \o DigCps(SubSeq(x.ds, 1, mag)) \o <<46>> \o DigCps(SubSeq(x.ds, mag + 1, n))
        ELSE sign \o <<48, 46>> \o DigCps(Zeros(0 - mag)) \o DigCps(x.ds)

\* ---- pictures (XPath decimal-format picture grammar, default decimal format) ----
IsDigC(c) == c >= 48 /\ c <= 57
IsPicDigit(c) == IsDigC(c) \/ c = 35                      \* 0-9 and #
IsActive(c) == IsPicDigit(c) \/ c \in {46, 44}            \* digits, decimal separator, grouping separator
Count(s, P(_)) == Cardinality({i \in 1..Len(s) : P(s[i])})
IndexSet(s, P(_)) == {i \in 1..Len(s) : P(s[i])}
MinS(S) == CHOOSE x \in S : \A y \in S : x <= y
MaxS(S) == CHOOSE x \in S : \A y \in S : y <= x

\* split at ';'
SubPictures(pic) == LET semis == IndexSet(pic, LAMBDA c : c = 59) IN
                    IF semis = {} THEN <<pic>>
                    ELSE IF Cardinality(semis) = 1 THEN LET i == MinS(semis) IN <<SubSeq(pic, 1, i - 1), SubSeq(pic, i + 1, Len(pic))>>
                    ELSE <<>>

\* analysis of one sub-picture: [ok ("yes" | "no" | "unsure"), prefix, suffix, minInt, minFrac, maxFrac, intGroups (positions from the
\* right), regular group size, scale (0, 2, 3 : power of ten for percent / per-mille), expDigits (0 = none), scalingFactor]
Analyse(sp) ==
    LET act == IndexSet(sp, IsActive)
        pct == Count(sp, LAMBDA c : c = 37)   pml == Count(sp, LAMBDA c : c = 8240)
    IN  IF sp = <<>> THEN [ok |-> "no"]
        ELSE IF act = {} THEN [ok |-> "no"]                                            \* the mantissa needs a digit
        ELSE LET first == MinS(act)
                 \* an exponent part: 'e' followed by digits, directly after the mantissa's active part
                 lastAct == MaxS(act)
                 eIdx == {i \in first..lastAct : sp[i] = 101}
                 hasE == eIdx # {}
                 mantEnd == IF hasE THEN MinS(eIdx) - 1 ELSE lastAct
                 expPart == IF hasE THEN SubSeq(sp, MinS(eIdx) + 1, lastAct) ELSE <<>>
                 mant == SubSeq(sp, first, mantEnd)
                 prefix == SubSeq(sp, 1, first - 1)
                 suffix == SubSeq(sp, lastAct + 1, Len(sp))
                 dots == IndexSet(mant, LAMBDA c : c = 46)
                 ip == IF dots = {} THEN mant ELSE SubSeq(mant, 1, MinS(dots) - 1)
                 fp == IF dots = {} THEN <<>> ELSE SubSeq(mant, MinS(dots) + 1, Len(mant))
                 minInt0 == Count(ip, IsDigC)
                 minFrac0 == Count(fp, IsDigC)
                 maxFrac0 == Count(fp, IsPicDigit)
                 \* XPath 4.7.4: defaults when no digit is mandatory
                 minInt1 == IF minInt0 = 0 /\ maxFrac0 = 0 /\ ~hasE THEN 1 ELSE IF hasE /\ minInt0 = 0 /\ Count(ip, LAMBDA c : c = 35) > 0 THEN 1 ELSE minInt0
                 minFrac1 == IF minInt0 = 0 /\ maxFrac0 = 0 /\ hasE THEN 1 ELSE minFrac0
                 maxFrac1 == IF minInt0 = 0 /\ maxFrac0 = 0 /\ hasE THEN 1 ELSE maxFrac0
                 minFrac2 == IF minInt1 = 0 /\ minFrac1 = 0 THEN 1 ELSE minFrac1
                 maxFrac2 == IF maxFrac1 < minFrac2 THEN minFrac2 ELSE maxFrac1
                 \* grouping positions in the integer part: number of digit places to the right of each separator
                 commas == IndexSet(ip, LAMBDA c : c = 44)
                 groups == {Count(SubSeq(ip, i + 1, Len(ip)), IsPicDigit) : i \in commas}
                 g == IF groups = {} THEN 0 ELSE MinS(groups)
                 regular == groups # {} /\ groups = {g * k : k \in 1..Cardinality(groups)}
                 \* validity
                 passiveInside == \E i \in first..lastAct : ~IsActive(sp[i]) /\ ~(hasE /\ i = MinS(eIdx))
                 badComma == (ip # <<>> /\ ip[Len(ip)] = 44) \/ (fp # <<>> /\ fp[1] = 44) \/ (\E i \in 1..Len(mant) - 1 : mant[i] = 44 /\ mant[i + 1] = 44) \/ (ip # <<>> /\ ip[1] = 44)
                 intOrder == \E i, j \in 1..Len(ip) : i < j /\ IsDigC(ip[i]) /\ ip[j] = 35
                 fracOrder == \E i, j \in 1..Len(fp) : i < j /\ fp[i] = 35 /\ IsDigC(fp[j])
                 fracComma == \E i \in 1..Len(fp) : fp[i] = 44
             IN  IF Cardinality(dots) > 1 \/ pct + pml > 1 \/ Count(mant, IsPicDigit) = 0 \/ passiveInside \/ badComma \/ intOrder \/ fracOrder
                    \/ Cardinality(eIdx) > 1 \/ (hasE /\ (pct + pml > 0 \/ expPart = <<>> \/ \E i \in 1..Len(expPart) : ~IsDigC(expPart[i])))
                 THEN [ok |-> "no"]
                 \* 'e' elsewhere in the sub-picture, digits other than 0 in the picture, grouping in the fraction: not modelled
                 ELSE IF (\E i \in 1..Len(prefix) : prefix[i] = 101) \/ (\E i \in 1..Len(suffix) : suffix[i] = 101) \/ fracComma
                         \/ (\E i \in 1..Len(sp) : IsDigC(sp[i]) /\ sp[i] # 48)
                 THEN [ok |-> "unsure"]
                 ELSE [ok |-> "yes", prefix |-> prefix, suffix |-> suffix, minInt |-> minInt1, minFrac |-> minFrac2, maxFrac |-> maxFrac2,
                       groups |-> groups, gsize |-> IF regular THEN g ELSE 0, scale |-> IF pct > 0 THEN 2 ELSE IF pml > 0 THEN 3 ELSE 0,
                       expDigits |-> Len(expPart), sf |-> minInt0]

PictureValid(pic) ==
    LET sps == SubPictures(pic) IN
    IF pic = <<>> \/ sps = <<>> THEN "no"
    ELSE LET as == [i \in 1..Len(sps) |-> Analyse(sps[i]).ok] IN
         IF \E i \in 1..Len(as) : as[i] = "no" THEN "no" ELSE IF \E i \in 1..Len(as) : as[i] = "unsure" THEN "unsure" ELSE "yes"

\* parse the numeral in the middle of the output: digits with ',' separators, optional '.', optional e[-]digits
\* returns [ok, idigits (with separators removed), seps (positions from the right), fdigits, hasDot, ex (integer exponent), exDigits]
ParseNumeralOut(s) ==
    LET eIdx == IndexSet(s, LAMBDA c : c = 101)
        mant == IF eIdx = {} THEN s ELSE SubSeq(s, 1, MinS(eIdx) - 1)
        ex == IF eIdx = {} THEN <<>> ELSE SubSeq(s, MinS(eIdx) + 1, Len(s))
        exNeg == ex # <<>> /\ ex[1] = 45
        exDs == IF exNeg THEN Tail(ex) ELSE ex
        dots == IndexSet(mant, LAMBDA c : c = 46)
        ip == IF dots = {} THEN mant ELSE SubSeq(mant, 1, MinS(dots) - 1)
        fp == IF dots = {} THEN <<>> ELSE SubSeq(mant, MinS(dots) + 1, Len(mant))
        idig == SelectSeq(ip, IsDigC)
        seps == {Count(SubSeq(ip, i + 1, Len(ip)), IsDigC) : i \in IndexSet(ip, LAMBDA c : c = 44)}
        okc == /\ \A i \in 1..Len(ip) : IsDigC(ip[i]) \/ ip[i] = 44
               /\ \A i \in 1..Len(fp) : IsDigC(fp[i])
               /\ Cardinality(dots) <= 1 /\ Cardinality(eIdx) <= 1
               /\ (eIdx = {} \/ (exDs # <<>> /\ Len(exDs) <= 4 /\ \A i \in 1..Len(exDs) : IsDigC(exDs[i])))
               /\ (ip = <<>> \/ (ip[1] # 44 /\ ip[Len(ip)] # 44))
        exVal == LET F[i \in 0..Len(exDs)] == IF i = 0 THEN 0 ELSE F[i - 1] * 10 + (exDs[i] - 48) IN F[Len(exDs)]
    IN  [ok |-> okc, idigits |-> [i \in 1..Len(idig) |-> idig[i] - 48], seps |-> seps, fdigits |-> [i \in 1..Len(fp) |-> fp[i] - 48],
         hasDot |-> dots # {}, ex |-> IF exNeg THEN 0 - exVal ELSE exVal, exDigits |-> Len(exDs), hasE |-> eIdx # {}]

\* N4: "yes" | "no" | "unsure"
ReadsBack(out, x0, pic) ==
    LET x == DecNorm(x0)
        sps == SubPictures(pic)
        useSecond == x.sg < 0 /\ Len(sps) = 2
        A == Analyse(IF useSecond THEN sps[2] ELSE sps[1])
    IN  IF A.ok # "yes" THEN "unsure"
        ELSE LET prefix == (IF x.sg < 0 /\ ~useSecond THEN <<45>> ELSE <<>>) \o A.prefix
                 n == Len(out)
             IN  IF n < Len(prefix) + Len(A.suffix) \/ SubSeq(out, 1, Len(prefix)) # prefix \/ SubSeq(out, n - Len(A.suffix) + 1, n) # A.suffix THEN "no"
                 ELSE LET P == ParseNumeralOut(SubSeq(out, Len(prefix) + 1, n - Len(A.suffix)))
                      IN  IF ~P.ok THEN "no"
                          ELSE LET ni == Len(P.idigits)   nf == Len(P.fdigits)
                                   \* the numeral's value and the value it must read back as
                                   numDigits == IF P.idigits \o P.fdigits = <<>> THEN <<0>> ELSE P.idigits \o P.fdigits
                                   N == Dec(1, numDigits, (0 - nf) + (IF A.expDigits > 0 THEN P.ex ELSE 0))
                                   v == Scale10(Dec(1, x.ds, x.e), A.scale)
                                   unitExp == (0 - A.maxFrac) + (IF A.expDigits > 0 THEN P.ex ELSE 0)
                                   half == Dec(1, <<5>>, unitExp - 1)
                                   \* structure
                                   digitsOk == ni >= A.minInt /\ nf >= A.minFrac /\ nf <= A.maxFrac /\ (ni = 0 \/ ni = A.minInt \/ P.idigits[1] # 0 \/ ni = 1)
                                   dotOk == P.hasDot = (nf > 0)
                                   groupOk == IF A.gsize > 0 THEN P.seps = {A.gsize * k : k \in 1..((IF ni = 0 THEN 0 ELSE (ni - 1)) \div A.gsize)}
                                              ELSE P.seps = {p \in A.groups : p < ni}
                                   expOk == IF A.expDigits = 0 THEN ~P.hasE
                                            ELSE P.hasE /\ P.exDigits >= A.expDigits
                                                 /\ (x.sg = 0 \/ ni = A.sf \/ (A.sf = 0 /\ ni <= 1))              \* the mantissa has the picture's integer digits
                                   valueOk == AbsWithin(N, v, half)
                               IN  IF digitsOk /\ dotOk /\ groupOk /\ expOk /\ valueOk THEN "yes" ELSE "no"
=============================================================================
