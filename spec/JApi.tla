------------------------------- MODULE JApi -------------------------------
(***************************************************************************)
(* THE system: the public API of jsonata-go as a state machine.            *)
(*                                                                         *)
(*   greg   package-level registry        (jsonata.go globalRegistry)      *)
(*   expr   compiled expressions: e -> None | [ast, reg]                   *)
(*                                        (Expr.node, Expr.registry)       *)
(*   heap   caller-owned documents: d -> value   (what is passed to Eval)  *)
(*   hist   observation only: completed Eval calls                         *)
(*   gsnap, locals   history variables for the registry-visibility rule    *)
(*                                                                         *)
(* Eval's meaning is JOutcome!Expected (module JEval); it reads expr, heap *)
(* and nothing else, and changes nothing but hist - that frame is what     *)
(* C05 (repeatable, AST read-only), C07 (inputs untouched) and C20         *)
(* (registry visibility) state.  Deviations of the pinned code from this   *)
(* design are written as *additional named actions* enabled by Dev, so     *)
(* that TLC can show each of them breaks a property (vacuity guard) and    *)
(* trace validation can recognise a history the design does not allow.     *)
(* The per-call data of built-in functions (goCallable.context/name) is    *)
(* refined in module JCall.                                                *)
(***************************************************************************)
EXTENDS JOutcome

CONSTANTS ExprIds, DocIds, Programs, Docs, RegNames, RegVals, Dev, MaxHist, MaxOps

VARIABLES greg, expr, heap, hist, gsnap, locals, nops
apivars == <<greg, expr, heap, hist, gsnap, locals, nops>>

None == [k |-> "None"]

\* a registry is a sequence of <<name, value>> with unique names (later registrations win)
RegPut(reg, nm, v) == BindIn(reg, nm, v)

ApiInit ==
    /\ greg = <<>>
    /\ expr = [e \in ExprIds |-> None]
    /\ heap \in [DocIds -> Docs \cup {Undef}]
    /\ hist = <<>>
    /\ gsnap = [e \in ExprIds |-> <<>>]       \* history variable: greg at the time e was compiled
    /\ locals = [e \in ExprIds |-> <<>>]      \* history variable: registrations made on e itself
    /\ nops = 0                               \* number of API calls so far (bounds the model only)

RegisterGlobal(nm, v) ==
    /\ greg' = RegPut(greg, nm, v)
    /\ UNCHANGED <<expr, heap, hist, gsnap, locals>>

\* Compile copies the package-level registry (C20: affects exactly the expressions compiled afterwards)
ApiCompile(e, p) ==
    /\ expr' = [expr EXCEPT ![e] = [ast |-> p, reg |-> greg]]
    /\ gsnap' = [gsnap EXCEPT ![e] = greg]
    /\ locals' = [locals EXCEPT ![e] = <<>>]
    /\ UNCHANGED <<greg, heap, hist>>

RegisterExpr(e, nm, v) ==
    /\ expr[e] # None
    /\ expr' = [expr EXCEPT ![e].reg = RegPut(@, nm, v)]
    /\ locals' = [locals EXCEPT ![e] = RegPut(@, nm, v)]
    /\ UNCHANGED <<greg, heap, hist, gsnap>>

EvalOutcome(e, d) == Expected(expr[e].ast, heap[d], expr[e].reg)
HistRec(e, d) == [e |-> e, ast |-> expr[e].ast, reg |-> expr[e].reg, inp |-> heap[d], out |-> EvalOutcome(e, d)]

ApiEval(e, d) ==
    /\ expr[e] # None
    /\ Len(hist) < MaxHist
    /\ hist' = Append(hist, HistRec(e, d))
    /\ UNCHANGED <<greg, expr, heap, gsnap, locals>>               \* the frame: C05, C07

\* only the caller changes a document
CallerMutates(d, v) ==
    /\ heap' = [heap EXCEPT ![d] = v]
    /\ UNCHANGED <<greg, expr, hist, gsnap, locals>>

---------------------------------------------------------------------------
(* Deviations (DESIGN.md 4.6).  Each is what a known or plausible defect    *)
(* does to the state; none is enabled in the design (Dev = {}).             *)

\* the chain operator inserts its left side into the parsed call's argument list
ChainInsert(n) ==
    IF n.k = "Apply" /\ n.r.k = "Call" THEN [n EXCEPT !.r.args = <<n.l>> \o @] ELSE n
EvalChainInsert(e, d) ==
    /\ "chain_args" \in Dev
    /\ expr[e] # None
    /\ Len(hist) < MaxHist
    /\ hist' = Append(hist, HistRec(e, d))
    /\ expr' = [expr EXCEPT ![e].ast = ChainInsert(@)]
    /\ UNCHANGED <<greg, heap, gsnap, locals>>

\* a transform writes through to the caller's document (pattern selects nodes outside the clone)
EvalTransformAlias(e, d) ==
    /\ "transform_alias" \in Dev
    /\ expr[e] # None
    /\ Len(hist) < MaxHist
    /\ LET out == EvalOutcome(e, d)
       IN  /\ hist' = Append(hist, HistRec(e, d))
           \* the update clause is applied to the caller's own object (the pattern returned it)
           /\ heap' = [heap EXCEPT ![d] = IF expr[e].ast.k = "Apply" /\ expr[e].ast.r.k = "Transform" /\ @.t = "obj"
                                          THEN ObjPut(@, <<122>>, IntV(1)) ELSE @]
    /\ UNCHANGED <<greg, expr, gsnap, locals>>

\* Compile keeps a reference to the live package-level registry instead of copying it
CompileAliasesRegistry(e, p) ==
    /\ "registry_alias" \in Dev
    /\ expr' = [expr EXCEPT ![e] = [ast |-> p, reg |-> greg, live |-> TRUE]]
    /\ gsnap' = [gsnap EXCEPT ![e] = greg]
    /\ locals' = [locals EXCEPT ![e] = <<>>]
    /\ UNCHANGED <<greg, heap, hist>>
RegisterGlobalLeaks(nm, v) ==
    /\ "registry_alias" \in Dev
    /\ greg' = RegPut(greg, nm, v)
    /\ expr' = [e \in ExprIds |-> IF expr[e] # None /\ "live" \in DOMAIN expr[e] THEN [expr[e] EXCEPT !.reg = RegPut(@, nm, v)] ELSE expr[e]]
    /\ UNCHANGED <<heap, hist, gsnap, locals>>

ApiNext ==
    /\ nops < MaxOps
    /\ nops' = nops + 1
    /\
       \/ \E nm \in RegNames, v \in RegVals : RegisterGlobal(nm, v) \/ RegisterGlobalLeaks(nm, v)
       \/ \E e \in ExprIds, p \in Programs : ApiCompile(e, p) \/ CompileAliasesRegistry(e, p)
       \/ \E e \in ExprIds, nm \in RegNames, v \in RegVals : RegisterExpr(e, nm, v)
       \/ \E e \in ExprIds, d \in DocIds : ApiEval(e, d) \/ EvalChainInsert(e, d) \/ EvalTransformAlias(e, d)
       \/ \E d \in DocIds, v \in Docs : CallerMutates(d, v)

ApiSpec == ApiInit /\ [][ApiNext]_apivars

---------------------------------------------------------------------------
(* Properties                                                               *)

\* C05: the compiled expression is the same after any evaluation as before it
AstReadOnly == [][\A e \in ExprIds : (expr[e] # None /\ hist' # hist) => expr'[e] = expr[e]]_apivars

\* C05: equal expression, bindings and input give equal outcomes, whatever was evaluated before;
\* the tree an Eval works on is the one Compile produced (hist records the tree each Eval saw)
SameCall(h1, h2) == h1.e = h2.e /\ h1.reg = h2.reg /\ h1.inp = h2.inp
Repeatable == \A i, j \in 1..Len(hist) : SameCall(hist[i], hist[j]) /\ hist[i].ast = hist[j].ast => hist[i].out = hist[j].out
CompiledTreeIsEvaluated == \A i \in 1..Len(hist) : hist[i].ast \in Programs

\* C07: Eval never changes the value it is given
InputsUntouched == [][hist' # hist => heap' = heap]_apivars

\* C20: an expression sees the package-level registrations made before it was compiled, plus its own
RECURSIVE Overlay(_, _)
Overlay(base, over) == IF over = <<>> THEN base ELSE Overlay(RegPut(base, over[1][1], over[1][2]), Tail(over))
Visibility == \A e \in ExprIds : expr[e] # None => expr[e].reg = Overlay(gsnap[e], locals[e])
=============================================================================
